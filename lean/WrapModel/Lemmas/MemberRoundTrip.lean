import WrapModel.Lemmas.TemplateRoundTrip

namespace WrapModel.Spec
open WrapModel WrapModel.Tok WrapModel.Parse

/-! ### enums -/

def EnumWF (e : EnumDecl) : Prop :=
  e.enumerators ≠ [] ∧ (e.kw = .enum → e.name ≠ "class" ∧ e.name ≠ "struct")

theorem penumerators_lex : ∀ (es : List String), es ≠ [] → ∀ (n : Nat) (X : List Lexeme), es.length ≤ n →
    answerL (.lit ",") X = .no → runL (penumerators n) (enumeratorsLex es ++ X) = .ok es X := by
  intro es
  induction es with
  | nil => intro h; exact absurd rfl h
  | cons e es' ih =>
    intro _ n X hn hc
    obtain ⟨m, rfl⟩ : ∃ m, n = m + 1 := ⟨n - 1, by simp at hn; omega⟩
    cases es' with
    | nil => simp [penumerators, enumeratorsLex, enumeratorsTailLex, runL_bind, runL_need, runL_probe, hc]
    | cons e' es'' =>
      have h2 := ih (by simp) m X (by simp at hn ⊢; omega) hc
      have e0 : enumeratorsLex (e :: e' :: es'') ++ X = .word e :: .sym "," :: (enumeratorsLex (e' :: es'') ++ X) := by
        simp [enumeratorsLex, enumeratorsTailLex]
      rw [e0]
      simp (config := {decide := true}) [penumerators, runL_bind, runL_need, runL_probe, answerL_sym, ansSym, h2]

theorem penumKw_lex (k : EnumKw) (name : String) (Y : List Lexeme) (h : k = .enum → name ≠ "class" ∧ name ≠ "struct") :
    runL penumKw (enumKwLex k ++ .word name :: Y) = .ok (some k) (.word name :: Y) := by
  cases k with
  | enum =>
    obtain ⟨h1, h2⟩ := h rfl
    have t1 : kwTail "enum class" = some ['c', 'l', 'a', 's', 's'] := by decide
    have t2 : kwTail "enum struct" = some ['s', 't', 'r', 'u', 'c', 't'] := by decide
    have n1 : ['c', 'l', 'a', 's', 's'] ≠ name.toList := fun he => h1 (String.ext (by simpa using he.symm))
    have n2 : ['s', 't', 'r', 'u', 'c', 't'] ≠ name.toList := fun he => h2 (String.ext (by simpa using he.symm))
    have a1 : ansWord (.kw "enum class") "enum" (.word name :: Y) = .no := by
      have : twoWordNo "enum class" (.word name :: Y) = true := by simp [twoWordNo, t1, n1]
      simp (config := {decide := true}) [ansWord, this]
    have a2 : ansWord (.kw "enum struct") "enum" (.word name :: Y) = .no := by
      have : twoWordNo "enum struct" (.word name :: Y) = true := by simp [twoWordNo, t2, n2]
      simp (config := {decide := true}) [ansWord, this]
    simp (config := {decide := true}) [penumKw, enumKwLex, runL_bind, runL_probe, a1, a2, ansWord_kw_eq]
  | enumClass => simp (config := {decide := true}) [penumKw, enumKwLex, runL_bind, runL_probe, ansAtom]
  | enumStruct => simp (config := {decide := true}) [penumKw, enumKwLex, runL_bind, runL_probe, ansAtom, kwIncomparable]

theorem penumKw_none {X : List Lexeme} (h1 : answerL (.kw "enum class") X = .no) (h2 : answerL (.kw "enum struct") X = .no)
    (h3 : answerL (.kw "enum") X = .no) : runL penumKw X = .ok none X := by
  simp [penumKw, runL_bind, runL_probe, h1, h2, h3]

theorem penumKw_starts {X : List Lexeme} (h : StartsOK X) : runL penumKw X = .ok none X :=
  penumKw_none (kw2_no_starts h _ (by decide)) (kw2_no_starts h _ (by decide)) (kw_no_starts h _ (by decide))

theorem comma_no_rbrace' (X : List Lexeme) : answerL (.lit ",") (.sym "}" :: X) = .no := comma_no_rbrace X

theorem penumRest_lex (e : EnumDecl) (hwf : EnumWF e) (n : Nat) (hn : e.enumerators.length ≤ n) (Y : List Lexeme) :
    runL (penumRest n e.kw) (.word e.name :: .sym "{" :: (enumeratorsLex e.enumerators ++ .sym "}" :: .sym ";" :: Y)) = .ok e Y := by
  obtain ⟨k, name, es⟩ := e
  have h1 := penumerators_lex es hwf.1 n (.sym "}" :: .sym ";" :: Y) hn (comma_no_rbrace _)
  simp (config := {decide := true}) [penumRest, runL_bind, runL_need, runL_expect, answerL_sym, ansSym, h1]

/-! ### class members: the member reader cut into named pieces -/

def dunderPart (n : Nat) : P Member := do
  let name ← P.need .alpha
  P.expect (.lit "__")
  P.expect (.lit "(")
  let args ← pargs n
  P.expect (.lit ";")
  pure (.dunder name args)

def staticPart (n : Nat) (tmpl : Option Template) : P Member := do
  let r ← ptype n
  let name ← P.need .word
  P.expect (.lit "(")
  let args ← pargs n
  P.expect (.lit ";")
  pure (.static tmpl (toRet r) name args)

/-- after the type at the beginning of a constructor / method / operator / property -/
def memberTail (n : Nat) (tmpl : Option Template) : P Member := do
  let r ← ptype n
  if (← P.probe (.lit "(")) then
    match r.ty with
    | .simple ⟨[], name, []⟩ ⟨false, .none⟩ false =>
      let args ← pargs n
      P.expect (.lit ";")
      pure (.ctor tmpl name args)
    | _ => P.failParse
  else
    let name ← P.need .word
    if name == "operator" then
      if tmpl.isSome then P.failParse
      else
        let sym ← P.need .opsym
        P.expect (.lit "(")
        let args ← pargs n
        P.expect (.kw "const")
        P.expect (.lit ";")
        let ret := toRet r
        if validOperator ret sym args then pure (.op ret sym args)
        else P.failValidation
    else if (← P.probe (.lit "(")) then
      let args ← pargs n
      let isConst ← P.probe (.kw "const")
      P.expect (.lit ";")
      pure (.method tmpl (toRet r) name args isConst)
    else
      if tmpl.isSome then P.failParse
      else
        let d ← optDefault
        P.expect (.lit ";")
        pure (.prop ⟨r.ty, name, d⟩)

theorem pmember_eq (n : Nat) : pmember n = (do
    if (← P.probe (.lit "__")) then dunderPart n
    else
      let tmpl ← ptemplate n
      if (← P.probe (.kw "static")) then staticPart n tmpl
      else
        let ek ← (if tmpl.isNone then penumKw else pure none : P (Option EnumKw))
        match ek with
        | some k =>
          let e ← penumRest n k
          pure (.enum e)
        | none => memberTail n tmpl) := by
  rw [pmember]; rfl

def MemberWF : Member → Prop
  | .ctor tmpl name args => TmplWF tmpl ∧ ArgsWF args ∧ FirstOK name []
  | .method tmpl ret name args _ => TmplWF tmpl ∧ RetWF ret ∧ ArgsWF args ∧ name ≠ "operator"
  | .static tmpl ret _ args => TmplWF tmpl ∧ RetWF ret ∧ ArgsWF args
  | .prop v => TyWF v.ctype ∧ v.name ≠ "operator"
  | .op ret sym args => RetWF ret ∧ ArgsWF args ∧ validOperator ret sym args = true
  | .enum e => EnumWF e
  | .dunder _ args => ArgsWF args

def memberFuel : Member → Nat
  | .ctor tmpl _ args => tmplFuel tmpl + argsFuel args + 3
  | .method tmpl ret _ args _ => tmplFuel tmpl + tyFuel (retAsType ret) + argsFuel args + 1
  | .static tmpl ret _ args => tmplFuel tmpl + tyFuel (retAsType ret) + argsFuel args + 1
  | .prop v => tyFuel v.ctype + 1
  | .op ret _ args => tyFuel (retAsType ret) + argsFuel args + 1
  | .enum e => e.enumerators.length + 1
  | .dunder _ args => argsFuel args + 1

theorem noCont_lparen (X : List Lexeme) : NoCont (.sym "(" :: X) := by
  rw [noCont_iff]; simp (config := {decide := true}) [answerL_sym, ansSym]
theorem noCont_semi (X : List Lexeme) : NoCont (.sym ";" :: X) := by
  rw [noCont_iff]; simp (config := {decide := true}) [answerL_sym, ansSym]
theorem noCont_eq (X : List Lexeme) : NoCont (.sym "=" :: X) := by
  rw [noCont_iff]; simp (config := {decide := true}) [answerL_sym, ansSym]
theorem const_no_semi (X : List Lexeme) : answerL (.kw "const") (.sym ";" :: X) = .no := by
  simp (config := {decide := true}) [answerL_sym, ansSym]
theorem eq_no_semi (X : List Lexeme) : answerL (.lit "=") (.sym ";" :: X) = .no := by
  simp (config := {decide := true}) [answerL_sym, ansSym]

theorem pret_lex (r : RetType) (hwf : RetWF r) (n : Nat) (hn : tyFuel (retAsType r) ≤ n) (name : String) (X : List Lexeme) :
    runL (ptype n) (retLex r ++ .word name :: X) = .ok ⟨retAsType r, pairFlag (retAsType r)⟩ (.word name :: X) :=
  ptype_lex n (retAsType r) hn hwf.1 _ (fun _ => noCont_word _ _)

theorem memberTail_ctor (tmpl : Option Template) (name : String) (args : List Arg) (hname : FirstOK name [])
    (hargs : ArgsWF args) (n : Nat) (hn : argsFuel args + 2 ≤ n) (Y : List Lexeme) :
    runL (memberTail n tmpl) (.word name :: .sym "(" :: (argsLex args ++ .sym ")" :: .sym ";" :: Y)) = .ok (.ctor tmpl name args) Y := by
  have hty : TyWF (.simple ⟨[], name, []⟩ .plain false) := by simp [TyWF, hname]
  have hns : name ≠ "std" := fun he => hname.2.2.2.2.2 he rfl
  have h1 := ptype_lex n (.simple ⟨[], name, []⟩ .plain false) (by simp [tyFuel]; omega) hty
    (.sym "(" :: (argsLex args ++ .sym ")" :: .sym ";" :: Y)) (fun _ => noCont_lparen _)
  simp only [tyLex, Quals.plain, constLex, Bool.false_eq_true, if_false, Bool.false_and, List.nil_append, namesLex_first,
    hns, false_and, identsLex, sufLex, List.append_nil, List.cons_append] at h1
  have h2 := pargs_lex args hargs n (.sym ";" :: Y) (by omega)
  simp (config := {decide := true}) [memberTail, runL_bind, runL_probe, runL_expect, h1, h2, answerL_sym, ansSym, pairFlag]

theorem memberTail_method (tmpl : Option Template) (ret : RetType) (name : String) (args : List Arg) (c : Bool)
    (hret : RetWF ret) (hargs : ArgsWF args) (hname : name ≠ "operator") (n : Nat)
    (hn : tyFuel (retAsType ret) + argsFuel args ≤ n) (Y : List Lexeme) :
    runL (memberTail n tmpl) (retLex ret ++ .word name :: .sym "(" :: (argsLex args ++ .sym ")" :: (constLex c ++ .sym ";" :: Y))) =
      .ok (.method tmpl ret name args c) Y := by
  have h1 := pret_lex ret hret n (by omega) name (.sym "(" :: (argsLex args ++ .sym ")" :: (constLex c ++ .sym ";" :: Y)))
  have h2 := pargs_lex args hargs n (constLex c ++ .sym ";" :: Y) (by omega)
  have h3 := probe_const c (.sym ";" :: Y) (const_no_semi _)
  rw [runL_probe] at h3
  simp (config := {decide := true}) [memberTail, runL_bind, runL_probe, runL_need, runL_expect, h1, h2, h3, ansWord_lit, hname,
    answerL_sym, ansSym, hret.2]

theorem memberTail_op (ret : RetType) (sym : String) (args : List Arg)
    (hret : RetWF ret) (hargs : ArgsWF args) (hv : validOperator ret sym args = true) (n : Nat)
    (hn : tyFuel (retAsType ret) + argsFuel args ≤ n) (Y : List Lexeme) :
    runL (memberTail n none) (retLex ret ++ .word "operator" :: .atom .opsym sym sym "" :: .sym "(" ::
        (argsLex args ++ .sym ")" :: .word "const" :: .sym ";" :: Y)) = .ok (.op ret sym args) Y := by
  have h1 := pret_lex ret hret n (by omega) "operator" (.atom .opsym sym sym "" :: .sym "(" :: (argsLex args ++ .sym ")" :: .word "const" :: .sym ";" :: Y))
  have h2 := pargs_lex args hargs n (.word "const" :: .sym ";" :: Y) (by omega)
  simp (config := {decide := true}) [memberTail, runL_bind, runL_probe, runL_need, runL_expect, h1, h2, ansWord_lit, ansAtom,
    ansWord_kw_eq, answerL_sym, ansSym, hret.2, hv]

theorem memberTail_prop (v : VarDecl) (hty : TyWF v.ctype) (hname : v.name ≠ "operator") (n : Nat) (hn : tyFuel v.ctype ≤ n)
    (Y : List Lexeme) :
    runL (memberTail n none) (tyLex v.ctype ++ .word v.name :: (dfltLex v.default ++ .sym ";" :: Y)) = .ok (.prop v) Y := by
  obtain ⟨ty, name, d⟩ := v
  have h1 := ptype_lex n ty hn hty (.word name :: (dfltLex d ++ .sym ";" :: Y)) (fun _ => noCont_word _ _)
  have h2 := optDefault_lex d (.sym ";" :: Y) (fun _ => eq_no_semi _)
  cases d with
  | none =>
    simp only [dfltLex, List.nil_append] at h1 h2 ⊢
    simp (config := {decide := true}) [memberTail, runL_bind, runL_probe, runL_need, runL_expect, h1, h2, ansWord_lit, hname,
      answerL_sym, ansSym]
  | some dv =>
    simp only [dfltLex, List.cons_append, List.nil_append] at h1 h2 ⊢
    simp (config := {decide := true}) [memberTail, runL_bind, runL_probe, runL_need, runL_expect, h1, h2, ansWord_lit, hname,
      answerL_sym, ansSym]

theorem dunder_no_template (X : List Lexeme) : answerL (.lit "__") (.word "template" :: X) = .no := by
  simp (config := {decide := true}) [ansWord]

/-- a member that begins (after its optional template header) like a type -/
theorem pmember_prefix (tmpl : Option Template) (hwf : TmplWF tmpl) (n : Nat) (hn : tmplFuel tmpl ≤ n) (M : List Lexeme)
    (hM : StartsOK M) : runL (pmember n) (tmplLex tmpl ++ M) = runL (memberTail n tmpl) M := by
  have hs := kw_no_starts hM "static" (by decide)
  have ht := ptemplate_lex tmpl hwf n hn M (fun _ => kw_no_starts hM "template" (by decide))
  rw [pmember_eq]
  cases tmpl with
  | none =>
    simp only [tmplLex, List.nil_append] at ht ⊢
    simp [runL_bind, runL_probe, dunder_no_starts hM, ht, hs, penumKw_starts hM]
  | some ps =>
    have hd : answerL (.lit "__") (tmplLex (some ps) ++ M) = .no := by simp (config := {decide := true}) [tmplLex, ansWord]
    simp [runL_bind, runL_probe, hd, ht, hs]

theorem pmember_static_prefix (tmpl : Option Template) (hwf : TmplWF tmpl) (n : Nat) (hn : tmplFuel tmpl ≤ n) (M : List Lexeme) :
    runL (pmember n) (tmplLex tmpl ++ .word "static" :: M) = runL (staticPart n tmpl) M := by
  have ht := ptemplate_lex tmpl hwf n hn (.word "static" :: M) (fun _ => by simp (config := {decide := true}) [ansWord])
  rw [pmember_eq]
  cases tmpl with
  | none =>
    simp only [tmplLex, List.nil_append] at ht ⊢
    have hd : answerL (.lit "__") (.word "static" :: M) = .no := by simp (config := {decide := true}) [ansWord]
    simp (config := {decide := true}) [runL_bind, runL_probe, hd, ht, ansWord_kw_eq]
  | some ps =>
    have hd : answerL (.lit "__") (tmplLex (some ps) ++ .word "static" :: M) = .no := by simp (config := {decide := true}) [tmplLex, ansWord]
    simp (config := {decide := true}) [runL_bind, runL_probe, hd, ht, ansWord_kw_eq]

theorem staticPart_lex (tmpl : Option Template) (ret : RetType) (name : String) (args : List Arg)
    (hret : RetWF ret) (hargs : ArgsWF args) (n : Nat) (hn : tyFuel (retAsType ret) + argsFuel args ≤ n) (Y : List Lexeme) :
    runL (staticPart n tmpl) (retLex ret ++ .word name :: .sym "(" :: (argsLex args ++ .sym ")" :: .sym ";" :: Y)) =
      .ok (.static tmpl ret name args) Y := by
  have h1 := pret_lex ret hret n (by omega) name (.sym "(" :: (argsLex args ++ .sym ")" :: .sym ";" :: Y))
  have h2 := pargs_lex args hargs n (.sym ";" :: Y) (by omega)
  simp (config := {decide := true}) [staticPart, runL_bind, runL_need, runL_expect, h1, h2, answerL_sym, ansSym, hret.2]

theorem pmember_enum (e : EnumDecl) (hwf : EnumWF e) (n : Nat) (hn : e.enumerators.length ≤ n) (Y : List Lexeme) :
    runL (pmember n) (enumLex e ++ Y) = .ok (.enum e) Y := by
  obtain ⟨k, name, es⟩ := e
  have hk := penumKw_lex k name (.sym "{" :: (enumeratorsLex es ++ .sym "}" :: .sym ";" :: Y)) hwf.2
  have hr := penumRest_lex ⟨k, name, es⟩ hwf n hn Y
  have e0 : enumLex ⟨k, name, es⟩ ++ Y = enumKwLex k ++ .word name :: .sym "{" :: (enumeratorsLex es ++ .sym "}" :: .sym ";" :: Y) := by
    simp [enumLex]
  rw [e0, pmember_eq]
  have hd : answerL (.lit "__") (enumKwLex k ++ .word name :: .sym "{" :: (enumeratorsLex es ++ .sym "}" :: .sym ";" :: Y)) = .no := by
    cases k <;> simp (config := {decide := true}) [enumKwLex, ansWord, ansAtom, kwIncomparable]
  have ht : answerL (.kw "template") (enumKwLex k ++ .word name :: .sym "{" :: (enumeratorsLex es ++ .sym "}" :: .sym ";" :: Y)) = .no := by
    cases k <;> simp (config := {decide := true}) [enumKwLex, ansWord, ansAtom, kwIncomparable]
  have hs : answerL (.kw "static") (enumKwLex k ++ .word name :: .sym "{" :: (enumeratorsLex es ++ .sym "}" :: .sym ";" :: Y)) = .no := by
    cases k <;> simp (config := {decide := true}) [enumKwLex, ansWord, ansAtom, kwIncomparable]
  simp only at hr
  simp [runL_bind, runL_probe, hd, ptemplate, ht, hs, hk, hr]

theorem pmember_dunder (name : String) (args : List Arg) (hargs : ArgsWF args) (n : Nat) (hn : argsFuel args ≤ n) (Y : List Lexeme) :
    runL (pmember n) (.sym "__" :: .atom .alpha name name "" :: .sym "__" :: .sym "(" :: (argsLex args ++ .sym ")" :: .sym ";" :: Y)) =
      .ok (.dunder name args) Y := by
  have h2 := pargs_lex args hargs n (.sym ";" :: Y) hn
  rw [pmember_eq]
  simp (config := {decide := true}) [runL_bind, runL_probe, runL_need, runL_expect, dunderPart, answerL_sym, ansDunder, ansSym, ansAtom, h2]

theorem firstOK_starts (name : String) (h : FirstOK name []) (Y : List Lexeme) : StartsOK (.word name :: Y) := by
  obtain ⟨h1, h2, h3, h4, h5, _⟩ := h
  exact startsOK_cons (.name name h1 h2 h3 h4 h5) Y

theorem retLex_starts (r : RetType) (hwf : RetWF r) : StartsOK (retLex r) := tyLex_starts _ hwf.1

/-- **Round trip for class members.** -/
theorem pmember_lex (m : Member) (hwf : MemberWF m) (n : Nat) (hn : memberFuel m ≤ n) (Y : List Lexeme) :
    runL (pmember n) (memberLex m ++ Y) = .ok m Y := by
  cases m with
  | ctor tmpl name args =>
    obtain ⟨ht, ha, hname⟩ := hwf
    simp only [memberFuel] at hn
    have e : memberLex (.ctor tmpl name args) ++ Y = tmplLex tmpl ++ (.word name :: .sym "(" :: (argsLex args ++ .sym ")" :: .sym ";" :: Y)) := by
      simp [memberLex]
    rw [e, pmember_prefix tmpl ht n (by omega) _ (firstOK_starts name hname _)]
    exact memberTail_ctor tmpl name args hname ha n (by omega) Y
  | method tmpl ret name args c =>
    obtain ⟨ht, hr, ha, hname⟩ := hwf
    simp only [memberFuel] at hn
    have e : memberLex (.method tmpl ret name args c) ++ Y =
        tmplLex tmpl ++ (retLex ret ++ .word name :: .sym "(" :: (argsLex args ++ .sym ")" :: (constLex c ++ .sym ";" :: Y))) := by
      simp [memberLex]
    rw [e, pmember_prefix tmpl ht n (by omega) _ (startsOK_append (retLex_starts _ hr) _)]
    exact memberTail_method tmpl ret name args c hr ha hname n (by omega) Y
  | static tmpl ret name args =>
    obtain ⟨ht, hr, ha⟩ := hwf
    simp only [memberFuel] at hn
    have e : memberLex (.static tmpl ret name args) ++ Y =
        tmplLex tmpl ++ .word "static" :: (retLex ret ++ .word name :: .sym "(" :: (argsLex args ++ .sym ")" :: .sym ";" :: Y)) := by
      simp [memberLex]
    rw [e, pmember_static_prefix tmpl ht n (by omega)]
    exact staticPart_lex tmpl ret name args hr ha n (by omega) Y
  | prop v =>
    obtain ⟨hty, hname⟩ := hwf
    simp only [memberFuel] at hn
    have e : memberLex (.prop v) ++ Y = tmplLex none ++ (tyLex v.ctype ++ .word v.name :: (dfltLex v.default ++ .sym ";" :: Y)) := by
      simp [memberLex, tmplLex]
    rw [e, pmember_prefix none trivial n (by simp [tmplFuel]) _ (startsOK_append (tyLex_starts _ hty) _)]
    exact memberTail_prop v hty hname n (by omega) Y
  | op ret sym args =>
    obtain ⟨hr, ha, hv⟩ := hwf
    simp only [memberFuel] at hn
    have e : memberLex (.op ret sym args) ++ Y = tmplLex none ++ (retLex ret ++ .word "operator" :: .atom .opsym sym sym "" :: .sym "(" ::
        (argsLex args ++ .sym ")" :: .word "const" :: .sym ";" :: Y)) := by
      simp [memberLex, tmplLex]
    rw [e, pmember_prefix none trivial n (by simp [tmplFuel]) _ (startsOK_append (retLex_starts _ hr) _)]
    exact memberTail_op ret sym args hr ha hv n (by omega) Y
  | enum e =>
    simp only [memberFuel] at hn
    simp only [memberLex]
    exact pmember_enum e hwf n (by omega) Y
  | dunder name args =>
    simp only [memberFuel] at hn
    have e : memberLex (.dunder name args) ++ Y =
        .sym "__" :: .atom .alpha name name "" :: .sym "__" :: .sym "(" :: (argsLex args ++ .sym ")" :: .sym ";" :: Y) := by
      simp [memberLex]
    rw [e]
    exact pmember_dunder name args hwf n (by omega) Y

end WrapModel.Spec
