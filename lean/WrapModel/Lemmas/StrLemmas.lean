/-
  Facts about the Python string operations of `Model/Inst.lean` (`str.split("::")`, `in`, `str.replace`)
  on names that are joined from colon-free words — what `instantiate_type`'s string tests see.
  Helper lemmas only (property theorems are in `Props/C02.lean`).
-/
import WrapModel.Model.Inst
import WrapModel.Spec.Subst

namespace WrapModel.Str
open WrapModel WrapModel.Inst WrapModel.Spec

def sep : List Char := [':', ':']

/-- `a::b::c` as characters -/
def joinL : List (List Char) → List Char
  | [] => []
  | [x] => x
  | x :: y :: r => x ++ sep ++ joinL (y :: r)

theorem joinL_eq_intercalate (xs : List (List Char)) : joinL xs = List.intercalate sep xs := by
  induction xs with
  | nil => rfl
  | cons x r ih =>
    cases r with
    | nil => simp [joinL, List.intercalate, List.intersperse]
    | cons y r' =>
      rw [joinL, ih]
      simp [List.intercalate, List.intersperse]

theorem joinWith_toList (xs : List String) : (joinWith "::" xs).toList = joinL (xs.map String.toList) := by
  rw [joinL_eq_intercalate]; simp [joinWith, String.toList_intercalate, sep]

theorem isPrefixOf_sep_cons {c : Char} {r : List Char} (h : c ≠ ':') : sep.isPrefixOf (c :: r) = false := by
  simp [sep, List.isPrefixOf]
  intro h'; exact absurd h'.symm h

/-! ### `split("::")` -/

/-- consuming a colon-free word -/
theorem splitOnL_word (x : List Char) (hx : ':' ∉ x) : ∀ (fuel : Nat) (cur rest : List Char), x.length ≤ fuel →
    splitOnL sep fuel cur (x ++ rest) = splitOnL sep (fuel - x.length) (x.reverse ++ cur) rest := by
  induction x with
  | nil => intro fuel cur rest _; simp
  | cons c r ih =>
    intro fuel cur rest hf
    have hc : c ≠ ':' := by intro h; apply hx; simp [h]
    have hr : ':' ∉ r := by intro h; apply hx; simp [h]
    cases fuel with
    | zero => simp at hf
    | succ n =>
      have : splitOnL sep (n+1) cur (c :: (r ++ rest)) = splitOnL sep n (c :: cur) (r ++ rest) := by
        simp [splitOnL, isPrefixOf_sep_cons hc]
      simp only [List.cons_append, this]
      rw [ih hr n (c :: cur) rest (by simpa using hf)]
      simp

theorem splitOnL_nil (fuel : Nat) (cur : List Char) : splitOnL sep fuel cur [] = [cur.reverse] := by
  cases fuel <;> simp [splitOnL]

/-- splitting a join of colon-free words gives the words back -/
theorem splitOnL_joinL (xs : List (List Char)) (hx : ∀ x ∈ xs, ':' ∉ x) : ∀ (x : List Char), ':' ∉ x → ∀ (fuel : Nat) (cur : List Char),
    (joinL (x :: xs)).length < fuel →
    splitOnL sep fuel cur (joinL (x :: xs)) = (cur.reverse ++ x) :: xs := by
  induction xs with
  | nil =>
    intro x hx0 fuel cur hf
    have := splitOnL_word x hx0 fuel cur [] (by simp [joinL] at hf; omega)
    simp only [List.append_nil] at this
    simp [joinL, this, splitOnL_nil]
  | cons y r ih =>
    intro x hx0 fuel cur hf
    have hlen : (joinL (x :: y :: r)).length = x.length + 2 + (joinL (y :: r)).length := by simp [joinL, sep]; omega
    have h1 := splitOnL_word x hx0 fuel cur (sep ++ joinL (y :: r)) (by omega)
    have hj : joinL (x :: y :: r) = x ++ (sep ++ joinL (y :: r)) := by simp [joinL]
    rw [hj, h1]
    obtain ⟨k, hk⟩ : ∃ k, fuel - x.length = k + 1 := ⟨fuel - x.length - 1, by omega⟩
    rw [hk]
    have : splitOnL sep (k+1) (x.reverse ++ cur) (sep ++ joinL (y :: r))
        = (x.reverse ++ cur).reverse :: splitOnL sep k [] (joinL (y :: r)) := by
      simp [sep, splitOnL, List.isPrefixOf]
    rw [this, ih (fun z hz => hx z (by simp [hz])) y (hx y (by simp)) k [] (by omega)]
    simp

theorem noColon_iff (s : String) : noColon s = true ↔ ':' ∉ s.toList := by simp [noColon]

theorem pySplit_join (x : String) (xs : List String) (h : ∀ y ∈ x :: xs, noColon y = true) :
    pySplit (joinWith "::" (x :: xs)) "::" = x :: xs := by
  unfold pySplit
  have hs : ("::" : String).toList = sep := by decide
  rw [hs, joinWith_toList]
  have hl : (joinWith "::" (x :: xs)).length = (joinL ((x :: xs).map String.toList)).length := by
    rw [← joinWith_toList, String.length_toList]
  rw [hl]
  simp only [List.map_cons]
  rw [splitOnL_joinL (xs.map String.toList) _ x.toList ((noColon_iff x).1 (h x (by simp))) _ []
    (by simp)]
  · simp [String.ofList_toList]
  · intro z hz
    simp only [List.mem_map] at hz
    obtain ⟨y, hy, rfl⟩ := hz
    exact (noColon_iff y).1 (h y (by simp [hy]))

end WrapModel.Str

namespace WrapModel.Str
open WrapModel WrapModel.Inst WrapModel.Spec

/-! ### `in` (substring test) -/

theorem isPrefixOf_append_sepchar (pat : List Char) (c : Char) (hc : c ∉ pat) : ∀ (a b : List Char),
    pat.isPrefixOf (a ++ c :: b) = pat.isPrefixOf a := by
  induction pat with
  | nil => intro a b; simp
  | cons p ps ih =>
    intro a b
    have hp : p ≠ c := by intro h; apply hc; simp [h]
    have hps : c ∉ ps := by intro h; apply hc; simp [h]
    cases a with
    | nil => simp [List.isPrefixOf, hp]
    | cons d a' => simp [List.isPrefixOf, ih hps a' b]

/-- a pattern that does not contain the character `c` cannot straddle an occurrence of `c` -/
theorem isSub_append_sepchar (pat : List Char) (hne : pat ≠ []) (c : Char) (hc : c ∉ pat) : ∀ (a b : List Char),
    isSub pat (a ++ c :: b) = (isSub pat a || isSub pat b) := by
  intro a b
  induction a with
  | nil =>
    cases pat with
    | nil => exact absurd rfl hne
    | cons p ps =>
      have hp : p ≠ c := by intro h; apply hc; simp [h]
      simp [isSub, List.isPrefixOf, hp]
  | cons d a' ih =>
    have h1 := isPrefixOf_append_sepchar pat c hc (d :: a') b
    simp only [List.cons_append] at h1 ⊢
    simp only [isSub, h1, ih, Bool.or_assoc]

theorem isSub_joinL (pat : List Char) (hne : pat ≠ []) (hc : ':' ∉ pat) (xs : List (List Char)) :
    isSub pat (joinL xs) = xs.any (isSub pat) := by
  induction xs with
  | nil =>
    cases pat with
    | nil => exact absurd rfl hne
    | cons p ps => simp [joinL, isSub]
  | cons x r ih =>
    cases r with
    | nil => simp [joinL]
    | cons y r' =>
      have : joinL (x :: y :: r') = x ++ ':' :: ([] ++ ':' :: joinL (y :: r')) := by simp [joinL, sep]
      rw [this, isSub_append_sepchar pat hne ':' hc, isSub_append_sepchar pat hne ':' hc, ih]
      cases pat with
      | nil => exact absurd rfl hne
      | cons p ps => simp [isSub]

theorem isSub_sep_noColon (x : List Char) (hx : ':' ∉ x) : isSub sep x = false := by
  induction x with
  | nil => simp [isSub, sep]
  | cons c r ih =>
    have hc : c ≠ ':' := by intro h; apply hx; simp [h]
    have hr : ':' ∉ r := by intro h; apply hx; simp [h]
    simp [isSub, isPrefixOf_sep_cons hc, ih hr]

theorem isSub_self_append (pat : List Char) (hne : pat ≠ []) (a b : List Char) : isSub pat (a ++ pat ++ b) = true := by
  induction a with
  | nil =>
    cases pat with
    | nil => exact absurd rfl hne
    | cons p ps =>
      simp only [List.nil_append, List.cons_append, isSub]
      have : (p :: ps).isPrefixOf (p :: (ps ++ b)) = true := by
        rw [List.isPrefixOf_iff_prefix]; exact ⟨b, by simp⟩
      simp [this]
  | cons d a' ih =>
    simp only [List.cons_append, isSub]
    simp only [List.append_assoc] at ih
    simp [ih]

theorem pyIn_sep_noColon (n : String) (h : noColon n = true) : pyIn "::" n = false := by
  have hs : ("::" : String).toList = sep := by decide
  simp only [pyIn, hs]
  exact isSub_sep_noColon _ ((noColon_iff n).1 h)

theorem pyIn_sep_join (x y : String) (r : List String) : pyIn "::" (joinWith "::" (x :: y :: r)) = true := by
  have hs : ("::" : String).toList = sep := by decide
  simp only [pyIn, hs, joinWith_toList, List.map_cons, joinL]
  have := isSub_self_append sep (by simp [sep]) x.toList (joinL (y.toList :: r.map String.toList))
  simpa using this

/-- a colon-free pattern occurs in `a::b::c` iff it occurs in one of the words -/
theorem pyIn_join (pat : String) (hne : pat ≠ "") (hc : noColon pat = true) (xs : List String) :
    pyIn pat (joinWith "::" xs) = xs.any (pyIn pat) := by
  simp only [pyIn, joinWith_toList]
  rw [isSub_joinL pat.toList (by intro h; apply hne; exact String.toList_inj.1 (by simpa using h)) ((noColon_iff pat).1 hc)]
  simp only [List.any_map]
  rfl

end WrapModel.Str

namespace WrapModel.Str
open WrapModel WrapModel.Inst WrapModel.Spec

/-! ### `str.replace` -/

theorem replaceAllL_absent (old new : List Char) : ∀ (s : List Char) (fuel : Nat), isSub old s = false →
    replaceAllL old new fuel s = s := by
  intro s
  induction s with
  | nil => intro fuel _; cases fuel <;> simp [replaceAllL]
  | cons c r ih =>
    intro fuel h
    simp only [isSub, Bool.or_eq_false_iff] at h
    cases fuel with
    | zero => simp [replaceAllL]
    | succ n => simp [replaceAllL, h.1, ih n h.2]

theorem replaceAllL_prefix (old new : List Char) (hne : old ≠ []) (rest : List Char) (fuel : Nat) :
    replaceAllL old new (fuel + 1) (old ++ rest) = new ++ replaceAllL old new fuel rest := by
  cases old with
  | nil => exact absurd rfl hne
  | cons p ps =>
    have : (p :: ps).isPrefixOf (p :: (ps ++ rest)) = true := by
      rw [List.isPrefixOf_iff_prefix]; exact ⟨rest, by simp⟩
    simp only [List.cons_append, replaceAllL, this]
    simp

/-! ### `is_scoped_template` -/

theorem isScopedTemplate_go_none (s : String) (tns : List String) (k : Nat)
    (h : ∀ t ∈ tns, (pyIn "::" s && (pySplit s "::").contains t) = false) :
    isScopedTemplate.go s (pySplit s "::") tns k = none := by
  induction tns generalizing k with
  | nil => simp [isScopedTemplate.go]
  | cons t r ih =>
    simp only [isScopedTemplate.go, h t (by simp)]
    exact ih (k+1) (fun t' ht' => h t' (by simp [ht']))

theorem isScopedTemplate_unscoped (tns : List String) (s : String) (h : pyIn "::" s = false) :
    isScopedTemplate tns s = none := by
  unfold isScopedTemplate
  exact isScopedTemplate_go_none s tns 0 (by intro t _; simp [h])

theorem isScopedTemplate_quiet (tns : List String) (s : String) (h : ∀ t ∈ tns, t ∉ pySplit s "::") :
    isScopedTemplate tns s = none := by
  unfold isScopedTemplate
  exact isScopedTemplate_go_none s tns 0 (by intro t ht; simp [h t ht])

theorem indexOf?_lt {x : String} {ys : List String} {k : Nat} (h : indexOf? x ys = some k) : k < ys.length := by
  induction ys generalizing k with
  | nil => simp [indexOf?] at h
  | cons y r ih =>
    simp only [indexOf?] at h
    split at h
    · simp at h; subst h; simp
    · cases hr : indexOf? x r with
      | none => simp [hr] at h
      | some j => simp [hr] at h; have := ih hr; simp; omega

theorem indexOf?_none_iff {x : String} {ys : List String} : indexOf? x ys = none ↔ x ∉ ys := by
  induction ys with
  | nil => simp [indexOf?]
  | cons y r ih =>
    simp only [indexOf?]
    by_cases hxy : x = y
    · simp [hxy]
    · have : (x == y) = false := by simpa using hxy
      simp [this, ih, hxy]

/-- the first parameter that is one of the `::`-separated parts, with its position -/
theorem isScopedTemplate_go_first (s : String) (parts : List String) (hs : pyIn "::" s = true) (T : String) (hT : T ∈ parts) :
    ∀ (tns : List String) (k idx : Nat), (∀ t ∈ tns, t ∈ parts → t = T) → indexOf? T tns = some idx →
    isScopedTemplate.go s parts tns k = some (T, k + idx) := by
  intro tns
  induction tns with
  | nil => intro k idx _ h; simp [indexOf?] at h
  | cons t r ih =>
    intro k idx hu h
    simp only [indexOf?] at h
    by_cases htT : T = t
    · subst htT
      simp at h; subst h
      simp [isScopedTemplate.go, hs, hT]
    · have hne : (T == t) = false := by simpa using htT
      simp only [hne] at h
      cases hr : indexOf? T r with
      | none => simp [hr] at h
      | some j =>
        simp [hr] at h; subst h
        have htc : t ∉ parts := fun hc => htT (hu t (by simp) hc).symm
        simp only [isScopedTemplate.go, hs, List.contains_eq_mem, htc, decide_false, Bool.and_false]
        rw [ih (k+1) j (fun t' ht' => hu t' (by simp [ht'])) hr]
        simp; omega

end WrapModel.Str
