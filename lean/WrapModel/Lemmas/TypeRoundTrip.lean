import WrapModel.Lemmas.RunL
import WrapModel.Spec.Lexemes

namespace WrapModel.Spec
open WrapModel WrapModel.Tok WrapModel.Parse

@[simp] theorem answerL_word (q : Q) (w : String) (r : List Lexeme) : answerL q (.word w :: r) = ansWord q w r := rfl
@[simp] theorem answerL_atom (q q' : Q) (tx tok lead : String) (r : List Lexeme) :
    answerL q (.atom q' tx tok lead :: r) = ansAtom q q' tok lead r := rfl
theorem answerL_sym (q : Q) (t : String) (r : List Lexeme) :
    answerL q (.sym t :: r) = if t == "__" then ansDunder q r else ansSym q t r := rfl

theorem noCont_iff (rest : List Lexeme) : NoCont rest ↔
    answerL (.lit "::") rest = .no ∧ answerL (.lit "<") rest = .no ∧ answerL (.lit "*") rest = .no ∧
    answerL (.lit "@") rest = .no ∧ answerL (.lit "&") rest = .no := by
  simp [NoCont]

theorem psuffix_lex (sfx : Suffix) (rest : List Lexeme)
    (h : sfx = .none → answerL (.lit "*") rest = .no ∧ answerL (.lit "@") rest = .no ∧ answerL (.lit "&") rest = .no) :
    runL psuffix (sufLex sfx ++ rest) = .ok sfx rest := by
  cases sfx with
  | none =>
    obtain ⟨h1, h2, h3⟩ := h rfl
    simp [psuffix, sufLex, runL_bind, runL_probe, h1, h2, h3]
  | shared =>
    simp (config := {decide := true}) [psuffix, sufLex, runL_bind, runL_probe, answerL_sym, ansSym]
  | raw =>
    simp (config := {decide := true}) [psuffix, sufLex, runL_bind, runL_probe, answerL_sym, ansSym]
  | ref =>
    simp (config := {decide := true}) [psuffix, sufLex, runL_bind, runL_probe, answerL_sym, ansSym]

theorem moreIdents_lex (ws : List String) : ∀ (n : Nat) (rest : List Lexeme), ws.length + 1 ≤ n →
    answerL (.lit "::") rest = .no → runL (moreIdents n) (identsLex ws ++ rest) = .ok ws rest := by
  induction ws with
  | nil =>
    intro n rest hn h
    obtain ⟨m, rfl⟩ : ∃ m, n = m + 1 := ⟨n - 1, by simp at hn; omega⟩
    simp [moreIdents, identsLex, runL_bind, runL_probe, h]
  | cons w ws ih =>
    intro n rest hn h
    obtain ⟨m, rfl⟩ : ∃ m, n = m + 1 := ⟨n - 1, by simp at hn; omega⟩
    have := ih m rest (by simp at hn ⊢; omega) h
    simp (config := {decide := true}) [moreIdents, identsLex, runL_bind, runL_probe, runL_need, answerL_sym, ansSym, ansWord, this]

/-- the keyword list the type reader probes, for the CURRENT (regenerated) table of basic types -/
theorem basicProbe_eq : longestFirst Gen.basicTypes =
    ["unsigned char", "void", "bool", "char", "int", "size_t", "double", "float"] := by decide

theorem basicSpaced_eq : basicSpaced = ["unsigned char"] := by decide
theorem basicWords_eq : basicWords = ["void", "bool", "char", "int", "size_t", "double", "float"] := by decide

theorem firstKw_word_other (w : String) (r : List Lexeme) (h1 : w ∉ Gen.basicTypes)
    (h2 : ∀ b ∈ basicSpaced, kwHead b ≠ w.toList) :
    runL (firstKw (longestFirst Gen.basicTypes)) (.word w :: r) = .ok none (.word w :: r) := by
  rw [basicProbe_eq]
  have hu : kwHead "unsigned char" ≠ w.toList := h2 _ (by rw [basicSpaced_eq]; simp)
  have hb : w ≠ "void" ∧ w ≠ "bool" ∧ w ≠ "char" ∧ w ≠ "int" ∧ w ≠ "size_t" ∧ w ≠ "double" ∧ w ≠ "float" := by
    refine ⟨?_, ?_, ?_, ?_, ?_, ?_, ?_⟩ <;> (intro he; subst he; exact h1 (by decide))
  obtain ⟨b1, b2, b3, b4, b5, b6, b7⟩ := hb
  simp (config := {decide := true}) [firstKw, runL_bind, runL_probe, ansWord, hu, b1, b2, b3, b4, b5, b6, b7]

theorem firstKw_word_basic (w : String) (r : List Lexeme) (h : w ∈ basicWords) :
    runL (firstKw (longestFirst Gen.basicTypes)) (.word w :: r) = .ok (some w) r := by
  rw [basicProbe_eq]
  rw [basicWords_eq] at h
  simp only [List.mem_cons, List.not_mem_nil, or_false] at h
  rcases h with h | h | h | h | h | h | h <;> subst h <;>
    simp (config := {decide := true}) [firstKw, runL_bind, runL_probe, ansWord]

theorem firstKw_spaced (b : String) (r : List Lexeme) (h : b ∈ basicSpaced) :
    runL (firstKw (longestFirst Gen.basicTypes)) (spacedAtom b :: r) = .ok (some b) r := by
  rw [basicProbe_eq]
  rw [basicSpaced_eq] at h
  simp only [List.mem_cons, List.not_mem_nil, or_false] at h
  subst h
  simp (config := {decide := true}) [firstKw, runL_bind, runL_probe, spacedAtom, ansAtom]

theorem firstKw_stdPair (r : List Lexeme) :
    runL (firstKw (longestFirst Gen.basicTypes)) (stdPairAtom :: r) = .ok none (stdPairAtom :: r) := by
  rw [basicProbe_eq]
  simp (config := {decide := true}) [firstKw, runL_bind, runL_probe, stdPairAtom, ansAtom, ansWord]

theorem splitLast_append (nss : List String) (name : String) : splitLast (nss ++ [name]) = (nss, name) := by
  induction nss with
  | nil => rfl
  | cons a nss ih =>
    cases h : nss ++ [name] with
    | nil => simp at h
    | cons b l => simp only [List.cons_append, h, splitLast]; rw [← h, ih]

theorem ansWord_kw_ne (k w : String) (r : List Lexeme) (hk : okKw k = true) (h : w ≠ k) : ansWord (.kw k) w r = .no := by
  simp [ansWord, hk, h]
theorem ansWord_kw_eq (k : String) (r : List Lexeme) (hk : okKw k = true) : ansWord (.kw k) k r = .yes k r := by
  simp [ansWord, hk]
@[simp] theorem ansWord_word (w : String) (r : List Lexeme) : ansWord .word w r = .yes w r := rfl
theorem ansWord_lit (x w : String) (r : List Lexeme) (hx : x ∈ symbols) (hd : x ≠ "__") : ansWord (.lit x) w r = .no := by
  simp [ansWord, hx, hd]

theorem lit_after_names (sfx : Suffix) (rest : List Lexeme) (hrest : sfx = .none → NoCont rest) :
    answerL (.lit "::") (sufLex sfx ++ rest) = .no ∧ answerL (.lit "<") (sufLex sfx ++ rest) = .no := by
  cases sfx with
  | none =>
    have := (noCont_iff rest).1 (hrest rfl)
    simp [sufLex, this.1, this.2.1]
  | shared => simp (config := {decide := true}) [sufLex, answerL_sym, ansSym]
  | raw => simp (config := {decide := true}) [sufLex, answerL_sym, ansSym]
  | ref => simp (config := {decide := true}) [sufLex, answerL_sym, ansSym]

theorem suffix_cond (sfx : Suffix) (rest : List Lexeme) (hrest : sfx = .none → NoCont rest) :
    sfx = .none → answerL (.lit "*") rest = .no ∧ answerL (.lit "@") rest = .no ∧ answerL (.lit "&") rest = .no := by
  intro h
  have := (noCont_iff rest).1 (hrest h)
  exact ⟨this.2.2.1, this.2.2.2.1, this.2.2.2.2⟩

theorem stdPair_word_no (w : String) (more : List String) (X : List Lexeme) (h4 : w = "std" → more ≠ [])
    (hnp : ¬ (w = "std" ∧ more.head? = some "pair")) : ansWord .stdPair w (identsLex more ++ X) = .no := by
  by_cases hw : w = "std"
  · subst hw
    cases more with
    | nil => exact absurd rfl (h4 rfl)
    | cons m0 more' =>
      have : m0 ≠ "pair" := fun he => hnp ⟨rfl, by simp [he]⟩
      simp [ansWord, identsLex, stdPairNo, this]
  · simp [ansWord, hw]

/-! ### the type reader, cut into named pieces (equal to `ptype` by `rfl`) -/

def afterBasic (n : Nat) (isConst : Bool) (b : String) : P TypeRes :=
  if hasSpace b then do
    let sfx ← psuffix
    pure ⟨.simple ⟨[], b, []⟩ ⟨isConst, sfx⟩ true, none⟩
  else do
    if (← P.probe (.lit "<")) then
      let ps ← ptypes n
      P.expect (.lit ">")
      let sfx ← psuffix
      pure ⟨.templ [] b ps ⟨isConst, sfx⟩, none⟩
    else
      let sfx ← psuffix
      pure ⟨.simple ⟨[], b, []⟩ ⟨isConst, sfx⟩ true, none⟩

def readNames (n : Nat) : P (List String × Option Bool) := do
  let std ← P.probe .stdPair
  if std then
    let more ← moreIdents n
    pure (["std", "pair"] ++ more, if more.isEmpty then some true else none)
  else
    let w ← P.need .word
    let more ← moreIdents n
    pure (w :: more, if w == "pair" && more.isEmpty then some false else none)

def afterNames (n : Nat) (isConst : Bool) (x : List String × Option Bool) : P TypeRes := do
  let (nss, name) := splitLast x.1
  if (← P.probe (.lit "<")) then
    let ps ← ptypes n
    P.expect (.lit ">")
    let sfx ← psuffix
    pure ⟨.templ nss name ps ⟨isConst, sfx⟩, x.2⟩
  else
    let sfx ← psuffix
    pure ⟨.simple ⟨nss, name, []⟩ ⟨isConst, sfx⟩ false, none⟩

theorem ptype_eq (n : Nat) : ptype (n + 1) = (do
    let isConst ← P.probe (.kw "const")
    let basic ← firstKw (longestFirst Gen.basicTypes)
    match basic with
    | some b => afterBasic n isConst b
    | none => do
      let x ← readNames n
      afterNames n isConst x) := by
  rw [ptype]
  rfl

theorem readNames_word (w : String) (more : List String) (n : Nat) (X : List Lexeme)
    (h4 : w = "std" → more ≠ []) (hnp : ¬ (w = "std" ∧ more.head? = some "pair")) (hn : more.length + 1 ≤ n)
    (hX : answerL (.lit "::") X = .no) :
    runL (readNames n) (.word w :: (identsLex more ++ X)) =
      .ok (w :: more, if w == "pair" && more.isEmpty then some false else none) X := by
  have hmi := moreIdents_lex more n X hn hX
  have hstd := stdPair_word_no w more X h4 hnp
  simp [readNames, runL_bind, runL_probe, runL_need, hstd, hmi]

theorem readNames_stdPair (more : List String) (n : Nat) (X : List Lexeme) (hn : more.length + 1 ≤ n)
    (hX : answerL (.lit "::") X = .no) :
    runL (readNames n) (stdPairAtom :: (identsLex more ++ X)) =
      .ok ("std" :: "pair" :: more, if more.isEmpty then some true else none) X := by
  have hmi := moreIdents_lex more n X hn hX
  simp [readNames, runL_bind, runL_probe, stdPairAtom, ansAtom, hmi]

theorem afterNames_simple (n : Nat) (c : Bool) (names : List String) (fl : Option Bool) (nss : List String) (name : String)
    (hsl : splitLast names = (nss, name)) (sfx : Suffix) (rest : List Lexeme) (hrest : sfx = .none → NoCont rest) :
    runL (afterNames n c (names, fl)) (sufLex sfx ++ rest) = .ok ⟨.simple ⟨nss, name, []⟩ ⟨c, sfx⟩ false, none⟩ rest := by
  obtain ⟨_, hl2⟩ := lit_after_names sfx rest hrest
  have hps := psuffix_lex sfx rest (suffix_cond sfx rest hrest)
  simp [afterNames, runL_bind, runL_probe, hsl, hl2, hps]

theorem afterNames_templ (n : Nat) (c : Bool) (names : List String) (fl : Option Bool) (nss : List String) (name : String)
    (hsl : splitLast names = (nss, name)) (sfx : Suffix) (rest : List Lexeme) (hrest : sfx = .none → NoCont rest)
    (ps : List CType) (hps : runL (ptypes n) (tysLex ps ++ .sym ">" :: (sufLex sfx ++ rest)) = .ok ps (.sym ">" :: (sufLex sfx ++ rest))) :
    runL (afterNames n c (names, fl)) (.sym "<" :: (tysLex ps ++ .sym ">" :: (sufLex sfx ++ rest))) =
      .ok ⟨.templ nss name ps ⟨c, sfx⟩, fl⟩ rest := by
  have hsf := psuffix_lex sfx rest (suffix_cond sfx rest hrest)
  simp (config := {decide := true}) [afterNames, runL_bind, runL_probe, runL_expect, hsl, answerL_sym, ansSym, hps, hsf]

theorem afterBasic_spaced (n : Nat) (c : Bool) (b : String) (hb : hasSpace b = true) (sfx : Suffix) (rest : List Lexeme)
    (hrest : sfx = .none → NoCont rest) :
    runL (afterBasic n c b) (sufLex sfx ++ rest) = .ok ⟨.simple ⟨[], b, []⟩ ⟨c, sfx⟩ true, none⟩ rest := by
  have hsf := psuffix_lex sfx rest (suffix_cond sfx rest hrest)
  simp [afterBasic, hb, runL_bind, hsf]

theorem afterBasic_simple (n : Nat) (c : Bool) (b : String) (hb : hasSpace b = false) (sfx : Suffix) (rest : List Lexeme)
    (hrest : sfx = .none → NoCont rest) :
    runL (afterBasic n c b) (sufLex sfx ++ rest) = .ok ⟨.simple ⟨[], b, []⟩ ⟨c, sfx⟩ true, none⟩ rest := by
  obtain ⟨_, hl2⟩ := lit_after_names sfx rest hrest
  have hsf := psuffix_lex sfx rest (suffix_cond sfx rest hrest)
  simp [afterBasic, hb, runL_bind, runL_probe, hl2, hsf]

theorem afterBasic_templ (n : Nat) (c : Bool) (b : String) (hb : hasSpace b = false) (sfx : Suffix) (rest : List Lexeme)
    (hrest : sfx = .none → NoCont rest) (ps : List CType)
    (hps : runL (ptypes n) (tysLex ps ++ .sym ">" :: (sufLex sfx ++ rest)) = .ok ps (.sym ">" :: (sufLex sfx ++ rest))) :
    runL (afterBasic n c b) (.sym "<" :: (tysLex ps ++ .sym ">" :: (sufLex sfx ++ rest))) =
      .ok ⟨.templ [] b ps ⟨c, sfx⟩, none⟩ rest := by
  have hsf := psuffix_lex sfx rest (suffix_cond sfx rest hrest)
  simp (config := {decide := true}) [afterBasic, hb, runL_bind, runL_probe, runL_expect, answerL_sym, ansSym, hps, hsf]

theorem noCont_comma (X : List Lexeme) : NoCont (.sym "," :: X) := by
  rw [noCont_iff]; simp (config := {decide := true}) [answerL_sym, ansSym]
theorem noCont_gt (X : List Lexeme) : NoCont (.sym ">" :: X) := by
  rw [noCont_iff]; simp (config := {decide := true}) [answerL_sym, ansSym]
theorem comma_no_gt (X : List Lexeme) : answerL (.lit ",") (.sym ">" :: X) = .no := by
  simp (config := {decide := true}) [answerL_sym, ansSym]

theorem probe_const (c : Bool) (X : List Lexeme) (hX : answerL (.kw "const") X = .no) :
    runL (P.probe (.kw "const")) (constLex c ++ X) = .ok c X := by
  cases c with
  | false => simp [constLex, runL_probe, hX]
  | true => simp (config := {decide := true}) [constLex, runL_probe, ansWord_kw_eq]

theorem tyFuel_pos (t : CType) : 1 ≤ tyFuel t := by
  cases t <;> simp [tyFuel] <;> omega

/-- the list reader, given the type reader for all smaller amounts of fuel -/
theorem ptypes_lex_of (N : Nat)
    (H : ∀ m, m < N → ∀ t, tyFuel t ≤ m → TyWF t → ∀ rest, (t.quals.suffix = .none → NoCont rest) →
      runL (ptype m) (tyLex t ++ rest) = .ok ⟨t, pairFlag t⟩ rest) :
    ∀ (ps : List CType), ps ≠ [] → TysWF ps → ∀ m, m ≤ N → tysFuel ps ≤ m → ∀ Y, answerL (.lit ",") Y = .no → NoCont Y →
      runL (ptypes m) (tysLex ps ++ Y) = .ok ps Y := by
  intro ps
  induction ps with
  | nil => intro h; exact absurd rfl h
  | cons p ps' ih =>
    intro _ hwf m hm hfuel Y hY hYc
    have hp := tyFuel_pos p
    obtain ⟨m', rfl⟩ : ∃ m', m = m' + 1 := ⟨m - 1, by simp [tysFuel] at hfuel; omega⟩
    simp only [tysFuel] at hfuel
    obtain ⟨hwp, hwps⟩ : TyWF p ∧ TysWF ps' := by simpa [TysWF] using hwf
    cases ps' with
    | nil =>
      have h1 := H m' (by omega) p (by omega) hwp Y (fun _ => hYc)
      simp [ptypes, tysLex, tysTailLex, runL_bind, runL_probe, h1, hY]
    | cons p' ps'' =>
      have h1 := H m' (by omega) p (by omega) hwp (.sym "," :: (tysLex (p' :: ps'') ++ Y)) (fun _ => noCont_comma _)
      have h2 := ih (by simp) hwps m' (by omega) (by omega) Y hY hYc
      have e : tysLex (p :: p' :: ps'') ++ Y = tyLex p ++ (.sym "," :: (tysLex (p' :: ps'') ++ Y)) := by
        simp [tysLex, tysTailLex]
      rw [e]
      simp (config := {decide := true}) [ptypes, runL_bind, runL_probe, h1, h2, answerL_sym, ansSym]

theorem const_no_word (w : String) (X : List Lexeme) (h : w ≠ "const") : answerL (.kw "const") (.word w :: X) = .no := by
  simp [ansWord_kw_ne "const" w X (by decide) h]
theorem const_no_stdPair (X : List Lexeme) : answerL (.kw "const") (stdPairAtom :: X) = .no := by
  simp (config := {decide := true}) [stdPairAtom, ansAtom, ansWord]
theorem const_no_spaced (b : String) (hb : b ∈ basicSpaced) (X : List Lexeme) : answerL (.kw "const") (spacedAtom b :: X) = .no := by
  rw [basicSpaced_eq] at hb
  simp only [List.mem_cons, List.not_mem_nil, or_false] at hb
  subst hb
  simp (config := {decide := true}) [spacedAtom, ansAtom, ansWord]

theorem mem_basicWords {b : String} (h : b ∈ Gen.basicTypes) (hs : hasSpace b = false) : b ∈ basicWords := by
  simp [basicWords, h, hs]
theorem mem_basicSpaced {b : String} (h : b ∈ Gen.basicTypes) (hs : hasSpace b = true) : b ∈ basicSpaced := by
  simp [basicSpaced, h, hs]
theorem basicWords_sub {b : String} (h : b ∈ basicWords) : b ∈ Gen.basicTypes ∧ hasSpace b = false := by
  simpa [basicWords] using h
theorem basicWord_ne_const {b : String} (h : b ∈ basicWords) : b ≠ "const" := by
  intro he; subst he; rw [basicWords_eq] at h; exact absurd h (by decide)
theorem basicWord_ne_pair {b : String} (h : b ∈ basicWords) : b ≠ "pair" := by
  intro he; subst he; rw [basicWords_eq] at h; exact absurd h (by decide)
theorem basicWord_ne_std {b : String} (h : b ∈ basicWords) : b ≠ "std" := by
  intro he; subst he; rw [basicWords_eq] at h; exact absurd h (by decide)

/-- the head of a qualified name that is not a basic type, as printed -/
theorem namesLex_first (w : String) (more : List String) :
    namesLex (w :: more) =
      if w = "std" ∧ more.head? = some "pair" then stdPairAtom :: identsLex more.tail else .word w :: identsLex more := rfl

def namesFlag (w : String) (more : List String) : Option Bool :=
  if w = "std" ∧ more.head? = some "pair" then (if more.tail.isEmpty then some true else none)
  else if w == "pair" && more.isEmpty then some false else none

theorem namesFlag_eq (w : String) (more nss : List String) (name : String) (h : w :: more = nss ++ [name]) :
    namesFlag w more = (if nss = ["std"] ∧ name = "pair" then some true else if nss = [] ∧ name = "pair" then some false else none) := by
  unfold namesFlag
  cases nss with
  | nil =>
    simp only [List.nil_append, List.cons.injEq] at h
    obtain ⟨rfl, rfl⟩ := h
    by_cases hp : w = "pair"
    · subst hp; simp (config := {decide := true})
    · have : w ≠ "std" ∨ True := Or.inr trivial
      simp [hp]
  | cons a nss' =>
    simp only [List.cons_append, List.cons.injEq] at h
    obtain ⟨rfl, hmore⟩ := h
    subst hmore
    cases nss' with
    | nil =>
      by_cases h1 : w = "std" ∧ name = "pair"
      · obtain ⟨rfl, rfl⟩ := h1; simp
      · by_cases hw : w = "std"
        · subst hw
          have : name ≠ "pair" := fun he => h1 ⟨rfl, he⟩
          simp [this]
        · simp [hw]
    | cons b nss'' =>
      by_cases h1 : w = "std" ∧ b = "pair"
      · obtain ⟨rfl, rfl⟩ := h1; simp
      · by_cases hw : w = "std"
        · subst hw
          have : b ≠ "pair" := fun he => h1 ⟨rfl, he⟩
          simp [this]
        · simp [hw]

/-- reading a qualified name that is not a basic type -/
theorem readNames_lex (w : String) (more : List String) (n : Nat) (X : List Lexeme) (hf : FirstOK w more)
    (hn : more.length + 1 ≤ n) (hX : answerL (.lit "::") X = .no) :
    runL (readNames n) (namesLex (w :: more) ++ X) = .ok (w :: more, namesFlag w more) X := by
  obtain ⟨_, _, _, _, _, h4⟩ := hf
  rw [namesLex_first]
  unfold namesFlag
  by_cases hsp : w = "std" ∧ more.head? = some "pair"
  · obtain ⟨rfl, hm⟩ := hsp
    cases more with
    | nil => simp at hm
    | cons m0 more' =>
      simp only [List.head?_cons, Option.some.injEq] at hm
      subst hm
      have := readNames_stdPair more' n X (by simp at hn ⊢; omega) hX
      simp [this]
  · have := readNames_word w more n X h4 hsp hn hX
    simp [hsp, this]

theorem firstKw_names (w : String) (more : List String) (X : List Lexeme) (hf : FirstOK w more) :
    runL (firstKw (longestFirst Gen.basicTypes)) (namesLex (w :: more) ++ X) = .ok none (namesLex (w :: more) ++ X) := by
  obtain ⟨_, h2, h3, _, _, _⟩ := hf
  rw [namesLex_first]
  by_cases hsp : w = "std" ∧ more.head? = some "pair"
  · simp [hsp, firstKw_stdPair]
  · simp [hsp, firstKw_word_other w _ h2 h3]

theorem const_no_names (w : String) (more : List String) (X : List Lexeme) (hf : FirstOK w more) :
    answerL (.kw "const") (namesLex (w :: more) ++ X) = .no := by
  obtain ⟨h1, _, _, _, _, _⟩ := hf
  have h1 : w ≠ "const" := fun he => h1 (by subst he; decide)
  rw [namesLex_first]
  by_cases hsp : w = "std" ∧ more.head? = some "pair"
  · simp only [hsp, and_self, if_true, List.cons_append]; exact const_no_stdPair _
  · simp only [hsp, if_false, List.cons_append]; exact const_no_word w _ h1

/-- **Round trip for types (C01).**  Every well-formed type, of any nesting depth, printed as lexemes and followed by
    anything that does not continue a type, is read back by the type reader as exactly that type. -/
theorem ptype_lex : ∀ (n : Nat) (t : CType), tyFuel t ≤ n → TyWF t → ∀ rest, (t.quals.suffix = .none → NoCont rest) →
    runL (ptype n) (tyLex t ++ rest) = .ok ⟨t, pairFlag t⟩ rest := by
  intro n
  induction n using Nat.strongRecOn with
  | ind n ih =>
  intro t hfuel hwf rest hrest
  have hpos := tyFuel_pos t
  obtain ⟨m, rfl⟩ : ∃ m, n = m + 1 := ⟨n - 1, by omega⟩
  rw [ptype_eq]
  cases t with
  | simple tn q basic =>
    obtain ⟨nss, name, insts⟩ := tn
    obtain ⟨c, sfx⟩ := q
    simp only [CType.quals] at hrest
    simp only [TyWF] at hwf
    obtain ⟨hins, hwf⟩ := hwf
    subst hins
    simp only [tyFuel] at hfuel
    cases basic with
    | true =>
      simp only [if_true] at hwf
      obtain ⟨hns, hmem⟩ := hwf
      subst hns
      cases hsp : hasSpace name with
      | true =>
        have hb := mem_basicSpaced hmem hsp
        have e : tyLex (.simple ⟨[], name, []⟩ ⟨c, sfx⟩ true) ++ rest = constLex c ++ (spacedAtom name :: (sufLex sfx ++ rest)) := by
          simp [tyLex, hsp]
        rw [e]
        simp [runL_bind, probe_const c _ (const_no_spaced name hb _), firstKw_spaced name _ hb,
          afterBasic_spaced m c name hsp sfx rest hrest, pairFlag]
      | false =>
        have hb := mem_basicWords hmem hsp
        have e : tyLex (.simple ⟨[], name, []⟩ ⟨c, sfx⟩ true) ++ rest = constLex c ++ (.word name :: (sufLex sfx ++ rest)) := by
          simp [tyLex, hsp, namesLex_first, basicWord_ne_std hb, identsLex]
        rw [e]
        simp [runL_bind, probe_const c _ (const_no_word name _ (basicWord_ne_const hb)), firstKw_word_basic name _ hb,
          afterBasic_simple m c name hsp sfx rest hrest, pairFlag]
    | false =>
      simp only [Bool.false_eq_true, if_false] at hwf
      cases hnm : nss ++ [name] with
      | nil => simp at hnm
      | cons w more =>
        simp only [hnm] at hwf
        have hlen : more.length = nss.length := by
          have := congrArg List.length hnm; simp at this; omega
        have e : tyLex (.simple ⟨nss, name, []⟩ ⟨c, sfx⟩ false) ++ rest = constLex c ++ (namesLex (w :: more) ++ (sufLex sfx ++ rest)) := by
          simp [tyLex, hnm]
        rw [e]
        obtain ⟨hl1, _⟩ := lit_after_names sfx rest hrest
        have hsl : splitLast (w :: more) = (nss, name) := by rw [← hnm, splitLast_append]
        simp [runL_bind, probe_const c _ (const_no_names w more _ hwf), firstKw_names w more _ hwf,
          readNames_lex w more m _ hwf (by omega) hl1, afterNames_simple m c (w :: more) _ nss name hsl sfx rest hrest, pairFlag]
  | templ nss name ps q =>
    obtain ⟨c, sfx⟩ := q
    simp only [CType.quals] at hrest
    simp only [TyWF] at hwf
    obtain ⟨hne, hwps, hwn⟩ := hwf
    simp only [tyFuel] at hfuel
    have hlist := ptypes_lex_of (m + 1) (fun m' hm' t' => ih m' hm' t') ps hne hwps m (by omega) (by omega)
      (.sym ">" :: (sufLex sfx ++ rest)) (comma_no_gt _) (noCont_gt _)
    cases hnm : nss ++ [name] with
    | nil => simp at hnm
    | cons w more =>
      simp only [hnm] at hwn
      have hlen : more.length = nss.length := by
        have := congrArg List.length hnm; simp at this; omega
      have e : tyLex (.templ nss name ps ⟨c, sfx⟩) ++ rest =
          constLex c ++ (namesLex (w :: more) ++ (.sym "<" :: (tysLex ps ++ .sym ">" :: (sufLex sfx ++ rest)))) := by
        simp [tyLex, hnm]
      rw [e]
      have hsl : splitLast (w :: more) = (nss, name) := by rw [← hnm, splitLast_append]
      rcases hwn with ⟨hb, hm0⟩ | hf
      · -- a templated type named like a basic type
        subst hm0
        have hnss : nss = [] ∧ name = w := by
          cases nss with
          | nil => simpa using hnm
          | cons a l => simp at hlen
        obtain ⟨rfl, rfl⟩ := hnss
        obtain ⟨_, hsp⟩ := basicWords_sub hb
        simp [namesLex_first, basicWord_ne_std hb, identsLex, runL_bind,
          probe_const c _ (const_no_word name _ (basicWord_ne_const hb)), firstKw_word_basic name _ hb,
          afterBasic_templ m c name hsp sfx rest hrest ps hlist, pairFlag, basicWord_ne_pair hb]
      · have hX : answerL (.lit "::") (.sym "<" :: (tysLex ps ++ .sym ">" :: (sufLex sfx ++ rest))) = .no := by
          simp (config := {decide := true}) [answerL_sym, ansSym]
        simp [runL_bind, probe_const c _ (const_no_names w more _ hf), firstKw_names w more _ hf,
          readNames_lex w more m _ hf (by omega) hX,
          afterNames_templ m c (w :: more) _ nss name hsl sfx rest hrest ps hlist, pairFlag, namesFlag_eq w more nss name hnm.symm]

end WrapModel.Spec
