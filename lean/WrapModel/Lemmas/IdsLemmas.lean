/- helper lemmas about the gateway-id allocator (`Model/Matlab/Ids.lean`) -/
import WrapModel.Model.Matlab.Ids

namespace WrapModel.Matlab.Ids

theorem total_ge (n : Nat) (ops : List (Op α)) : n ≤ total n ops := by
  induction ops generalizing n with
  | nil => simp [total]
  | cons o r ih => cases o <;> simp only [total] <;> have := ih (n + 1) <;> have := ih (n + 2) <;> omega

theorem keys_ge (n : Nat) (ops : List (Op α)) : ∀ e ∈ entriesFrom n ops, n ≤ e.key := by
  induction ops generalizing n with
  | nil => simp [entriesFrom]
  | cons o r ih =>
    intro e he
    cases o with
    | plain a =>
      simp only [entriesFrom, List.mem_cons] at he
      rcases he with rfl | he
      · simp
      · have := ih (n + 1) e he; omega
    | virt a =>
      simp only [entriesFrom, List.mem_cons] at he
      rcases he with rfl | he
      · simp
      · have := ih (n + 2) e he; omega

theorem lookup_none_of_keys_gt (es : List (IdEntry α)) (i : Nat) (h : ∀ e ∈ es, i < e.key) : lookup es i = none := by
  unfold lookup
  rw [List.find?_eq_none]
  intro e he
  have := h e he
  simp; omega

theorem lookup_append_of_keys_lt (pre es : List (IdEntry α)) (i : Nat) (h : ∀ e ∈ pre, e.key < i) :
    lookup (pre ++ es) i = lookup es i := by
  unfold lookup
  rw [List.find?_append]
  have : List.find? (fun x => x.key == i) pre = none := by
    rw [List.find?_eq_none]; intro e he; have := h e he; simp; omega
  simp [this]

/-- entries stored below the current id never influence the rest of the walk -/
theorem caseTable_prefix (pre es : List (IdEntry α)) (n fuel i : Nat) (q : Option (IdEntry α)) (h : ∀ e ∈ pre, e.key < i) :
    caseTable (pre ++ es) n fuel i q = caseTable es n fuel i q := by
  induction fuel generalizing i q with
  | zero => rfl
  | succ f ih =>
    have h1 : ∀ e ∈ pre, e.key < i + 1 := fun e he => Nat.lt_succ_of_lt (h e he)
    unfold caseTable
    rw [lookup_append_of_keys_lt pre es i h, lookup_append_of_keys_lt pre es (i + 1) h1]
    simp only [ih (i + 1) _ h1]

theorem run_eq (s : IdState α) (ops : List (Op α)) :
    run s ops = { next := total s.next ops, entries := s.entries ++ entriesFrom s.next ops } := by
  induction ops generalizing s with
  | nil => simp [run, total, entriesFrom]
  | cons o r ih =>
    have := ih (step s o)
    simp only [run, List.foldl_cons] at this ⊢
    rw [this]
    cases o <;> simp [step, IdState.alloc, IdState.allocVirtual, total, entriesFrom]

/-- the walk of `mex_function` over the entries allocated by `ops` reproduces exactly the call sites `ops` issued -/
theorem caseTable_sites (ops : List (Op α)) (n fuel : Nat) (hf : total n ops - n ≤ fuel) :
    (caseTable (entriesFrom n ops) (total n ops) fuel n none).map (fun x => (x.1, x.2.1, x.2.2.payload)) = sites n ops := by
  induction ops generalizing n fuel with
  | nil =>
    cases fuel <;> simp [caseTable, total, sites, entriesFrom]
  | cons o r ih =>
    cases o with
    | plain a =>
      have hge := total_ge (n + 1) r
      cases fuel with
      | zero => simp only [total] at hf; omega
      | succ f =>
        have hlt : ¬ n ≥ total (n + 1) r := by omega
        have hlook : lookup (⟨n, n, a⟩ :: entriesFrom (n + 1) r) n = some ⟨n, n, a⟩ := by simp [lookup]
        have hpre := caseTable_prefix [⟨n, n, a⟩] (entriesFrom (n + 1) r) (total (n + 1) r) f (n + 1) none (by simp)
        simp only [List.singleton_append] at hpre
        simp only [total, entriesFrom, sites, caseTable, hlt, if_false, hlook, List.map_cons, hpre]
        rw [ih (n + 1) f (by simp only [total] at hf; omega)]
    | virt a =>
      have hge := total_ge (n + 2) r
      cases fuel with
      | zero => simp only [total] at hf; omega
      | succ f =>
        cases f with
        | zero => simp only [total] at hf; omega
        | succ f =>
          have hlt : ¬ n ≥ total (n + 2) r := by omega
          have hlt1 : ¬ n + 1 ≥ total (n + 2) r := by omega
          have hrest : ∀ e ∈ entriesFrom (n + 2) r, n + 1 < e.key := fun e he => by have := keys_ge (n + 2) r e he; omega
          have hl0 : lookup (⟨n + 1, n, a⟩ :: entriesFrom (n + 2) r) n = none := by
            apply lookup_none_of_keys_gt
            intro e he
            rcases List.mem_cons.1 he with rfl | he
            · simp
            · have := hrest e he; omega
          have hl1 : lookup (⟨n + 1, n, a⟩ :: entriesFrom (n + 2) r) (n + 1) = some ⟨n + 1, n, a⟩ := by simp [lookup]
          have hpre := caseTable_prefix [⟨n + 1, n, a⟩] (entriesFrom (n + 2) r) (total (n + 2) r) f (n + 2) none (by simp)
          simp only [List.singleton_append] at hpre
          simp only [total, entriesFrom, sites, caseTable, hlt, hlt1, if_false, hl0, hl1, List.map_cons, hpre]
          rw [ih (n + 2) f (by simp only [total] at hf; omega)]

theorem sites_ids (ops : List (Op α)) (n : Nat) : (sites n ops).map (·.1) = List.range' n (total n ops - n) := by
  induction ops generalizing n with
  | nil => simp [sites, total]
  | cons o r ih =>
    cases o with
    | plain a =>
      have hge := total_ge (n + 1) r
      simp only [sites, total, List.map_cons, ih (n + 1)]
      have : total (n + 1) r - n = (total (n + 1) r - (n + 1)) + 1 := by omega
      rw [this, List.range'_succ]
    | virt a =>
      have hge := total_ge (n + 2) r
      simp only [sites, total, List.map_cons, ih (n + 2)]
      have : total (n + 2) r - n = (total (n + 2) r - (n + 2)) + 1 + 1 := by omega
      rw [this, List.range'_succ, List.range'_succ]

theorem shown_lt_of_mem (ops : List (Op α)) (n : Nat) : ∀ e ∈ entriesFrom n ops, n ≤ e.shown ∧ e.shown < total n ops := by
  induction ops generalizing n with
  | nil => simp [entriesFrom]
  | cons o r ih =>
    intro e he
    cases o with
    | plain a =>
      have hge := total_ge (n + 1) r
      simp only [entriesFrom, List.mem_cons] at he
      rcases he with rfl | he
      · simp [total]; omega
      · have := ih (n + 1) e he; simp only [total]; omega
    | virt a =>
      have hge := total_ge (n + 2) r
      simp only [entriesFrom, List.mem_cons] at he
      rcases he with rfl | he
      · simp [total]; omega
      · have := ih (n + 2) e he; simp only [total]; omega

/-- routine names are pairwise distinct: no two entries carry the same shown id -/
theorem shown_nodup (ops : List (Op α)) (n : Nat) : ((entriesFrom n ops).map (·.shown)).Nodup := by
  induction ops generalizing n with
  | nil => simp [entriesFrom]
  | cons o r ih =>
    cases o with
    | plain a =>
      simp only [entriesFrom, List.map_cons, List.nodup_cons]
      refine ⟨?_, ih (n + 1)⟩
      intro hmem
      obtain ⟨e, he, heq⟩ := List.mem_map.1 hmem
      have := (shown_lt_of_mem r (n + 1) e he).1
      omega
    | virt a =>
      simp only [entriesFrom, List.map_cons, List.nodup_cons]
      refine ⟨?_, ih (n + 2)⟩
      intro hmem
      obtain ⟨e, he, heq⟩ := List.mem_map.1 hmem
      have := (shown_lt_of_mem r (n + 2) e he).1
      omega

end WrapModel.Matlab.Ids
