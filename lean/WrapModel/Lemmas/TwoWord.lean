/-
  Negative answers that need a look at the NEXT lexeme: a two-word keyword (`enum class`, `unsigned char`) in front of its
  first word followed by another word, and `std::pair` in front of `std :: other`.
-/
import WrapModel.Lemmas.LexLemmas
import WrapModel.Lemmas.LiftLemmas

namespace WrapModel.Tok
open WrapModel WrapModel.Lex

theorem stripPrefix_append_left (a b s : Src) : stripPrefix (a ++ b) (a ++ s) = stripPrefix b s := by
  induction a with
  | nil => rfl
  | cons c a ih => simp [stripPrefix, ih]

theorem stripPrefix_some {a s r : Src} (h : stripPrefix a s = some r) : s = a ++ r := by
  induction a generalizing s with
  | nil => simp [stripPrefix] at h; simp [h]
  | cons c a ih =>
    cases s with
    | nil => simp [stripPrefix] at h
    | cons d s' =>
      simp only [stripPrefix] at h
      split at h
      · next hcd => have : c = d := by simpa using hcd
                    subst this; simp [ih h]
      · cases h

theorem gap_head {g : Src} (hg : Gap g) : g = [] ∨ ∃ c t, g = c :: t ∧ (isWs c = true ∨ c = '/') := by
  cases hg with
  | nil => exact Or.inl rfl
  | ws c g' h _ => exact Or.inr ⟨c, g', rfl, Or.inl h⟩
  | block body g' _ _ => exact Or.inr ⟨'/', _, rfl, Or.inr rfl⟩
  | line body g' _ _ _ => exact Or.inr ⟨'/', _, rfl, Or.inr rfl⟩

/-- a pattern starting with a word character does not match where a non-empty gap starts -/
theorem stripPrefix_gap_none {g : Src} (hg : Gap g) (hne : g ≠ []) (p : Char) (ps x : Src) (hp : isWs p = false) (hp' : p ≠ '/') :
    stripPrefix (p :: ps) (g ++ x) = none := by
  rcases gap_head hg with h | ⟨c, t, h, hc⟩
  · exact absurd h hne
  · subst h
    have : p ≠ c := by
      rcases hc with hc | hc
      · intro he; subst he; simp [hp] at hc
      · subst hc; exact hp'
    simp [stripPrefix, this]

/-- the keyword test `Lex.kw` fails on this result of `stripPrefix` -/
def KwFails : Option Src → Prop
  | some (c :: _) => isKwChar c = true
  | some [] => False
  | none => True

theorem kwFails_word_ne (k w r : Src) (hk : ∀ d ∈ k, isWordChar d = true) (hw : ∀ d ∈ w, isWordChar d = true)
    (hr : AfterWord r) (hne : k ≠ w) : KwFails (stripPrefix k (w ++ r)) := by
  have := stripPrefix_word_ne k w r hk hw hr hne
  cases h : stripPrefix k (w ++ r) with
  | none => trivial
  | some x =>
    cases x with
    | nil => simp [h] at this
    | cons c t => simpa [h, KwFails] using this

theorem kw_of_kwFails (k : String) (s : Src) (h : KwFails (stripPrefix k.toList (skipGap s))) : Lex.kw k s = none := by
  unfold Lex.kw
  cases hs : stripPrefix k.toList (skipGap s) with
  | none => rfl
  | some x =>
    cases x with
    | nil => simp [hs, KwFails] at h
    | cons c t => simp [hs, KwFails] at h; simp [h]

theorem kwTest_twoWord (tail w2 g r2 : Src) (htail : ∀ d ∈ tail, isWordChar d = true) (htne : tail ≠ [])
    (hg : Gap g) (hw2 : ∀ d ∈ w2, isWordChar d = true) (hw2ne : w2 ≠ []) (haw2 : AfterWord r2) (hne : tail ≠ w2) :
    KwFails (stripPrefix (' ' :: tail) (g ++ w2 ++ r2)) := by
  obtain ⟨t0, tl, ht⟩ : ∃ t0 tl, tail = t0 :: tl := by cases tail with | nil => exact absurd rfl htne | cons a b => exact ⟨a, b, rfl⟩
  have ht0 : isWordChar t0 = true := htail t0 (by simp [ht])
  obtain ⟨c2, w2', hw2e⟩ : ∃ c w', w2 = c :: w' := by cases w2 with | nil => exact absurd rfl hw2ne | cons a b => exact ⟨a, b, rfl⟩
  have hc2 : isWordChar c2 = true := hw2 c2 (by simp [hw2e])
  cases hg with
  | nil =>
    have : (' ' : Char) ≠ c2 := by intro he; subst he; simp [isWordChar, isAlpha, isDigit] at hc2
    simp [hw2e, stripPrefix, this, KwFails]
  | ws c g' hws hg' =>
    by_cases hsp : c = ' '
    · subst hsp
      simp only [List.cons_append, stripPrefix, beq_self_eq_true, if_true]
      by_cases hg'e : g' = []
      · subst hg'e
        simpa using kwFails_word_ne tail w2 r2 htail hw2 haw2 hne
      · have := stripPrefix_gap_none hg' hg'e t0 tl (w2 ++ r2) (wordChar_not_ws ht0) (wordChar_ne_slash ht0)
        rw [ht]
        simp only [List.append_assoc] at this ⊢
        rw [this]; trivial
    · have : (' ' : Char) ≠ c := fun he => hsp he.symm
      simp [stripPrefix, this, KwFails]
  | block body g' _ _ => simp [stripPrefix, KwFails]
  | line body g' _ _ _ => simp [stripPrefix, KwFails]

end WrapModel.Tok
