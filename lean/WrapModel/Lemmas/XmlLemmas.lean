import WrapModel.Model.Xml
import WrapModel.Model.CppLit

namespace WrapModel.Xml
open WrapModel.CppLit

/-! ## Decoder: compositionality -/

theorem runSt_cons (st : St) (x : Char) (xs : List Char) :
    runSt st (x :: xs) =
      (step st x).bind fun r => (runSt r.2 xs).map fun r' => (r.1 ++ r'.1, r'.2) := by
  simp only [runSt]
  cases step st x with
  | none => rfl
  | some r =>
    obtain ⟨o, s⟩ := r
    simp only [Option.bind_some]
    cases runSt s xs with
    | none => rfl
    | some r' => obtain ⟨o', s'⟩ := r'; rfl

theorem run_eq (st : St) (cs : List Char) :
    run st cs = (runSt st cs).bind fun r => (finish r.2).map (r.1 ++ ·) := by
  simp only [run]
  cases runSt st cs with
  | none => rfl
  | some r =>
    obtain ⟨o, s⟩ := r
    simp only [Option.bind_some]
    cases finish s <;> rfl

theorem runSt_append (st : St) (xs ys : List Char) :
    runSt st (xs ++ ys) =
      (runSt st xs).bind fun r => (runSt r.2 ys).map fun r' => (r.1 ++ r'.1, r'.2) := by
  induction xs generalizing st with
  | nil =>
    simp only [List.nil_append, runSt, Option.bind_some]
    cases runSt st ys with
    | none => rfl
    | some r => simp
  | cons x xs ih =>
    simp only [List.cons_append, runSt_cons]
    cases step st x with
    | none => rfl
    | some r =>
      simp only [Option.bind_some, ih]
      cases runSt r.2 xs with
      | none => rfl
      | some r2 =>
        simp only [Option.bind_some, Option.map_some]
        cases runSt r2.2 ys with
        | none => rfl
        | some r3 => simp [List.append_assoc]

theorem run_append (st : St) (xs ys : List Char) :
    run st (xs ++ ys) = (runSt st xs).bind fun r => (run r.2 ys).map (r.1 ++ ·) := by
  simp only [run_eq, runSt_append]
  cases runSt st xs with
  | none => rfl
  | some r =>
    simp only [Option.bind_some]
    cases runSt r.2 ys with
    | none => rfl
    | some r2 =>
      simp only [Option.bind_some, Option.map_some]
      cases finish r2.2 with
      | none => rfl
      | some o => simp [List.append_assoc]


/-! ## Hexadecimal digits -/

theorem hexVal_hexDigit_fin : ∀ d : Fin 16, hexVal? (hexDigit d.val) = some d.val := by decide

theorem hexVal_hexDigit {d : Nat} (h : d < 16) : hexVal? (hexDigit d) = some d :=
  hexVal_hexDigit_fin ⟨d, h⟩

theorem isScalar_toNat (c : Char) : isScalar c.toNat = true := by
  have h := c.valid
  simp only [UInt32.isValidChar, Nat.isValidChar] at h
  simp only [isScalar, Char.toNat, Bool.or_eq_true, decide_eq_true_eq, Bool.and_eq_true]
  omega

theorem runSt_ucn4 (n : Nat) (h : n < 65536) (hs : isScalar n = true) :
    runSt (.ucn 4 0) (hex4 n) = some (String.utf8EncodeChar (Char.ofNat n), .normal) := by
  have e : ((n / 256 / 16 % 16 * 16 + n / 256 % 16) * 16 + n / 16 % 16) * 16 + n % 16 = n := by
    omega
  simp [hex4, hex2, runSt, step, hexVal_hexDigit (Nat.mod_lt _ (by decide : 16 > 0)), e, hs]


theorem runSt_ucn8 (n : Nat) (h : n < 0x110000) (hs : isScalar n = true) :
    runSt (.ucn 8 0) (hex8 n) = some (String.utf8EncodeChar (Char.ofNat n), .normal) := by
  have e : ((((((n / 65536 / 256 / 16 % 16 * 16 + n / 65536 / 256 % 16) * 16 + n / 65536 / 16 % 16) * 16
      + n / 65536 % 16) * 16 + n / 256 / 16 % 16) * 16 + n / 256 % 16) * 16 + n / 16 % 16) * 16
      + n % 16 = n := by omega
  simp [hex8, hex4, hex2, runSt, step, hexVal_hexDigit (Nat.mod_lt _ (by decide : 16 > 0)), e, hs]

theorem runSt_x2 (n : Nat) (h : n < 256) :
    runSt .esc ('x' :: hex2 n) = some ([], .hex n) := by
  have e : n / 16 % 16 * 16 + n % 16 = n := by omega
  have e2 : n ≤ 255 := by omega
  simp [hex2, runSt, step, simpleEsc?, hexVal_hexDigit (Nat.mod_lt _ (by decide : 16 > 0)), e, e2]

/-! ## `replaceDq` -/

theorem replaceDq_cons (c : Char) (l : List Char) :
    replaceDq (c :: l) = (if c = '"' then ['\\', '"'] else [c]) ++ replaceDq l := by
  simp [replaceDq]

theorem replaceDq_nil : replaceDq [] = [] := rfl

theorem hexDigit_ne_dq_fin : ∀ d : Fin 16, hexDigit d.val ≠ '"' := by decide

theorem hexDigit_mod_ne_dq (n : Nat) : hexDigit (n % 16) ≠ '"' :=
  hexDigit_ne_dq_fin ⟨n % 16, Nat.mod_lt _ (by decide)⟩

theorem replaceDq_hex2 (n : Nat) : replaceDq (hex2 n) = hex2 n := by
  simp [hex2, replaceDq_cons, replaceDq_nil, hexDigit_mod_ne_dq]

theorem replaceDq_append (a b : List Char) : replaceDq (a ++ b) = replaceDq a ++ replaceDq b := by
  simp [replaceDq]

theorem replaceDq_hex4 (n : Nat) : replaceDq (hex4 n) = hex4 n := by
  simp [hex4, replaceDq_append, replaceDq_hex2]

theorem replaceDq_hex8 (n : Nat) : replaceDq (hex8 n) = hex8 n := by
  simp [hex8, replaceDq_append, replaceDq_hex4]

/-! ## The escaping, character by character -/

/-- What one character of the text becomes in the literal body. -/
def chunk (p : Char → Bool) (q c : Char) : List Char := replaceDq (reprChar p q c)

theorem dropFirstLast_wrap (q : Char) (l : List Char) : dropFirstLast (q :: l ++ [q]) = l := by
  simp [dropFirstLast]

theorem escapeDocL_eq (p : Char → Bool) (cs : List Char) :
    escapeDocL p cs = cs.flatMap (chunk p (quoteFor cs)) := by
  unfold escapeDocL pyReprL
  rw [dropFirstLast_wrap]
  simp only [replaceDq, List.flatMap_assoc]
  rfl


theorem toNat_ne_of_ne {c d : Char} (h : c ≠ d) : c.toNat ≠ d.toNat := by
  intro e
  apply h
  exact Char.ext (UInt32.toNat_inj.mp e)

theorem stepNormal_plain {c : Char} (h1 : c ≠ '\\') (h2 : c ≠ '"') (h3 : c ≠ '\n') (h4 : c ≠ '\r') :
    stepNormal c = some (String.utf8EncodeChar c, .normal) := by
  simp [stepNormal, h1, h2, h3, h4]

/-- A character that `repr` does not render as `\xNN` decodes to its UTF-8 bytes. -/
theorem runSt_chunk_plain (p : Char → Bool) (q c : Char)
    (hq : q = '\'' ∨ (q = '"' ∧ c ≠ '"')) (hx : xEscaped p c = false) :
    runSt .normal (chunk p q c) = some (String.utf8EncodeChar c, .normal) := by
  unfold chunk reprChar
  by_cases h1 : c = q ∨ c = '\\'
  · rw [if_pos h1]
    rcases h1 with h1 | h1
    · rcases hq with hq | ⟨hq, hne⟩
      · subst h1; subst hq; decide
      · exact absurd (h1.trans hq) hne
    · subst h1; decide
  rw [if_neg h1]
  have hcq : c ≠ q := fun h => h1 (Or.inl h)
  have hbs : c ≠ '\\' := fun h => h1 (Or.inr h)
  by_cases h2 : c = '\t'
  · rw [if_pos h2]; subst h2; decide
  rw [if_neg h2]
  by_cases h3 : c = '\n'
  · rw [if_pos h3]; subst h3; decide
  rw [if_neg h3]
  by_cases h4 : c = '\r'
  · rw [if_pos h4]; subst h4; decide
  rw [if_neg h4]
  have n2 := toNat_ne_of_ne h2
  have n3 := toNat_ne_of_ne h3
  have n4 := toNat_ne_of_ne h4
  have nbs := toNat_ne_of_ne hbs
  simp only [xEscaped, Bool.or_eq_false_iff, Bool.and_eq_false_iff, decide_eq_false_iff_not,
    ne_eq, beq_eq_false_iff_ne, Bool.not_eq_false'] at hx
  by_cases h5 : c.toNat < 32 ∨ c.toNat = 127
  · exfalso
    rcases h5 with h5 | h5
    · rcases hx with ⟨⟨hx, _⟩, _⟩
      simp [h5, h2, h3, h4] at hx
    · exact hx.1.2 h5
  rw [if_neg h5]
  by_cases h6 : c.toNat < 127
  · rw [if_pos h6]
    by_cases h7 : c = '"'
    · subst h7; decide
    · simp only [replaceDq_cons, replaceDq_nil, if_neg h7, List.append_nil, runSt_cons,
        step, stepNormal_plain hbs h7 h3 h4, runSt]
      simp
  rw [if_neg h6]
  have hdq : c ≠ '"' := by intro h; subst h; exact h6 (by decide)
  by_cases h7 : p c = true
  · rw [if_pos h7]
    simp only [replaceDq_cons, replaceDq_nil, if_neg hdq, List.append_nil, runSt_cons,
        step, stepNormal_plain hbs hdq h3 h4, runSt]
    simp
  rw [if_neg h7]
  have hge : 128 ≤ c.toNat := by omega
  by_cases h8 : c.toNat ≤ 255
  · exfalso
    rcases hx with ⟨_, hx⟩
    simp [hge, h8, h7] at hx
  rw [if_neg h8]
  have hsc := isScalar_toNat c
  by_cases h9 : c.toNat ≤ 65535
  · rw [if_pos h9]
    simp only [replaceDq_cons, replaceDq_hex4]
    simp only [show ('\\' : Char) ≠ '"' from by decide, show ('u' : Char) ≠ '"' from by decide,
      if_false, List.cons_append, List.nil_append]
    rw [runSt_cons]
    simp only [step, stepNormal, if_true, Option.bind_some]
    rw [runSt_cons]
    have : step .esc 'u' = some ([], .ucn 4 0) := by decide
    rw [this]
    simp only [Option.bind_some]
    rw [runSt_ucn4 _ (by omega) hsc, Char.ofNat_toNat]
    simp
  · rw [if_neg h9]
    simp only [replaceDq_cons, replaceDq_hex8]
    simp only [show ('\\' : Char) ≠ '"' from by decide, show ('U' : Char) ≠ '"' from by decide,
      if_false, List.cons_append, List.nil_append]
    rw [runSt_cons]
    simp only [step, stepNormal, if_true, Option.bind_some]
    rw [runSt_cons]
    have : step .esc 'U' = some ([], .ucn 8 0) := by decide
    rw [this]
    simp only [Option.bind_some]
    have hlt : c.toNat < 0x110000 := by
      have := c.valid
      simp only [UInt32.isValidChar, Nat.isValidChar] at this
      simp only [Char.toNat]; omega
    rw [runSt_ucn8 _ hlt hsc, Char.ofNat_toNat]
    simp


theorem xEscaped_iff (p : Char → Bool) (c : Char) :
    xEscaped p c = true ↔
      (c.toNat < 32 ∧ c ≠ '\t' ∧ c ≠ '\n' ∧ c ≠ '\r') ∨ c.toNat = 127 ∨
        (128 ≤ c.toNat ∧ c.toNat ≤ 255 ∧ p c = false) := by
  simp [xEscaped, and_assoc, or_assoc]

/-- The characters `repr` renders as `\xNN`. -/
theorem chunk_xEscaped (p : Char → Bool) (q c : Char) (hq : q = '\'' ∨ q = '"')
    (hx : xEscaped p c = true) : chunk p q c = '\\' :: 'x' :: hex2 c.toNat := by
  rw [xEscaped_iff] at hx
  have k1 : c.toNat ≠ 39 ∧ c.toNat ≠ 34 ∧ c.toNat ≠ 92 := by omega
  have hcq : c ≠ q := by
    intro h; subst h
    rcases hq with hq | hq <;> subst hq <;> simp at k1
  have hbs : c ≠ '\\' := by intro h; subst h; simp at k1
  have h2 : c ≠ '\t' := by
    intro h; subst h; simp at hx
  have h3 : c ≠ '\n' := by
    intro h; subst h; simp at hx
  have h4 : c ≠ '\r' := by
    intro h; subst h; simp at hx
  unfold chunk reprChar
  rw [if_neg (by simp [hcq, hbs]), if_neg h2, if_neg h3, if_neg h4]
  by_cases h5 : c.toNat < 32 ∨ c.toNat = 127
  · rw [if_pos h5]
    simp [replaceDq_cons, replaceDq_hex2]
  · rw [if_neg h5]
    have h6 : ¬ c.toNat < 127 := by omega
    have h7 : ¬ p c = true := by
      rcases hx with hx | hx | hx
      · omega
      · omega
      · simp [hx.2.2]
    have h8 : c.toNat ≤ 255 := by omega
    rw [if_neg h6, if_neg h7, if_pos h8]
    simp [replaceDq_cons, replaceDq_hex2]

theorem runSt_chunk_xEscaped (p : Char → Bool) (q c : Char) (hq : q = '\'' ∨ q = '"')
    (hx : xEscaped p c = true) : runSt .normal (chunk p q c) = some ([], .hex c.toNat) := by
  rw [chunk_xEscaped p q c hq hx, runSt_cons]
  have h255 : c.toNat < 256 := by
    rw [xEscaped_iff] at hx; omega
  simp only [step, stepNormal, if_true, Option.bind_some, runSt_x2 _ h255]
  simp

theorem reprChar_head (p : Char → Bool) (q d : Char) :
    ∃ y ys, reprChar p q d = y :: ys ∧ (y = '\\' ∨ y = d) := by
  unfold reprChar
  repeat' split
  all_goals exact ⟨_, _, rfl, by simp⟩

/-- The first character of a chunk is a hex digit only if the text character is one. -/
theorem chunk_head (p : Char → Bool) (q d : Char) (h : hexVal? d = none) :
    ∃ x xs, chunk p q d = x :: xs ∧ hexVal? x = none := by
  have hb : hexVal? '\\' = none := by decide
  obtain ⟨y, ys, e, hy⟩ := reprChar_head p q d
  unfold chunk
  rw [e, replaceDq_cons]
  by_cases hd : y = '"'
  · exact ⟨'\\', '"' :: replaceDq ys, by simp [hd], hb⟩
  · refine ⟨y, replaceDq ys, by simp [hd], ?_⟩
    rcases hy with hy | hy
    · rw [hy]; exact hb
    · rw [hy]; exact h

theorem run_hex_nonhex (v : Nat) (x : Char) (l : List Char) (h : hexVal? x = none) :
    run (.hex v) (x :: l) = (run .normal (x :: l)).map (UInt8.ofNat v :: ·) := by
  simp only [run_eq, runSt_cons]
  have e1 : step (.hex v) x = withPending (UInt8.ofNat v) (stepNormal x) := by simp [step, h]
  have e2 : step .normal x = stepNormal x := rfl
  rw [e1, e2]
  cases stepNormal x with
  | none => rfl
  | some r =>
    simp only [withPending, Option.bind_some]
    cases runSt r.2 l with
    | none => rfl
    | some r2 =>
      simp only [Option.map_some, Option.bind_some]
      cases finish r2.2 <;> simp


theorem utf8_ascii (c : Char) (h : c.toNat < 128) :
    String.utf8EncodeChar c = [UInt8.ofNat c.toNat] := by
  have h' : c.val.toNat ≤ 127 := by simp only [Char.toNat] at h; omega
  unfold String.utf8EncodeChar
  simp only [h', if_true]
  rfl

theorem utf8_cons (c : Char) (cs : List Char) : utf8 (c :: cs) = String.utf8EncodeChar c ++ utf8 cs := by
  simp [utf8]

/-- Quote side condition used per character: `q` is `'`, or `q` is `"` and the text has no `"`. -/
def QuoteOK (q : Char) (cs : List Char) : Prop := q = '\'' ∨ (q = '"' ∧ ∀ c ∈ cs, c ≠ '"')

theorem quoteOK_quoteFor (cs : List Char) : QuoteOK (quoteFor cs) cs := by
  unfold QuoteOK quoteFor
  by_cases h : (cs.contains '\'' && !cs.contains '"') = true
  · rw [if_pos h]
    right
    refine ⟨rfl, ?_⟩
    intro c hc e
    subst e
    simp at h
    exact h.2 hc
  · rw [if_neg h]; left; rfl

theorem QuoteOK.tail {q c cs} (h : QuoteOK q (c :: cs)) : QuoteOK q cs := by
  rcases h with h | ⟨h, h'⟩
  · exact Or.inl h
  · exact Or.inr ⟨h, fun d hd => h' d (List.mem_cons_of_mem _ hd)⟩

theorem QuoteOK.head {q c cs} (h : QuoteOK q (c :: cs)) : q = '\'' ∨ (q = '"' ∧ c ≠ '"') := by
  rcases h with h | ⟨h, h'⟩
  · exact Or.inl h
  · exact Or.inr ⟨h, h' c (List.mem_cons_self ..)⟩

theorem QuoteOK.quote {q cs} (h : QuoteOK q cs) : q = '\'' ∨ q = '"' := by
  rcases h with h | ⟨h, _⟩
  · exact Or.inl h
  · exact Or.inr h

/-- From a completed `\xNN` state the decoder behaves as from `normal` with the byte pending,
    provided the text does not continue with a hex digit. -/
theorem run_hex_of_run_normal (p : Char → Bool) (q : Char) (v : Nat) (cs : List Char)
    (bs : Bytes) (hs : startsHex cs = false)
    (h : run .normal (cs.flatMap (chunk p q)) = some bs) :
    run (.hex v) (cs.flatMap (chunk p q)) = some (UInt8.ofNat v :: bs) := by
  cases cs with
  | nil =>
    simp [run, runSt, finish] at h ⊢
    exact h
  | cons d rest =>
    have hd : hexVal? d = none := by
      simp only [startsHex, Option.isSome_eq_false_iff, Option.isNone_iff_eq_none] at hs
      exact hs
    obtain ⟨x, xs, e, hx⟩ := chunk_head p q d hd
    simp only [List.flatMap_cons, e, List.cons_append] at h ⊢
    rw [run_hex_nonhex v x _ hx, h]
    rfl

/-- Forward direction: on `okTextL` texts the literal decodes to the UTF-8 of the text. -/
theorem run_chunks_ok (p : Char → Bool) (q : Char) (cs : List Char) (hq : QuoteOK q cs)
    (hok : okTextL p cs = true) :
    run .normal (cs.flatMap (chunk p q)) = some (utf8 cs) := by
  induction cs with
  | nil => rfl
  | cons c rest ih =>
    simp only [okTextL, Bool.and_eq_true, Bool.or_eq_true, Bool.not_eq_true', decide_eq_true_eq] at hok
    obtain ⟨hc, hrest⟩ := hok
    have ih' := ih hq.tail hrest
    simp only [List.flatMap_cons, run_append, utf8_cons]
    cases hx : xEscaped p c with
    | false =>
      rw [runSt_chunk_plain p q c hq.head hx]
      simp [ih']
    | true =>
      rw [hx] at hc
      have hc' : c.toNat < 128 ∧ startsHex rest = false := by simpa using hc
      rw [runSt_chunk_xEscaped p q c hq.quote hx]
      simp only [Option.bind_some, List.nil_append]
      rw [run_hex_of_run_normal p q c.toNat rest _ hc'.2 ih', utf8_ascii c hc'.1]
      simp

theorem decode_escapeDocL_of_ok (p : Char → Bool) (cs : List Char) (hok : okTextL p cs = true) :
    decode (escapeDocL p cs) = some (utf8 cs) := by
  rw [escapeDocL_eq]
  exact run_chunks_ok p _ cs (quoteOK_quoteFor cs) hok


/-! ## Converse: outside `okTextL` the decoded bytes are too few (or the literal is ill-formed) -/

theorem utf8_len_pos (c : Char) : 1 ≤ (String.utf8EncodeChar c).length := by
  unfold String.utf8EncodeChar
  simp only []
  repeat' split
  all_goals simp

theorem utf8_len_two (c : Char) (h : 128 ≤ c.toNat) : 2 ≤ (String.utf8EncodeChar c).length := by
  have h' : ¬ c.val.toNat ≤ 127 := by simp only [Char.toNat] at h; omega
  unfold String.utf8EncodeChar
  simp only [h', if_false]
  repeat' split
  all_goals simp

theorem hexVal_range {c : Char} {d : Nat} (h : hexVal? c = some d) :
    (48 ≤ c.toNat ∧ c.toNat ≤ 57) ∨ (97 ≤ c.toNat ∧ c.toNat ≤ 102) ∨ (65 ≤ c.toNat ∧ c.toNat ≤ 70) := by
  unfold hexVal? at h
  simp only [] at h
  repeat' split at h
  all_goals first | omega | simp at h

/-- A hexadecimal digit is copied unchanged into the literal. -/
theorem chunk_hexDigit (p : Char → Bool) (q c : Char) (hq : q = '\'' ∨ q = '"') {d : Nat}
    (h : hexVal? c = some d) : chunk p q c = [c] := by
  have r := hexVal_range h
  have ne : ∀ e : Char, (e.toNat < 48 ∨ (57 < e.toNat ∧ e.toNat < 65) ∨ (70 < e.toNat ∧ e.toNat < 97)
      ∨ 102 < e.toNat) → c ≠ e := by
    intro e he hce; subst hce; omega
  have hcq : c ≠ q := by
    rcases hq with hq | hq <;> subst hq <;> exact ne _ (by decide)
  have hbs : c ≠ '\\' := ne _ (by decide)
  have h2 : c ≠ '\t' := ne _ (by decide)
  have h3 : c ≠ '\n' := ne _ (by decide)
  have h4 : c ≠ '\r' := ne _ (by decide)
  have hdq : c ≠ '"' := ne _ (by decide)
  unfold chunk reprChar
  rw [if_neg (by simp [hcq, hbs]), if_neg h2, if_neg h3, if_neg h4, if_neg (by omega),
    if_pos (by omega)]
  simp [replaceDq_cons, replaceDq_nil, hdq]

theorem xEscaped_hexDigit (p : Char → Bool) (c : Char) {d : Nat} (h : hexVal? c = some d) :
    xEscaped p c = false := by
  have r := hexVal_range h
  cases hx : xEscaped p c with
  | false => rfl
  | true => rw [xEscaped_iff] at hx; omega

/-- Length bound: what the decoder produces from an escaped text, started in `normal`
    (`pend = 0`) or just after a complete `\xNN` (`pend = 1`). -/
theorem run_chunks_len (p : Char → Bool) (q : Char) (cs : List Char) (hq : QuoteOK q cs) :
    (∀ bs, run .normal (cs.flatMap (chunk p q)) = some bs →
        bs.length ≤ (utf8 cs).length ∧ (okTextL p cs = false → bs.length < (utf8 cs).length)) ∧
    (∀ v bs, run (.hex v) (cs.flatMap (chunk p q)) = some bs →
        bs.length ≤ 1 + (utf8 cs).length ∧
        ((okTextL p cs = false ∨ startsHex cs = true) → bs.length < 1 + (utf8 cs).length)) := by
  induction cs with
  | nil =>
    constructor
    · intro bs h
      simp [run, runSt, finish] at h
      subst h; simp [okTextL]
    · intro v bs h
      simp [run, runSt, finish] at h
      subst h; simp [okTextL, startsHex, utf8]
  | cons c rest ih =>
    obtain ⟨ihN, ihH⟩ := ih hq.tail
    have hN : ∀ bs, run .normal ((c :: rest).flatMap (chunk p q)) = some bs →
        bs.length ≤ (utf8 (c :: rest)).length ∧
          (okTextL p (c :: rest) = false → bs.length < (utf8 (c :: rest)).length) := by
      intro bs h
      simp only [List.flatMap_cons, run_append] at h
      simp only [utf8_cons, List.length_append]
      cases hx : xEscaped p c with
      | false =>
        rw [runSt_chunk_plain p q c hq.head hx] at h
        simp only [Option.bind_some] at h
        cases hr : run .normal (rest.flatMap (chunk p q)) with
        | none => rw [hr] at h; simp at h
        | some bs' =>
          rw [hr] at h
          simp only [Option.map_some, Option.some.injEq] at h
          subst h
          obtain ⟨a, b⟩ := ihN bs' hr
          simp only [List.length_append]
          refine ⟨by omega, ?_⟩
          intro hok
          have : okTextL p rest = false := by
            simpa [okTextL, hx] using hok
          have := b this
          omega
      | true =>
        rw [runSt_chunk_xEscaped p q c hq.quote hx] at h
        simp only [Option.bind_some] at h
        cases hr : run (.hex c.toNat) (rest.flatMap (chunk p q)) with
        | none => rw [hr] at h; simp at h
        | some bs' =>
          rw [hr] at h
          simp only [Option.map_some, Option.some.injEq, List.nil_append] at h
          subst h
          obtain ⟨a, b⟩ := ihH c.toNat bs' hr
          have l1 := utf8_len_pos c
          refine ⟨by omega, ?_⟩
          intro hok
          by_cases hc : 128 ≤ c.toNat
          · have := utf8_len_two c hc; omega
          · have : okTextL p rest = false ∨ startsHex rest = true := by
              simp only [okTextL, hx, Bool.not_true, Bool.false_or, Bool.and_eq_false_iff,
                decide_eq_false_iff_not, Bool.not_eq_false'] at hok
              rcases hok with (hok | hok) | hok
              · omega
              · exact Or.inr hok
              · exact Or.inl hok
            have := b this
            omega
    refine ⟨hN, ?_⟩
    intro v bs h
    cases hd : hexVal? c with
    | some d =>
      -- the hex escape swallows the digit
      rw [List.flatMap_cons, chunk_hexDigit p q c hq.quote hd] at h
      simp only [List.cons_append, List.nil_append, run_eq, runSt_cons] at h
      have hs : step (.hex v) c = if v * 16 + d ≤ 255 then some ([], .hex (v * 16 + d)) else none := by
        simp [step, hd]
      rw [hs] at h
      by_cases hv : v * 16 + d ≤ 255
      · rw [if_pos hv] at h
        simp only [Option.bind_some, List.nil_append] at h
        have h' : run (.hex (v * 16 + d)) (rest.flatMap (chunk p q)) = some bs := by
          rw [run_eq]
          cases hr : runSt (.hex (v * 16 + d)) (rest.flatMap (chunk p q)) with
          | none => rw [hr] at h; simp at h
          | some r => rw [hr] at h; simpa using h
        obtain ⟨a, _⟩ := ihH _ bs h'
        have l1 := utf8_len_pos c
        simp only [utf8_cons, List.length_append]
        exact ⟨by omega, fun _ => by omega⟩
      · rw [if_neg hv] at h
        simp at h
    | none =>
      obtain ⟨x, xs, e, hx⟩ := chunk_head p q c hd
      have h0 := h
      simp only [List.flatMap_cons, e, List.cons_append] at h
      rw [run_hex_nonhex v x _ hx] at h
      cases hr : run .normal (x :: (xs ++ rest.flatMap (chunk p q))) with
      | none => rw [hr] at h; simp at h
      | some bs0 =>
        rw [hr] at h
        simp only [Option.map_some, Option.some.injEq] at h
        subst h
        have hr' : run .normal ((c :: rest).flatMap (chunk p q)) = some bs0 := by
          simpa only [List.flatMap_cons, e, List.cons_append] using hr
        obtain ⟨a, b⟩ := hN bs0 hr'
        simp only [List.length_cons]
        refine ⟨by omega, ?_⟩
        intro hbad
        have : okTextL p (c :: rest) = false := by
          rcases hbad with hbad | hbad
          · exact hbad
          · simp [startsHex, hd] at hbad
        have := b this
        omega

theorem ok_of_decode_escapeDocL (p : Char → Bool) (cs : List Char)
    (h : decode (escapeDocL p cs) = some (utf8 cs)) : okTextL p cs = true := by
  rw [escapeDocL_eq] at h
  cases hok : okTextL p cs with
  | true => rfl
  | false =>
    have := ((run_chunks_len p _ cs (quoteOK_quoteFor cs)).1 _ h).2 hok
    omega


/-! ## The proposed escaper is right for every text -/

theorem runSt_octal3 : ∀ n : Fin 128,
    runSt .normal ['\\', octDigit (n.val / 64), octDigit (n.val / 8), octDigit n.val] =
      some ([UInt8.ofNat n.val], .normal) := by decide

theorem runSt_cppEscapeChar (c : Char) :
    runSt .normal (cppEscapeChar c) = some (String.utf8EncodeChar c, .normal) := by
  unfold cppEscapeChar
  by_cases h1 : c = '\\'
  · rw [if_pos h1]; subst h1; decide
  rw [if_neg h1]
  by_cases h2 : c = '"'
  · rw [if_pos h2]; subst h2; decide
  rw [if_neg h2]
  by_cases h3 : c = '?'
  · rw [if_pos h3]; subst h3; decide
  rw [if_neg h3]
  by_cases h4 : c = '\n'
  · rw [if_pos h4]; subst h4; decide
  rw [if_neg h4]
  by_cases h5 : c = '\r'
  · rw [if_pos h5]; subst h5; decide
  rw [if_neg h5]
  by_cases h6 : c = '\t'
  · rw [if_pos h6]; subst h6; decide
  rw [if_neg h6]
  by_cases h7 : c.toNat < 32 ∨ c.toNat = 127
  · rw [if_pos h7]
    have hlt : c.toNat < 128 := by omega
    rw [utf8_ascii c hlt]
    exact runSt_octal3 ⟨c.toNat, hlt⟩
  · rw [if_neg h7]
    simp only [step, stepNormal_plain h1 h2 h4 h5, runSt]
    simp

theorem decode_cppEscapeL (cs : List Char) : decode (cppEscapeL cs) = some (utf8 cs) := by
  unfold decode cppEscapeL
  induction cs with
  | nil => rfl
  | cons c rest ih =>
    simp only [List.flatMap_cons, run_append, runSt_cppEscapeChar, Option.bind_some, ih, utf8_cons]
    simp

/-! ## Lookup: `filter_member_defs` -/

@[simp] theorem Res.bind_ok {α β} (a : α) (f : α → Res β) : (Res.ok a >>= f) = f a := rfl
@[simp] theorem Res.bind_err {α β} (e : String) (f : α → Res β) : (Res.err e >>= f) = Res.err e := rfl
@[simp] theorem Res.pure_eq {α} (a : α) : (pure a : Res α) = Res.ok a := rfl

/-- `p` is a `<param>` whose name element (`declname`, else `defname`) has text `a`. -/
def ParamNamed (p : Elem) (a : String) : Prop :=
  ∃ e, paramNameElem p = some e ∧ e.text = some a

/-- The `<param>` list `ps` carries exactly the names `args`, in order. -/
inductive ParamsNamed : List Elem → List String → Prop where
  | nil : ParamsNamed [] []
  | cons {p a ps as} : ParamNamed p a → ParamsNamed ps as → ParamsNamed (p :: ps) (a :: as)

theorem ParamsNamed.length_eq {ps : List Elem} {args : List String} (h : ParamsNamed ps args) :
    ps.length = args.length := by
  induction h with
  | nil => rfl
  | cons _ _ ih => simp [ih]

/-- The member definition `m` has an `argsstring`, exactly the parameter names `args`
    (in order) and no default values. -/
structure ExactParams (m : Elem) (args : List String) : Prop where
  hasArgs : ∃ a, m.findChild "argsstring" = some a
  names : ParamsNamed (m.childrenTag "param") args
  noDefault : ∀ p ∈ m.childrenTag "param", p.findChild "defval" = none

/-- `m` has an `argsstring` and its `<param>`s carry exactly the names `args` — default
    values allowed (this is how a call with ALL parameter names matches). -/
structure NamedParams (m : Elem) (args : List String) : Prop where
  hasArgs : ∃ a, m.findChild "argsstring" = some a
  names : ParamsNamed (m.childrenTag "param") args

theorem ExactParams.toNamed {m : Elem} {args : List String} (h : ExactParams m args) :
    NamedParams m args := ⟨h.hasArgs, h.names⟩

/-- `params[i].find("declname").text` of an optional parameter. -/
def declText (p : Elem) : Option String := (p.findChild "declname").bind (·.text)

/-- `m` has the required parameters `args` (no default values) followed by the optional
    parameters `opt` (each with a default value and a `declname`). -/
structure OptionalParams (m : Elem) (args : List String) (req opt : List Elem) : Prop where
  hasArgs : ∃ a, m.findChild "argsstring" = some a
  split : m.childrenTag "param" = req ++ opt
  names : ParamsNamed req args
  reqNoDefault : ∀ p ∈ req, p.findChild "defval" = none
  optDefault : ∀ p ∈ opt, (p.findChild "defval").isSome = true
  optDecl : ∀ p ∈ opt, ∃ e, p.findChild "declname" = some e
  optNonempty : opt ≠ []

theorem argMismatch_false {p : Elem} {a : String} (h : ParamNamed p a) : argMismatch a p = false := by
  obtain ⟨e, h1, h2⟩ := h
  simp [argMismatch, h1, h2]

theorem argMismatch_true {p : Elem} {a b : String} (h : ParamNamed p a) (hne : a ≠ b) :
    argMismatch b p = true := by
  obtain ⟨e, h1, h2⟩ := h
  simp [argMismatch, h1, h2, hne]

theorem zipWith_mismatch_same {ps : List Elem} {args : List String}
    (h : ParamsNamed ps args) : (List.zipWith argMismatch args ps).any id = false := by
  induction h with
  | nil => rfl
  | cons hp _ ih => simp [List.zipWith, argMismatch_false hp, ih]

theorem zipWith_mismatch_diff {ps : List Elem} {args' : List String}
    (h : ParamsNamed ps args') :
    ∀ args : List String, args.length = args'.length → args ≠ args' →
      (List.zipWith argMismatch args ps).any id = true := by
  induction h with
  | nil =>
    intro args hl hne
    cases args with
    | nil => exact absurd rfl hne
    | cons _ _ => simp at hl
  | @cons p a' ps' as' hp _ ih =>
    intro args hl hne
    cases args with
    | nil => simp at hl
    | cons a as =>
      by_cases e : a = a'
      · subst e
        have : as ≠ as' := fun h => hne (by rw [h])
        simp [List.zipWith, ih as (by simpa using hl) this]
      · simp [List.zipWith, argMismatch_true hp (Ne.symm e)]

theorem filter_defval_nil {ps : List Elem} (h : ∀ p ∈ ps, p.findChild "defval" = none) :
    ps.filter (fun p => (p.findChild "defval").isSome) = [] := by
  rw [List.filter_eq_nil_iff]
  intro p hp
  simp [h p hp]

/-- A member whose parameter names are exactly `args` is accepted, nothing ignored
    (whether or not some parameters have default values). -/
theorem judge_named {m : Elem} {args : List String} (h : NamedParams m args) :
    judgeMember m args = .ok (.accept []) := by
  obtain ⟨a, ha⟩ := h.hasArgs
  have hl := h.names.length_eq
  unfold judgeMember
  simp only [ha]
  rw [if_neg (by omega), zipWith_mismatch_same h.names]
  simp [← hl, ignoredOf]

theorem judge_exact {m : Elem} {args : List String} (h : ExactParams m args) :
    judgeMember m args = .ok (.accept []) := judge_named h.toNamed

theorem zipWith_mismatch_prefix {ps : List Elem} {args : List String} (h : ParamsNamed ps args)
    (more : List Elem) : (List.zipWith argMismatch args (ps ++ more)).any id = false := by
  induction h with
  | nil => simp
  | cons hp _ ih => simp [argMismatch_false hp, ih]

theorem ignoredOf_decl {opt : List Elem} (h : ∀ p ∈ opt, ∃ e, p.findChild "declname" = some e) :
    ignoredOf opt = .ok (opt.map declText) := by
  induction opt with
  | nil => rfl
  | cons p ps ih =>
    obtain ⟨e, he⟩ := h p (List.mem_cons_self ..)
    simp [ignoredOf, he, ih (fun q hq => h q (List.mem_cons_of_mem _ hq)), declText]

theorem filter_defval_all {ps : List Elem} (h : ∀ p ∈ ps, (p.findChild "defval").isSome = true) :
    ps.filter (fun p => (p.findChild "defval").isSome) = ps := by
  rw [List.filter_eq_self]
  exact h

/-- Called with the REQUIRED names only, a member with trailing optional parameters is
    accepted and the optional parameters' names are returned as "ignored". -/
theorem judge_optional {m : Elem} {args : List String} {req opt : List Elem}
    (h : OptionalParams m args req opt) :
    judgeMember m args = .ok (.accept (opt.map declText)) := by
  obtain ⟨a, ha⟩ := h.hasArgs
  have hl := h.names.length_eq
  unfold judgeMember
  simp only [ha, h.split, List.filter_append, filter_defval_nil h.reqNoDefault,
    filter_defval_all h.optDefault, List.nil_append, List.length_append]
  rw [if_neg (by omega), zipWith_mismatch_prefix h.names]
  have : List.drop args.length (req ++ opt) = opt := by
    rw [← hl]; simp
  simp [this, ignoredOf_decl h.optDecl]

/-- A member whose parameter-name list is another one is rejected:
    overloads with different parameter lists are told apart. -/
theorem judge_other {m : Elem} {args args' : List String} (h : ExactParams m args')
    (hne : args' ≠ args) : judgeMember m args = .ok .reject := by
  obtain ⟨a, ha⟩ := h.hasArgs
  have hl := h.names.length_eq
  unfold judgeMember
  simp only [ha, filter_defval_nil h.noDefault, List.length_nil, Nat.sub_zero]
  by_cases e : args.length = args'.length
  · rw [if_neg (by omega), zipWith_mismatch_diff h.names args e (Ne.symm hne)]
    simp
  · rw [if_pos (by omega)]

theorem filter_all_reject {l : List Elem} {args : List String}
    (h : ∀ x ∈ l, judgeMember x args = .ok .reject) : filterMemberDefs l args = .ok ([], []) := by
  induction l with
  | nil => rfl
  | cons x xs ih =>
    simp only [filterMemberDefs, h x (List.mem_cons_self ..), Res.bind_ok,
      ih (fun y hy => h y (List.mem_cons_of_mem _ hy)), Res.pure_eq]

theorem filter_single {pre post : List Elem} {m : Elem} {args : List String}
    {ign : List (Option String)}
    (hpre : ∀ x ∈ pre, judgeMember x args = .ok .reject)
    (hm : judgeMember m args = .ok (.accept ign))
    (hpost : ∀ x ∈ post, judgeMember x args = .ok .reject) :
    filterMemberDefs (pre ++ m :: post) args = .ok ([m], ign) := by
  induction pre with
  | nil =>
    simp only [List.nil_append, filterMemberDefs, hm, Res.bind_ok, filter_all_reject hpost,
      Res.pure_eq, List.append_nil]
  | cons x xs ih =>
    simp only [List.cons_append, filterMemberDefs, hpre x (List.mem_cons_self ..), Res.bind_ok,
      ih (fun y hy => hpre y (List.mem_cons_of_mem _ hy)), Res.pure_eq]

/-- All members are accepted when they all carry the requested names. -/
theorem filter_all_accept {l : List Elem} {args : List String}
    (h : ∀ x ∈ l, judgeMember x args = .ok (.accept [])) : filterMemberDefs l args = .ok (l, []) := by
  induction l with
  | nil => rfl
  | cons x xs ih =>
    simp only [filterMemberDefs, h x (List.mem_cons_self ..), Res.bind_ok,
      ih (fun y hy => h y (List.mem_cons_of_mem _ hy)), Res.pure_eq, List.nil_append]


/-! ## Lookup: `get_member_defs`, `extract_docstring`, the memory -/

/-- Class `cls` resolves, through `index.xml`, to the class file whose root is `root`. -/
def Resolves (d : Dir) (cls : String) (root : Elem) : Prop :=
  ∃ idx ci r, d.get "index.xml" = .tree idx ∧ findClassIndex idx cls = some ci ∧
    ci.attr? "refid" = some r ∧ d.get (r ++ ".xml") = .tree root

theorem getMemberDefs_resolves {d : Dir} {cls : String} {root : Elem} (h : Resolves d cls root)
    (meth : String) : getMemberDefs d cls meth = (.ok (findMembers root meth), []) := by
  obtain ⟨idx, ci, r, h1, h2, h3, h4⟩ := h
  simp [getMemberDefs, parseXml, h1, h2, h3, h4]

theorem mem_findMembers {root m : Elem} {meth : String} :
    m ∈ findMembers root meth ↔
      ∃ cd ∈ root.childrenTag "compounddef", ∃ sd ∈ cd.childrenTag "sectiondef",
        m ∈ sd.descendants ∧ m.hasName meth = true := by
  simp only [findMembers, List.mem_flatMap, List.mem_filter]
  constructor
  · rintro ⟨sd, ⟨cd, hcd, hsd⟩, hm⟩
    exact ⟨cd, hcd, sd, hsd, hm⟩
  · rintro ⟨cd, hcd, sd, hsd, hm⟩
    exact ⟨sd, ⟨cd, hcd, hsd⟩, hm⟩

theorem lookup_set_same (st : DocState) (k : String) (v : Nat) : (st.set k v).lookup k = some v := by
  simp [DocState.set]

theorem lookup_set_other (st : DocState) {k k' : String} (v : Nat) (h : k' ≠ k) :
    (st.set k v).lookup k' = st.lookup k' := by
  have : (k' == k) = false := by simp [h]
  simp [DocState.set, List.lookup, this]

theorem extract_empty {d : Dir} {st : DocState} {cls meth : String} {args : List String}
    {maybe : List Elem} {w : List Warning} {ign : List (Option String)}
    (hg : getMemberDefs d cls meth = (.ok maybe, w))
    (hf : filterMemberDefs maybe args = .ok ([], ign)) :
    extractDocstring d st cls meth args = ⟨.ok "", w, st⟩ := by
  simp [extractDocstring, hg, hf, determineIndex]

theorem extract_unique {d : Dir} {st : DocState} {cls meth : String} {args : List String}
    {maybe : List Elem} {w : List Warning} {m : Elem} {ign : List (Option String)}
    (hg : getMemberDefs d cls meth = (.ok maybe, w))
    (hf : filterMemberDefs maybe args = .ok ([m], ign)) :
    extractDocstring d st cls meth args = ⟨formatDocstring m ign, w, st⟩ := by
  simp [extractDocstring, hg, hf, determineIndex]

/-- What the `j`-th (0-based) lookup of an ambiguous key returns. -/
def nthDoc (defs : List Elem) (ign : List (Option String)) (j : Nat) : Res String :=
  match defs[j]? with
  | some m => formatDocstring m ign
  | none => .ok ""

theorem extract_ambiguous_first {d : Dir} {st : DocState} {cls meth : String} {args : List String}
    {maybe defs : List Elem} {w : List Warning} {ign : List (Option String)}
    (hg : getMemberDefs d cls meth = (.ok maybe, w))
    (hf : filterMemberDefs maybe args = .ok (defs, ign)) (h2 : 2 ≤ defs.length)
    (hs : st.lookup (functionKey cls meth args) = none) :
    extractDocstring d st cls meth args =
      ⟨nthDoc defs ign 0, w, st.set (functionKey cls meth args) 0⟩ := by
  have hne : defs.isEmpty = false := by
    cases defs with
    | nil => simp at h2
    | cons _ _ => rfl
  have hgt : defs.length > 1 := by omega
  simp only [extractDocstring, hg, hf, determineIndex, hgt, if_true, hs, hne, nthDoc]
  cases defs[0]? <;> simp

theorem extract_ambiguous_next {d : Dir} {st : DocState} {cls meth : String} {args : List String}
    {maybe defs : List Elem} {w : List Warning} {ign : List (Option String)} {j : Nat}
    (hg : getMemberDefs d cls meth = (.ok maybe, w))
    (hf : filterMemberDefs maybe args = .ok (defs, ign)) (h2 : 2 ≤ defs.length)
    (hs : st.lookup (functionKey cls meth args) = some j) :
    extractDocstring d st cls meth args =
      ⟨nthDoc defs ign (j + 1), w, st.set (functionKey cls meth args) (j + 1)⟩ := by
  have hne : defs.isEmpty = false := by
    cases defs with
    | nil => simp at h2
    | cons _ _ => rfl
  have hgt : defs.length > 1 := by omega
  simp only [extractDocstring, hg, hf, determineIndex, hgt, if_true, hs, hne, nthDoc]
  cases defs[j + 1]? <;> simp

theorem extractAll_replicate_next {d : Dir} {cls meth : String} {args : List String}
    {maybe defs : List Elem} {w : List Warning} {ign : List (Option String)}
    (hg : getMemberDefs d cls meth = (.ok maybe, w))
    (hf : filterMemberDefs maybe args = .ok (defs, ign)) (h2 : 2 ≤ defs.length) :
    ∀ (k : Nat) (st : DocState) (j : Nat), st.lookup (functionKey cls meth args) = some j →
      (extractAll d st (List.replicate k (cls, meth, args))).map (·.res) =
        (List.range' (j + 1) k).map (nthDoc defs ign) := by
  intro k
  induction k with
  | zero => intro st j _; rfl
  | succ k ih =>
    intro st j hs
    simp only [List.replicate_succ, extractAll, List.map_cons, List.range'_succ]
    rw [extract_ambiguous_next hg hf h2 hs]
    simp only []
    rw [ih _ (j + 1) (lookup_set_same ..)]

theorem extractAll_replicate {d : Dir} {cls meth : String} {args : List String}
    {maybe defs : List Elem} {w : List Warning} {ign : List (Option String)}
    (hg : getMemberDefs d cls meth = (.ok maybe, w))
    (hf : filterMemberDefs maybe args = .ok (defs, ign)) (h2 : 2 ≤ defs.length)
    (k : Nat) (st : DocState) (hs : st.lookup (functionKey cls meth args) = none) :
    (extractAll d st (List.replicate k (cls, meth, args))).map (·.res) =
      (List.range k).map (nthDoc defs ign) := by
  cases k with
  | zero => rfl
  | succ k =>
    simp only [List.replicate_succ, extractAll, List.map_cons]
    rw [extract_ambiguous_first hg hf h2 hs]
    simp only []
    rw [extractAll_replicate_next hg hf h2 k _ 0 (lookup_set_same ..)]
    rw [List.range_eq_range', List.range'_succ]
    rfl


/-! ## Formatting and the empty cases -/

theorem format_parts {m dd : Elem} {ign : List (Option String)} {ps rt : String}
    (hd : m.findDesc "detaileddescription" = some dd)
    (hp : paramPart dd ign = .ok ps) (hr : returnPart dd = .ok rt) :
    formatDocstring m ign = .ok (strip (briefPart m ++ "\n" ++ detailParas dd ++ ps ++ rt)) := by
  simp [formatDocstring, rawDocstring, hd, hp, hr]

theorem format_brief_only {m b : Elem} {ign : List (Option String)}
    (hb : m.findDesc "briefdescription" = some b)
    (hd : m.findDesc "detaileddescription" = none) :
    formatDocstring m ign = .ok (strip (String.join ((b.childrenTag "para").map joinNonBlank))) := by
  simp [formatDocstring, rawDocstring, briefPart, hb, hd]

theorem strip_newline : strip "\n" = "" := by decide

/-- A member whose brief description has no paragraph and whose detailed description
    is empty (what Doxygen writes for an undocumented member) yields `""`. -/
theorem format_undocumented {m b dd : Elem} {ign : List (Option String)}
    (hb : m.findDesc "briefdescription" = some b) (hbp : b.childrenTag "para" = [])
    (hd : m.findDesc "detaileddescription" = some dd) (hdc : dd.children = []) :
    formatDocstring m ign = .ok "" := by
  have h1 : paramPart dd ign = .ok "" := by
    simp [paramPart, Elem.findDesc, Elem.descTag, Elem.descendants, hdc, Elem.iterList]
  have h2 : returnPart dd = .ok "" := by
    simp [returnPart, Elem.findDesc, Elem.descTag, Elem.descendants, hdc, Elem.iterList]
  rw [format_parts hd h1 h2]
  have h3 : briefPart m = "" := by simp [briefPart, hb, hbp]
  have h4 : detailParas dd = "" := by simp [detailParas, hdc]
  rw [h3, h4]
  exact congrArg Res.ok strip_newline

end WrapModel.Xml
