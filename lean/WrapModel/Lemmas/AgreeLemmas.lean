/- AGREEMENT: on every spelling of a lexeme list, the characters answer a request as the lexemes do -/
import WrapModel.Lemmas.LiftLemmas
import WrapModel.Lemmas.TwoWord

namespace WrapModel.Tok
open WrapModel WrapModel.Lex

def Agree (q : Q) (ls : List Lexeme) (s : Src) : Prop :=
  (∀ t ls', answerL q ls = .yes t ls' → ∃ s', answerC q s = some (t, s') ∧ Spells ls' s') ∧
  (answerL q ls = .no → answerC q s = none)

theorem okKw_spec {k : String} (h : okKw k = true) : (∀ d ∈ k.toList, isWordChar d = true) ∧ ∃ c t, k.toList = c :: t := by
  simp only [okKw, Bool.and_eq_true, allWordChars, List.all_eq_true] at h
  refine ⟨h.1, ?_⟩
  cases hk : k.toList with
  | nil => exfalso; have : k = "" := String.ext (by simpa using hk); simp [this] at h
  | cons c t => exact ⟨c, t, rfl⟩

theorem agree_nil (q : Q) {g : Src} (hg : Gap g) : Agree q [] g := by
  have hts0 : TokStart ([] : Src) := by unfold TokStart; exact ⟨fun c r h => (by cases h), rfl⟩
  have hsg : skipGap g = [] := by
    have := skipGap_gap hg hts0
    simpa using this
  cases q with
  | eof =>
    refine ⟨fun t ls' h => ?_, fun h => by simp [answerL, ansNil, ansWord] at h⟩
    simp only [answerL, ansNil, Ans.yes.injEq] at h
    obtain ⟨rfl, rfl⟩ := h
    exact ⟨[], by simp [answerC, Lex.eof, hsg], Spells.nil [] Gap.nil⟩
  | word => exact ⟨fun t ls' h => by simp [answerL, ansNil, ansWord] at h, fun _ => by simp [answerC, Lex.word, hsg]⟩
  | kw k =>
    refine ⟨fun t ls' h => by simp only [answerL, ansNil, ansWord] at h; split at h <;> simp at h, fun h => ?_⟩
    simp only [answerL, ansNil, ansWord] at h
    split at h
    · next hk =>
      obtain ⟨_, c, t, hkl⟩ := okKw_spec hk
      simp [answerC, Lex.kw, hsg, hkl, stripPrefix]
    · simp at h
  | alpha => exact ⟨fun t ls' h => by simp [answerL, ansNil, ansWord] at h, fun h => by simp [answerL, ansNil, ansWord] at h⟩
  | lit t => exact ⟨fun t ls' h => by simp [answerL, ansNil, ansWord] at h, fun h => by simp [answerL, ansNil, ansWord] at h⟩
  | stdPair => exact ⟨fun t ls' h => by simp [answerL, ansNil, ansWord] at h, fun h => by simp [answerL, ansNil, ansWord] at h⟩
  | opsym => exact ⟨fun t ls' h => by simp [answerL, ansNil, ansWord] at h, fun h => by simp [answerL, ansNil, ansWord] at h⟩
  | dflt => exact ⟨fun t ls' h => by simp [answerL, ansNil, ansWord] at h, fun h => by simp [answerL, ansNil, ansWord] at h⟩
  | header => exact ⟨fun t ls' h => by simp [answerL, ansNil, ansWord] at h, fun h => by simp [answerL, ansNil, ansWord] at h⟩

/-- the common reduction: in front of a well-formed lexeme the gap is skipped -/
theorem reduce_gap {g : Src} {l : Lexeme} {r : Src} (hg : Gap g) (hok : LexOK l r) :
    skipGap (l.chars ++ r) = l.chars ++ r ∧
    ∀ q', q' ≠ .header → answerC q' (g ++ l.chars ++ r) = answerC q' (l.chars ++ r) := by
  have hts := tokStart_of_lexOK hok
  have hsg : skipGap (g ++ l.chars ++ r) = l.chars ++ r := by
    rw [List.append_assoc]; exact skipGap_gap hg hts
  have hsg' : skipGap (l.chars ++ r) = l.chars ++ r := skipGap_tokStart hts
  exact ⟨hsg', fun q' hq' => answerC_congr q' hq' (by rw [hsg, hsg'])⟩

theorem notOkKw_rest {k : String} (h : okKw k = false) (hne : k ≠ "") : (spanP isWordChar k.toList).2 ≠ [] := by
  intro hr
  have hs := (spanP_split isWordChar k.toList).1
  rw [hr, List.append_nil] at hs
  have hall : allWordChars k = true := by
    simp only [allWordChars, List.all_eq_true]
    intro d hd
    rw [hs] at hd
    exact spanP_fst_all isWordChar k.toList d hd
  have : (k != "") = true := by simpa using hne
  simp [okKw, hall, this] at h

theorem kwTail_spec {k : String} {tail : List Char} (h : kwTail k = some tail) :
    (spanP isWordChar k.toList).2 = ' ' :: tail ∧ tail ≠ [] ∧ ∀ d ∈ tail, isWordChar d = true := by
  unfold kwTail at h
  split at h
  · next tl hs =>
    split at h
    · next hc =>
      cases h
      simp only [Bool.and_eq_true, bne_iff_ne, ne_eq, List.all_eq_true] at hc
      exact ⟨hs, hc.1, hc.2⟩
    · cases h
  · cases h

/-- the negative answers in front of a word depend on the characters `w ++ r'` only -/
theorem word_no (q : Q) {w : String} {r : Src} (ls : List Lexeme) (hwl : isWordLike w.toList) (haw : AfterWord r)
    (hsg' : skipGap (w.toList ++ r) = w.toList ++ r) (hrest : ls ≠ [] → Spells ls r) (h : ansWord q w ls = .no) :
    answerC q (w.toList ++ r) = none := by
  obtain ⟨hall, c, t, hw⟩ := wordLike_chars hwl
  have hc : isWordChar c = true := hall c (by simp [hw])
  have hsg2 : skipGap (c :: (t ++ r)) = c :: (t ++ r) := by simpa [hw] using hsg'
  cases q with
  | word => simp [ansWord] at h
  | kw k =>
    cases hk : okKw k with
    | true =>
      by_cases hwk : w = k
      · subst hwk; simp [ansWord, hk] at h
      · obtain ⟨hkall, _⟩ := okKw_spec hk
        have hne' : k.toList ≠ w.toList := fun he => hwk (String.ext he).symm
        simp [answerC, kw_word_ne k w r hkall hall haw hne' hsg']
    | false =>
      by_cases hke : k = ""
      · subst hke
        have : twoWordNo "" ls = false := by unfold twoWordNo kwTail; simp [spanP]
        simp [ansWord, okKw, this] at h
      · by_cases hh : kwHead k = w.toList
        · -- a two-word keyword whose first word stands here: the next lexeme is another word than its second word
          have h2 : twoWordNo k ls = true := by
            cases h2 : twoWordNo k ls with
            | true => rfl
            | false => simp [ansWord, hk, hh, h2] at h
          unfold twoWordNo at h2
          cases htl : kwTail k with
          | none => simp [htl] at h2
          | some tail =>
            obtain ⟨hsnd, htne, htall⟩ := kwTail_spec htl
            have hsp := spanP_split isWordChar k.toList
            cases ls with
            | nil => simp [htl] at h2
            | cons l ls' =>
              cases l with
              | sym _ => simp [htl] at h2
              | atom _ _ _ _ => simp [htl] at h2
              | word w2 =>
                have hne : tail ≠ w2.toList := by simpa [htl] using h2
                have hrest := hrest (by simp)
                cases hrest with
                | cons g _ _ r2 hg _ hok2 _ =>
                  obtain ⟨hwl2, haw2⟩ := hok2
                  obtain ⟨hall2, c2, t2, hw2⟩ := wordLike_chars hwl2
                  have hkl : k.toList = w.toList ++ ' ' :: tail := by
                    rw [hsp.1, ← hh, hsnd]; rfl
                  simp only [Lexeme.chars] at hsg'
                  simp only [answerC, Lexeme.chars, Option.map_eq_none_iff]
                  apply kw_of_kwFails
                  rw [hsg', hkl, stripPrefix_append_left]
                  exact kwTest_twoWord tail w2.toList g r2 htall htne hg hall2 (by simp [hw2]) haw2 hne
        · have hsp := spanP_split isWordChar k.toList
          have hrest := notOkKw_rest hk hke
          have := stripPrefix_kwhead_ne (spanP isWordChar k.toList).1 (spanP isWordChar k.toList).2 w.toList r
            (spanP_fst_all isWordChar k.toList) hsp.2 hrest hall haw hh
          rw [← hsp.1] at this
          simp [answerC, Lex.kw, hsg', this]
  | lit t' =>
    by_cases hcond : t' ∈ symbols ∧ t' ≠ "__"
    · obtain ⟨c', t'', ht', hnw, _, _⟩ := symbol_head t' hcond.1 hcond.2
      have hcc : c' ≠ c := fun he => by subst he; simp [hc] at hnw
      simp only [answerC, Lex.lit, ht', hw, List.cons_append, hsg2, stripPrefix]
      simp [hcc]
    · -- the dunder marker in front of a word that does not begin with `__`
      have h2 : t' = "__" ∧ startsDunder w = false := by
        simp only [ansWord] at h
        split at h
        · next hc2 => simp only [Bool.and_eq_true, decide_eq_true_eq, bne_iff_ne, ne_eq] at hc2; exact absurd hc2 hcond
        · split at h
          · next hc3 => simpa using hc3
          · cases h
      obtain ⟨rfl, hsd⟩ := h2
      simp only [answerC, Lex.lit, hsg', Option.map_eq_none_iff, dunder_head]
      unfold startsDunder at hsd
      rw [hw] at hsd ⊢
      cases t with
      | nil =>
        cases r with
        | nil => simp [stripPrefix]
        | cons c2 r2 =>
          have hk : isKwChar c2 = false := haw c2 r2 rfl
          have : c2 ≠ '_' := by intro he; subst he; simp [isKwChar, isWordChar] at hk
          simp only [List.cons_append, List.nil_append, stripPrefix]
          by_cases hcu : c = '_'
          · subst hcu; simp [this.symm]
          · simp [Ne.symm hcu]
      | cons c2 t2 =>
        simp only [List.cons_append, stripPrefix]
        by_cases hcu : c = '_'
        · subst hcu
          have : c2 ≠ '_' := by intro he; subst he; simp at hsd
          simp [this.symm]
        · simp [Ne.symm hcu]
  | eof =>
    simp only [answerC, Lex.eof, hw, List.cons_append, hsg2]
    simp
  | alpha => simp [ansWord] at h
  | stdPair =>
    by_cases hstd : w = "std"
    · subst hstd
      have h2 : stdPairNo ls = true := by
        cases h2 : stdPairNo ls with
        | true => rfl
        | false => simp [ansWord, h2] at h
      unfold stdPairNo at h2
      cases ls with
      | nil => simp at h2
      | cons l1 ls1 =>
        cases l1 with
        | word _ => simp at h2
        | atom _ _ _ _ => simp at h2
        | sym t =>
          cases ls1 with
          | nil => simp at h2
          | cons l2 ls2 =>
            cases l2 with
            | sym _ => simp at h2
            | atom _ _ _ _ => simp at h2
            | word w2 =>
              simp only [Bool.and_eq_true, beq_iff_eq, bne_iff_ne, ne_eq] at h2
              obtain ⟨ht, hw2ne⟩ := h2
              subst ht
              have hrest := hrest (by simp)
              cases hrest with
              | cons g1 _ _ r1 hg1 _ _ hsp1 =>
                cases hsp1 with
                | cons g2 _ _ r2 hg2 _ hok2 _ =>
                  obtain ⟨hwl2, haw2⟩ := hok2
                  obtain ⟨hall2, _, _, _⟩ := wordLike_chars hwl2
                  have hts2 : TokStart (w2.toList ++ r2) := tokStart_of_lexOK (l := .word w2) ⟨hwl2, haw2⟩
                  simp only [Lexeme.chars] at hsg'
                  simp only [answerC, Lexeme.chars, Option.map_eq_none_iff, Lex.stdPair, Lex.lit]
                  rw [hsg']
                  have e : "std::".toList = "std".toList ++ "::".toList := by decide
                  rw [e, stripPrefix_append_left]
                  by_cases hg1e : g1 = []
                  · subst hg1e
                    simp only [List.nil_append, List.append_assoc, stripPrefix_append]
                    have hk := kw_word_ne "pair" w2 r2 (by decide) hall2 haw2
                      (fun he => hw2ne (String.ext he).symm) (skipGap_tokStart hts2)
                    unfold Lex.kw at hk ⊢
                    rw [List.append_assoc] at *
                    rw [skipGap_gap hg2 hts2]
                    rw [skipGap_tokStart hts2] at hk
                    exact hk
                  · have e2 : "::".toList = ':' :: [':'] := by decide
                    have := stripPrefix_gap_none hg1 hg1e ':' [':'] ("::".toList ++ (g2 ++ w2.toList ++ r2)) (by decide) (by decide)
                    rw [e2] at this ⊢
                    simp only [List.append_assoc] at this ⊢
                    rw [this]
    · have hne : "std".toList ≠ w.toList := fun he => hstd (String.ext he).symm
      have := stripPrefix_kwhead_ne "std".toList "::".toList w.toList r (by decide) (by intro c t he; cases he; decide) (by decide) hall haw hne
      have e : "std::".toList = "std".toList ++ "::".toList := by decide
      simp only [answerC, Lex.stdPair, Lex.lit, hsg', Option.map_eq_none_iff]
      rw [e, this]
  | opsym => simp [ansWord] at h
  | dflt => simp [ansWord] at h
  | header => simp [ansWord] at h

theorem agree_word (q : Q) {g : Src} {w : String} {ls : List Lexeme} {r : Src} (hg : Gap g) (hok : LexOK (.word w) r)
    (hrest : Spells ls r) : Agree q (.word w :: ls) (g ++ (Lexeme.word w).chars ++ r) := by
  obtain ⟨hsg', hred⟩ := reduce_gap hg hok
  obtain ⟨hwl, haw⟩ := hok
  simp only [Lexeme.chars] at hsg' hred ⊢
  have hno : answerL q (.word w :: ls) = .no → answerC q (g ++ w.toList ++ r) = none := by
    intro h
    by_cases hh : q = .header
    · subst hh; simp [answerL, ansWord] at h
    · rw [hred q hh]; exact word_no q ls hwl haw hsg' (fun _ => hrest) h
  refine ⟨fun tk ls' h => ?_, hno⟩
  cases q with
  | word =>
    simp only [answerL, ansWord, Ans.yes.injEq] at h
    obtain ⟨rfl, rfl⟩ := h
    refine ⟨r, ?_, hrest⟩
    rw [hred .word (by simp)]
    simp [answerC, word_read hwl haw hsg']
  | kw k =>
    cases hk : okKw k with
    | true =>
      by_cases hwk : w = k
      · subst hwk
        simp only [answerL, ansWord, hk, if_true, beq_self_eq_true, Ans.yes.injEq] at h
        obtain ⟨rfl, rfl⟩ := h
        refine ⟨r, ?_, hrest⟩
        rw [hred (.kw w) (by simp)]
        simp [answerC, kw_word_eq w r haw hsg']
      · simp [answerL, ansWord, hk, hwk] at h
    | false =>
      simp only [answerL, ansWord, hk, Bool.false_eq_true, if_false] at h
      split at h
      · cases h
      · split at h <;> cases h
  | lit t' =>
    simp only [answerL, ansWord] at h
    split at h
    · cases h
    · split at h <;> cases h
  | eof => simp [answerL, ansWord] at h
  | alpha => simp [answerL, ansWord] at h
  | stdPair =>
    simp only [answerL, ansWord] at h
    split at h
    · cases h
    · split at h <;> cases h
  | opsym => simp [answerL, ansWord] at h
  | dflt => simp [answerL, ansWord] at h
  | header => simp [answerL, ansWord] at h

end WrapModel.Tok

namespace WrapModel.Tok
open WrapModel WrapModel.Lex

theorem agree_sym (q : Q) {g : Src} {t : String} {ls : List Lexeme} {r : Src} (hg : Gap g) (hok : LexOK (.sym t) r)
    (hrest : Spells ls r) (hd : (t == "__") = false) : Agree q (.sym t :: ls) (g ++ (Lexeme.sym t).chars ++ r) := by
  obtain ⟨hsg', hred⟩ := reduce_gap hg hok
  obtain ⟨hsym, hcolon⟩ := hok
  have hd' : t ≠ "__" := by simpa using hd
  obtain ⟨c, tl, ht, hnw, _, _⟩ := symbol_head t hsym hd'
  simp only [Lexeme.chars] at hsg' hred ⊢
  have hsg2 : skipGap (c :: (tl ++ r)) = c :: (tl ++ r) := by simpa [ht] using hsg'
  cases q with
  | word =>
    refine ⟨fun tk ls' h => by simp [answerL, hd, ansSym] at h, fun _ => ?_⟩
    have h1 : isWordStart c = false := by
      cases hs : isWordStart c with
      | false => rfl
      | true => simp [isWordChar, isWordStart] at hnw hs; rcases hs with hs | hs <;> simp [hs] at hnw
    have h2 : isDigit c = false := by
      cases hdg : isDigit c with
      | false => rfl
      | true => simp [isWordChar, hdg] at hnw
    rw [hred .word (by simp)]
    simp only [answerC, Lex.word, ht, List.cons_append, hsg2]
    simp [h1, h2]
  | kw k =>
    cases hk : okKw k with
    | false => exact ⟨fun tk ls' h => by simp [answerL, hd, ansSym, hk] at h, fun h => by simp [answerL, hd, ansSym, hk] at h⟩
    | true =>
      refine ⟨fun tk ls' h => by simp [answerL, hd, ansSym, hk] at h, fun _ => ?_⟩
      obtain ⟨hkall, kc, kt, hkl⟩ := okKw_spec hk
      have hkc : isWordChar kc = true := hkall kc (by simp [hkl])
      have hcc : kc ≠ c := fun he => by subst he; simp [hkc] at hnw
      rw [hred (.kw k) (by simp)]
      simp only [answerC, Lex.kw, ht, List.cons_append, hsg2, hkl, stripPrefix]
      simp [hcc]
  | lit t' =>
    cases heq : t' == t with
    | true =>
      have : t' = t := by simpa using heq
      subst this
      refine ⟨fun tk ls' h => ?_, fun h => by simp [answerL, hd, ansSym] at h⟩
      simp only [answerL, hd, ansSym, beq_self_eq_true, if_true, Bool.false_eq_true, if_false, Ans.yes.injEq] at h
      obtain ⟨rfl, rfl⟩ := h
      refine ⟨r, ?_, hrest⟩
      rw [hred (.lit t') (by simp)]
      simp [answerC, Lex.lit, hsg', stripPrefix_append]
    | false =>
      cases hcol : (t' == "::" && t == ":") with
      | true =>
        simp only [Bool.and_eq_true, beq_iff_eq] at hcol
        obtain ⟨rfl, rfl⟩ := hcol
        refine ⟨fun tk ls' h => by simp [answerL, ansSym] at h, fun _ => ?_⟩
        rw [hred (.lit "::") (by simp)]
        have hnc := hcolon rfl
        have e1 : "::".toList = ':' :: [':'] := by decide
        have e2 : ":".toList = [':'] := by decide
        have hsg3 : skipGap (':' :: r) = ':' :: r := by simpa [e2] using hsg'
        simp only [answerC, Lex.lit, Option.map_eq_none_iff, e1, e2, List.cons_append, List.nil_append, hsg3]
        cases r with
        | nil => simp [stripPrefix]
        | cons c2 r2 =>
          have : c2 ≠ ':' := hnc c2 r2 rfl
          simp [stripPrefix, this.symm]
      | false =>
      cases hpre : (isPrefixOfS t' t || isPrefixOfS t t') with
      | true => exact ⟨fun tk ls' h => by simp [answerL, hd, ansSym, heq, hpre, hcol] at h, fun h => by simp [answerL, hd, ansSym, heq, hpre, hcol] at h⟩
      | false =>
        refine ⟨fun tk ls' h => (by by_cases hm : t' ∈ symbols <;> simp [answerL, hd, ansSym, heq, hpre, hm, hcol] at h), fun _ => ?_⟩
        simp only [Bool.or_eq_false_iff, isPrefixOfS] at hpre
        rw [hred (.lit t') (by simp)]
        simp [answerC, Lex.lit, hsg', stripPrefix_incomparable t'.toList t.toList r hpre.1 hpre.2]
  | eof =>
    refine ⟨fun tk ls' h => by simp [answerL, hd, ansSym] at h, fun _ => ?_⟩
    rw [hred .eof (by simp)]
    simp only [answerC, Lex.eof, ht, List.cons_append, hsg2]
    simp
  | alpha => exact ⟨fun t ls' h => by simp [answerL, hd, ansSym] at h, fun h => by simp [answerL, hd, ansSym] at h⟩
  | stdPair => exact ⟨fun t ls' h => by simp [answerL, hd, ansSym] at h, fun h => by simp [answerL, hd, ansSym] at h⟩
  | opsym => exact ⟨fun t ls' h => by simp [answerL, hd, ansSym] at h, fun h => by simp [answerL, hd, ansSym] at h⟩
  | dflt => exact ⟨fun t ls' h => by simp [answerL, hd, ansSym] at h, fun h => by simp [answerL, hd, ansSym] at h⟩
  | header => exact ⟨fun t ls' h => by simp [answerL, hd, ansSym] at h, fun h => by simp [answerL, hd, ansSym] at h⟩

theorem agree_dunder (q : Q) {g : Src} {ls : List Lexeme} {r : Src} (hg : Gap g) (hok : LexOK (.sym "__") r)
    (hrest : Spells ls r) : Agree q (.sym "__" :: ls) (g ++ (Lexeme.sym "__").chars ++ r) := by
  obtain ⟨hsg', hred⟩ := reduce_gap hg hok
  simp only [Lexeme.chars] at hsg' hred ⊢
  have hdd : ("__" == "__") = true := rfl
  cases q with
  | lit t' =>
    cases heq : t' == "__" with
    | false =>
      refine ⟨fun tk ls' h => ?_, fun h => ?_⟩
      · simp only [answerL, hdd, if_true, ansDunder, heq, Bool.false_eq_true, if_false] at h
        split at h <;> cases h
      · have hmem : t' ∈ symbols := by
          simp only [answerL, hdd, if_true, ansDunder, heq, Bool.false_eq_true, if_false] at h
          split at h
          · assumption
          · cases h
        have hne' : t' ≠ "__" := by simpa using heq
        obtain ⟨c', t'', ht', hnw, _, _⟩ := symbol_head t' hmem hne'
        have hcc : c' ≠ '_' := fun he => by subst he; simp [isWordChar] at hnw
        rw [hred (.lit t') (by simp)]
        have h2 : skipGap ('_' :: '_' :: r) = '_' :: '_' :: r := by simpa using hsg'
        simp only [answerC, Lex.lit, dunder_head, List.cons_append, List.nil_append, h2, ht', stripPrefix, Option.map_eq_none_iff]
        simp [hcc]
    | true =>
      have : t' = "__" := by simpa using heq
      subst this
      refine ⟨fun tk ls' h => ?_, fun h => by simp [answerL, ansDunder] at h⟩
      simp only [answerL, hdd, if_true, ansDunder, Ans.yes.injEq] at h
      obtain ⟨rfl, rfl⟩ := h
      refine ⟨r, ?_, hrest⟩
      rw [hred (.lit "__") (by simp)]
      have h2 : skipGap ('_' :: '_' :: r) = '_' :: '_' :: r := by simpa using hsg'
      simp only [answerC, Lex.lit, dunder_head, List.cons_append, List.nil_append, h2, stripPrefix]
      simp
  | eof =>
    refine ⟨fun tk ls' h => by simp [answerL, ansDunder] at h, fun _ => ?_⟩
    rw [hred .eof (by simp)]
    have : skipGap ('_' :: '_' :: r) = '_' :: '_' :: r := by simpa using hsg'
    simp only [answerC, Lex.eof]
    simp [dunder_head, this]
  | word => exact ⟨fun t ls' h => by simp [answerL, ansDunder] at h, fun h => by simp [answerL, ansDunder] at h⟩
  | kw k => exact ⟨fun t ls' h => by simp [answerL, ansDunder] at h, fun h => by simp [answerL, ansDunder] at h⟩
  | alpha => exact ⟨fun t ls' h => by simp [answerL, ansDunder] at h, fun h => by simp [answerL, ansDunder] at h⟩
  | stdPair => exact ⟨fun t ls' h => by simp [answerL, ansDunder] at h, fun h => by simp [answerL, ansDunder] at h⟩
  | opsym => exact ⟨fun t ls' h => by simp [answerL, ansDunder] at h, fun h => by simp [answerL, ansDunder] at h⟩
  | dflt => exact ⟨fun t ls' h => by simp [answerL, ansDunder] at h, fun h => by simp [answerL, ansDunder] at h⟩
  | header => exact ⟨fun t ls' h => by simp [answerL, ansDunder] at h, fun h => by simp [answerL, ansDunder] at h⟩

theorem agree_atom (q : Q) {g : Src} {q' : Q} {text tok lead : String} {ls : List Lexeme} {r : Src} (hg : Gap g)
    (hhdr : q' = .header → g = []) (hok : LexOK (.atom q' text tok lead) r) (hrest : Spells ls r) :
    Agree q (.atom q' text tok lead :: ls) (g ++ (Lexeme.atom q' text tok lead).chars ++ r) := by
  obtain ⟨hsg', hred⟩ := reduce_gap hg hok
  obtain ⟨hqe, _, hne, hans, hlead⟩ := hok
  simp only [Lexeme.chars] at hsg' hred ⊢
  by_cases heq : q = q'
  · subst heq
    refine ⟨fun tk ls' h => ?_, fun h => by simp [answerL, ansAtom] at h⟩
    simp only [answerL, ansAtom, if_true, Ans.yes.injEq] at h
    obtain ⟨rfl, rfl⟩ := h
    refine ⟨r, ?_, hrest⟩
    by_cases hh : q = .header
    · have : g = [] := hhdr hh
      subst this
      simpa using hans
    · rw [hred q hh]; exact hans
  · by_cases hqeof : q = .eof
    · subst hqeof
      refine ⟨fun tk ls' h => by simp [answerL, ansAtom, heq] at h, fun _ => ?_⟩
      rw [hred .eof (by simp)]
      cases htl : text.toList with
      | nil => exact absurd htl hne
      | cons c t =>
        have : skipGap (c :: (t ++ r)) = c :: (t ++ r) := by simpa [htl] using hsg'
        simp only [answerC, Lex.eof, htl, List.cons_append, this]
        simp
    · cases hinc : kwIncomparable q q' with
      | true =>
        -- two keywords, neither a prefix of the other
        refine ⟨fun tk ls' h => by simp [answerL, ansAtom, heq, hinc] at h, fun _ => ?_⟩
        -- in both cases the atom is a keyword, and its text is that keyword
        have hkwtext : ∀ k', q' = .kw k' → text.toList = k'.toList := by
          intro k' hq'
          subst hq'
          have hts : skipGap (text.toList ++ r) = text.toList ++ r := hsg'
          simp only [answerC, Option.map_eq_some_iff, Prod.mk.injEq] at hans
          obtain ⟨r0, hkw, _, hr0⟩ := hans
          subst hr0
          unfold Lex.kw at hkw
          rw [hts] at hkw
          have hsp : stripPrefix k'.toList (text.toList ++ r0) = some r0 := by
            cases hs : stripPrefix k'.toList (text.toList ++ r0) with
            | none => simp [hs] at hkw
            | some x =>
              cases x with
              | nil => simp [hs] at hkw; simp [← hkw]
              | cons c t =>
                simp only [hs] at hkw
                split at hkw
                · cases hkw
                · simpa using hkw
          exact List.append_cancel_right (stripPrefix_some hsp)
        cases q with
        | kw k =>
          cases q' with
          | kw k' =>
            simp only [kwIncomparable, Bool.and_eq_true, Bool.not_eq_true'] at hinc
            have htxt := hkwtext k' rfl
            have hts : skipGap (text.toList ++ r) = text.toList ++ r := hsg'
            rw [hred (.kw k) (by simp)]
            simp only [answerC, Option.map_eq_none_iff]
            unfold Lex.kw
            rw [hts, htxt, stripPrefix_incomparable k.toList k'.toList r hinc.1 hinc.2]
          | _ => simp [kwIncomparable] at hinc
        | lit x =>
          cases q' with
          | kw k' =>
            simp only [kwIncomparable, Bool.and_eq_true, Bool.not_eq_true'] at hinc
            have htxt := hkwtext k' rfl
            have hts : skipGap (text.toList ++ r) = text.toList ++ r := hsg'
            rw [hred (.lit x) (by simp)]
            simp only [answerC, Option.map_eq_none_iff]
            unfold Lex.lit
            rw [hts, htxt, stripPrefix_incomparable x.toList k'.toList r hinc.1 hinc.2]
          | _ => simp [kwIncomparable] at hinc
        | _ => simp [kwIncomparable] at hinc
      | false =>
      -- a foreign request: decided by the leading word, if the atom has one
      have hshape : answerL q (.atom q' text tok lead :: ls) =
          (if lead != "" then (match ansWord q lead [] with | .no => .no | _ => .stuck) else .stuck) := by
        simp only [answerL, ansAtom, heq, if_false, hinc, Bool.false_eq_true]
        cases q <;> first | rfl | exact absurd rfl hqeof
      refine ⟨fun tk ls' h => ?_, fun h => ?_⟩
      · rw [hshape] at h
        split at h
        · split at h <;> cases h
        · cases h
      · rw [hshape] at h
        split at h
        · next hl =>
          have hl' : lead ≠ "" := by simpa using hl
          rcases hlead with hl0 | ⟨tail, htxt, hwl, haw⟩
          · exact absurd hl0 hl'
          · have hno : ansWord q lead [] = .no := by
              split at h
              · assumption
              · cases h
            by_cases hh : q = .header
            · subst hh; simp [ansWord] at hno
            · rw [hred q hh, htxt, List.append_assoc]
              have hsg2 : skipGap (lead.toList ++ (tail ++ r)) = lead.toList ++ (tail ++ r) := by
                rw [← List.append_assoc, ← htxt]; exact hsg'
              exact word_no q [] hwl haw hsg2 (fun h => absurd rfl h) hno
        · cases h

/-- AGREEMENT for every request and every spelling -/
theorem answer_agree (q : Q) {ls : List Lexeme} {s : Src} (hs : Spells ls s) : Agree q ls s := by
  cases hs with
  | nil g hg => exact agree_nil q hg
  | cons g l ls r hg hhdr hok hrest =>
    cases l with
    | word w => exact agree_word q hg hok hrest
    | sym t =>
      cases hd : t == "__" with
      | false => exact agree_sym q hg hok hrest hd
      | true =>
        have : t = "__" := by simpa using hd
        subst this
        exact agree_dunder q hg hok hrest
    | atom q' text tok lead =>
      exact agree_atom q hg (fun hq => by subst hq; exact hhdr text tok lead rfl) hok hrest

/-! ### the generic lift: every parser program, every spelling -/

/-- LIFT.  If the lexeme-level run of a parser program reaches a definite outcome (it never gets stuck), then the
    character-level run on ANY spelling of the lexemes reaches the same outcome. -/
theorem lift (p : P α) : ∀ {ls : List Lexeme} {s : Src}, Spells ls s →
    (∀ a ls', runL p ls = .ok a ls' → ∃ s', p.run s = .ok (a, s') ∧ Spells ls' s') ∧
    (∀ e, runL p ls = .err e → p.run s = .error e) := by
  induction p with
  | ret a =>
    intro ls s hs
    refine ⟨fun a' ls' h => ?_, fun e h => by simp [runL] at h⟩
    simp only [runL, Outcome.ok.injEq] at h
    obtain ⟨rfl, rfl⟩ := h
    exact ⟨s, rfl, hs⟩
  | fail e =>
    intro ls s hs
    refine ⟨fun a' ls' h => by simp [runL] at h, fun e' h => ?_⟩
    simp only [runL, Outcome.err.injEq] at h
    subst h; rfl
  | ask q k ih =>
    intro ls s hs
    obtain ⟨hyes, hno⟩ := answer_agree q hs
    cases hq : answerL q ls with
    | yes t r =>
      obtain ⟨s', hc, hs'⟩ := hyes t r hq
      have := ih (some t) hs'
      simp only [runL, hq, P.run, hc]
      exact this
    | no =>
      have hc := hno hq
      have := ih none hs
      simp only [runL, hq, P.run, hc]
      exact this
    | stuck =>
      exact ⟨fun a ls' h => by simp [runL, hq] at h, fun e h => by simp [runL, hq] at h⟩

end WrapModel.Tok
