/-
  Evaluation lemmas for parser programs on lexeme lists (`runL`): sequencing and the primitive requests.
-/
import WrapModel.Model.Tok
import WrapModel.Model.Parse

namespace WrapModel.Tok
open WrapModel WrapModel.Lex

/-- sequencing of outcomes -/
def Outcome.bind : Outcome α → (α → List Lexeme → Outcome β) → Outcome β
  | .ok a r, f => f a r
  | .err e, _ => .err e
  | .stuck, _ => .stuck

@[simp] theorem Outcome.bind_ok (a : α) (r : List Lexeme) (f : α → List Lexeme → Outcome β) : (Outcome.ok a r).bind f = f a r := rfl
@[simp] theorem Outcome.bind_err (e : Err) (f : α → List Lexeme → Outcome β) : (Outcome.err e : Outcome α).bind f = .err e := rfl
@[simp] theorem Outcome.bind_stuck (f : α → List Lexeme → Outcome β) : (Outcome.stuck : Outcome α).bind f = .stuck := rfl

theorem runL_bind (p : P α) (f : α → P β) (ls : List Lexeme) :
    runL (p >>= f) ls = (runL p ls).bind (fun a r => runL (f a) r) := by
  show runL (P.bind p f) ls = _
  induction p generalizing ls with
  | ret a => rfl
  | fail e => rfl
  | ask q k ih =>
    simp only [P.bind, runL]
    cases answerL q ls with
    | yes t r => exact ih _ _
    | no => exact ih _ _
    | stuck => rfl

@[simp] theorem runL_pure (a : α) (ls : List Lexeme) : runL (pure a : P α) ls = .ok a ls := rfl
@[simp] theorem runL_ret (a : α) (ls : List Lexeme) : runL (P.ret a) ls = .ok a ls := rfl
@[simp] theorem runL_fail (e : Err) (ls : List Lexeme) : runL (P.fail e : P α) ls = .err e := rfl

theorem runL_probe (q : Q) (ls : List Lexeme) :
    runL (P.probe q) ls = match answerL q ls with
      | .yes _ r => .ok true r
      | .no => .ok false ls
      | .stuck => .stuck := by
  simp only [P.probe, runL]
  cases answerL q ls <;> rfl

theorem runL_need (q : Q) (ls : List Lexeme) :
    runL (P.need q) ls = match answerL q ls with
      | .yes t r => .ok t r
      | .no => .err .parse
      | .stuck => .stuck := by
  simp only [P.need, runL]
  cases answerL q ls <;> rfl

theorem runL_expect (q : Q) (ls : List Lexeme) :
    runL (P.expect q) ls = match answerL q ls with
      | .yes _ r => .ok () r
      | .no => .err .parse
      | .stuck => .stuck := by
  simp only [P.expect, runL]
  cases answerL q ls <;> rfl

end WrapModel.Tok
