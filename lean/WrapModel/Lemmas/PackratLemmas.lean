/-
  Lemmas for `WrapModel.Model.Packrat` (property C19).
-/
import WrapModel.Model.Packrat

namespace WrapModel.Packrat

/-! ## 1. Generic invariants of `step` -/

section StepInv
variable {σ : Type} (call : Call σ) (I : σ → Prop) (Good : Out → Prop)

theorem bind_inv
    (hcall : ∀ k s, I s → I (call k s).2 ∧ Good (call k s).1)
    (k : Key) (s : σ) (cont : Option Nat → σ → Out × σ) (hs : I s)
    (hcont : ∀ r s', I s' → I (cont r s').2 ∧ Good (cont r s').1) :
    I (bind call k s cont).2 ∧ Good (bind call k s cont).1 := by
  have h := hcall k s hs
  unfold bind
  split
  · next r s' heq => rw [heq] at h; exact hcont r s' h.1
  · next s' heq => rw [heq] at h; exact h
  · next s' heq => rw [heq] at h; exact h

/-- If every sub-evaluation preserves the state invariant `I` and produces `Good` outcomes,
    so does a whole `step`. -/
theorem step_inv
    (hdone : ∀ r, Good (.done r))
    (hcall : ∀ k s, I s → I (call k s).2 ∧ Good (call k s).1)
    (e : Expr) (self : Nat) (inp : List Char) (p : Nat) (da : Bool) (s : σ) (hs : I s) :
    I (step call e self inp p da s).2 ∧ Good (step call e self inp p da s).1 := by
  cases e <;> simp only [step]
  case lit cs => exact ⟨hs, hdone _⟩
  case chr cs => exact ⟨hs, hdone _⟩
  case seq a b =>
    apply bind_inv call I Good hcall _ _ _ hs
    intro r s' hs'
    cases r
    · exact ⟨hs', hdone _⟩
    · exact hcall _ _ hs'
  case alt a b =>
    apply bind_inv call I Good hcall _ _ _ hs
    intro r s' hs'
    cases r
    · exact hcall _ _ hs'
    · exact ⟨hs', hdone _⟩
  case orL a b =>
    apply bind_inv call I Good hcall _ _ _ hs
    intro ra s1 hs1
    apply bind_inv call I Good hcall _ _ _ hs1
    intro rb s2 hs2
    cases pickLongest ra rb
    · exact ⟨hs2, hdone _⟩
    · exact hcall _ _ hs2
  case opt a =>
    apply bind_inv call I Good hcall _ _ _ hs
    intro r s' hs'
    cases r <;> exact ⟨hs', hdone _⟩
  case star a =>
    apply bind_inv call I Good hcall _ _ _ hs
    intro r s' hs'
    cases r
    · exact ⟨hs', hdone _⟩
    · simp only []
      split
      · exact hcall _ _ hs'
      · exact ⟨hs', hdone _⟩
  case plus a =>
    apply bind_inv call I Good hcall _ _ _ hs
    intro r s' hs'
    cases r
    · exact ⟨hs', hdone _⟩
    · simp only []
      split
      · apply bind_inv call I Good hcall _ _ _ hs'
        intro r2 s2 hs2
        cases r2 <;> exact ⟨hs2, hdone _⟩
      · exact ⟨hs', hdone _⟩
  case notP a =>
    apply bind_inv call I Good hcall _ _ _ hs
    intro r s' hs'
    cases r <;> exact ⟨hs', hdone _⟩
  case ref a => exact hcall _ _ hs

end StepInv

/-! ## 2. Extension (fuel monotonicity) -/

section Ext
variable {σ : Type}

theorem bind_done {call : Call σ} {k : Key} {s : σ} {cont : Option Nat → σ → Out × σ}
    {r : Option Nat} {s' : σ} (h : bind call k s cont = (.done r, s')) :
    ∃ r1 s1, call k s = (.done r1, s1) ∧ cont r1 s1 = (.done r, s') := by
  unfold bind at h
  split at h
  · next r1 s1 heq => exact ⟨r1, s1, heq, h⟩
  · simp at h
  · simp at h

theorem bind_eq_of_call {call : Call σ} {k : Key} {s : σ} {cont : Option Nat → σ → Out × σ}
    {r1 : Option Nat} {s1 : σ} (h : call k s = (.done r1, s1)) :
    bind call k s cont = cont r1 s1 := by
  unfold bind; rw [h]

/-- `call'` agrees with `call` wherever `call` finishes. -/
def Ext (call call' : Call σ) : Prop :=
  ∀ k s r s', call k s = (.done r, s') → call' k s = (.done r, s')

theorem step_ext {call call' : Call σ} (hx : Ext call call')
    (e : Expr) (self : Nat) (inp : List Char) (p : Nat) (da : Bool) (s : σ)
    (r : Option Nat) (s' : σ)
    (h : step call e self inp p da s = (.done r, s')) :
    step call' e self inp p da s = (.done r, s') := by
  cases e <;> simp only [step] at h ⊢
  case lit cs => exact h
  case chr cs => exact h
  case seq a b =>
    obtain ⟨r1, s1, h1, h2⟩ := bind_done h
    rw [bind_eq_of_call (hx _ _ _ _ h1)]
    cases r1
    · exact h2
    · exact hx _ _ _ _ h2
  case alt a b =>
    obtain ⟨r1, s1, h1, h2⟩ := bind_done h
    rw [bind_eq_of_call (hx _ _ _ _ h1)]
    cases r1
    · exact hx _ _ _ _ h2
    · exact h2
  case orL a b =>
    obtain ⟨r1, s1, h1, h2⟩ := bind_done h
    obtain ⟨r2, s2, h3, h4⟩ := bind_done h2
    rw [bind_eq_of_call (hx _ _ _ _ h1), bind_eq_of_call (hx _ _ _ _ h3)]
    cases hp : pickLongest r1 r2 <;> rw [hp] at h4
    · exact h4
    · exact hx _ _ _ _ h4
  case opt a =>
    obtain ⟨r1, s1, h1, h2⟩ := bind_done h
    rw [bind_eq_of_call (hx _ _ _ _ h1)]
    exact h2
  case star a =>
    obtain ⟨r1, s1, h1, h2⟩ := bind_done h
    rw [bind_eq_of_call (hx _ _ _ _ h1)]
    cases r1
    · exact h2
    · simp only [] at h2 ⊢
      split at h2
      · next hlt => rw [if_pos hlt]; exact hx _ _ _ _ h2
      · next hlt => rw [if_neg hlt]; exact h2
  case plus a =>
    obtain ⟨r1, s1, h1, h2⟩ := bind_done h
    rw [bind_eq_of_call (hx _ _ _ _ h1)]
    cases r1
    · exact h2
    · simp only [] at h2 ⊢
      split at h2
      · next hlt =>
        rw [if_pos hlt]
        obtain ⟨r3, s3, h5, h6⟩ := bind_done h2
        rw [bind_eq_of_call (hx _ _ _ _ h5)]
        exact h6
      · next hlt => rw [if_neg hlt]; exact h2
  case notP a =>
    obtain ⟨r1, s1, h1, h2⟩ := bind_done h
    rw [bind_eq_of_call (hx _ _ _ _ h1)]
    exact h2
  case ref a => exact hx _ _ _ _ h

end Ext

/-- One more unit of fuel does not change a finished un-memoised evaluation (result AND count). -/
theorem plain_succ (G : Grammar) (inp : List Char) (f : Nat) :
    Ext (plain G inp f) (plain G inp (f + 1)) := by
  induction f with
  | zero => intro k s r s' h; simp [plain] at h
  | succ f ih =>
    intro k s r s' h
    rw [plain] at h ⊢
    split
    · next hg => rw [hg] at h; exact h
    · next e hg =>
      rw [hg] at h
      simp only [] at h
      split
      · next hp => rw [if_pos hp] at h; exact step_ext ih _ _ _ _ _ _ _ _ h
      · next hp => rw [if_neg hp] at h; exact h

theorem plain_mono (G : Grammar) (inp : List Char) {f f' : Nat} (hle : f ≤ f') :
    Ext (plain G inp f) (plain G inp f') := by
  induction hle with
  | refl => intro k s r s' h; exact h
  | step _ ih => intro k s r s' h; exact plain_succ G inp _ _ _ _ _ (ih _ _ _ _ h)

/-- Result at fuel `f`, for every counter value. -/
def DenAt (G : Grammar) (inp : List Char) (f : Nat) (k : Key) (r : Option Nat) : Prop :=
  ∀ c, (plain G inp f k c).1 = .done r

theorem DenAt.mono {G : Grammar} {inp : List Char} {f f' : Nat} {k : Key} {r : Option Nat}
    (h : DenAt G inp f k r) (hle : f ≤ f') : DenAt G inp f' k r := by
  intro c
  have h1 := h c
  have : plain G inp f k c = (.done r, (plain G inp f k c).2) := by
    rw [← h1]
  rw [plain_mono G inp hle _ _ _ _ this]

theorem den_iff {G : Grammar} {inp : List Char} {k : Key} {r : Option Nat} :
    Den G inp k r ↔ ∃ f, DenAt G inp f k r := Iff.rfl

/-! ## 3. Simulation of any sound engine by the plain engine -/

theorem bind_plain {call : Call Nat} {k : Key} {c : Nat} {cont : Option Nat → Nat → Out × Nat}
    {r1 : Option Nat} (h : (call k c).1 = .done r1) :
    bind call k c cont = cont r1 (call k c).2 := by
  unfold bind
  cases hc : call k c with
  | mk o c' => rw [hc] at h; simp at h; subst h; rfl

/-- If every finished sub-evaluation of an engine `call₁` preserves the state invariant `P`
    and agrees with the plain engine, then so does a whole `step` of it. -/
theorem step_sim {σ : Type} (G : Grammar) (inp : List Char) (call₁ : Call σ) (P : σ → Prop)
    (H : ∀ k s r s', P s → call₁ k s = (.done r, s') → P s' ∧ Den G inp k r)
    (e : Expr) (self : Nat) (p : Nat) (da : Bool) (s : σ) (r : Option Nat) (s' : σ)
    (hs : P s) (h : step call₁ e self inp p da s = (.done r, s')) :
    P s' ∧ ∃ F, ∀ c, (step (plain G inp F) e self inp p da c).1 = .done r := by
  cases e <;> simp only [step] at h
  case lit cs =>
    simp only [Prod.mk.injEq, Out.done.injEq] at h
    obtain ⟨h1, h2⟩ := h; subst h2
    exact ⟨hs, 0, fun c => by simp only [step]; rw [h1]⟩
  case chr cs =>
    simp only [Prod.mk.injEq, Out.done.injEq] at h
    obtain ⟨h1, h2⟩ := h; subst h2
    exact ⟨hs, 0, fun c => by simp only [step]; rw [h1]⟩
  case seq a b =>
    obtain ⟨r1, s1, h1, h2⟩ := bind_done h
    obtain ⟨hs1, F1, D1⟩ := H _ _ _ _ hs h1
    cases r1
    · simp only [Prod.mk.injEq, Out.done.injEq] at h2
      obtain ⟨h3, h4⟩ := h2; subst h3; subst h4
      exact ⟨hs1, F1, fun c => by simp only [step]; rw [bind_plain (D1 c)]⟩
    · next q =>
      obtain ⟨hs2, F2, D2⟩ := H _ _ _ _ hs1 h2
      refine ⟨hs2, max F1 F2, fun c => ?_⟩
      have A := DenAt.mono D1 (Nat.le_max_left F1 F2)
      have B := DenAt.mono D2 (Nat.le_max_right F1 F2)
      simp only [step]; rw [bind_plain (A c)]; exact B _
  case alt a b =>
    obtain ⟨r1, s1, h1, h2⟩ := bind_done h
    obtain ⟨hs1, F1, D1⟩ := H _ _ _ _ hs h1
    cases r1
    · obtain ⟨hs2, F2, D2⟩ := H _ _ _ _ hs1 h2
      refine ⟨hs2, max F1 F2, fun c => ?_⟩
      have A := DenAt.mono D1 (Nat.le_max_left F1 F2)
      have B := DenAt.mono D2 (Nat.le_max_right F1 F2)
      simp only [step]; rw [bind_plain (A c)]; exact B _
    · next q =>
      simp only [Prod.mk.injEq, Out.done.injEq] at h2
      obtain ⟨h3, h4⟩ := h2; subst h3; subst h4
      exact ⟨hs1, F1, fun c => by simp only [step]; rw [bind_plain (D1 c)]⟩
  case orL a b =>
    obtain ⟨r1, s1, h1, h2⟩ := bind_done h
    obtain ⟨r2, s2, h3, h4⟩ := bind_done h2
    obtain ⟨hs1, F1, D1⟩ := H _ _ _ _ hs h1
    obtain ⟨hs2, F2, D2⟩ := H _ _ _ _ hs1 h3
    cases hp : pickLongest r1 r2 <;> rw [hp] at h4
    · simp only [Prod.mk.injEq, Out.done.injEq] at h4
      obtain ⟨h5, h6⟩ := h4; subst h5; subst h6
      refine ⟨hs2, max F1 F2, fun c => ?_⟩
      have A := DenAt.mono D1 (Nat.le_max_left F1 F2)
      have B := DenAt.mono D2 (Nat.le_max_right F1 F2)
      simp only [step]; rw [bind_plain (A c), bind_plain (B _), hp]
    · next w =>
      obtain ⟨hs3, F3, D3⟩ := H _ _ _ _ hs2 h4
      refine ⟨hs3, max F1 (max F2 F3), fun c => ?_⟩
      have A := DenAt.mono D1 (Nat.le_max_left F1 (max F2 F3))
      have B := DenAt.mono D2 (Nat.le_trans (Nat.le_max_left F2 F3) (Nat.le_max_right F1 _))
      have C := DenAt.mono D3 (Nat.le_trans (Nat.le_max_right F2 F3) (Nat.le_max_right F1 _))
      simp only [step]; rw [bind_plain (A c), bind_plain (B _), hp]; exact C _
  case opt a =>
    obtain ⟨r1, s1, h1, h2⟩ := bind_done h
    obtain ⟨hs1, F1, D1⟩ := H _ _ _ _ hs h1
    cases r1 <;>
    · simp only [Prod.mk.injEq, Out.done.injEq] at h2
      obtain ⟨h3, h4⟩ := h2; subst h3; subst h4
      exact ⟨hs1, F1, fun c => by simp only [step]; rw [bind_plain (D1 c)]⟩
  case star a =>
    obtain ⟨r1, s1, h1, h2⟩ := bind_done h
    obtain ⟨hs1, F1, D1⟩ := H _ _ _ _ hs h1
    cases r1
    · simp only [Prod.mk.injEq, Out.done.injEq] at h2
      obtain ⟨h3, h4⟩ := h2; subst h3; subst h4
      exact ⟨hs1, F1, fun c => by simp only [step]; rw [bind_plain (D1 c)]⟩
    · next q =>
      simp only [] at h2
      split at h2
      · next hlt =>
        obtain ⟨hs2, F2, D2⟩ := H _ _ _ _ hs1 h2
        refine ⟨hs2, max F1 F2, fun c => ?_⟩
        have A := DenAt.mono D1 (Nat.le_max_left F1 F2)
        have B := DenAt.mono D2 (Nat.le_max_right F1 F2)
        simp only [step]; rw [bind_plain (A c)]; simp only []; rw [if_pos hlt]; exact B _
      · next hlt =>
        simp only [Prod.mk.injEq, Out.done.injEq] at h2
        obtain ⟨h3, h4⟩ := h2; subst h3; subst h4
        exact ⟨hs1, F1, fun c => by
          simp only [step]; rw [bind_plain (D1 c)]; simp only []; rw [if_neg hlt]⟩
  case plus a =>
    obtain ⟨r1, s1, h1, h2⟩ := bind_done h
    obtain ⟨hs1, F1, D1⟩ := H _ _ _ _ hs h1
    cases r1
    · simp only [Prod.mk.injEq, Out.done.injEq] at h2
      obtain ⟨h3, h4⟩ := h2; subst h3; subst h4
      exact ⟨hs1, F1, fun c => by simp only [step]; rw [bind_plain (D1 c)]⟩
    · next q =>
      simp only [] at h2
      split at h2
      · next hlt =>
        obtain ⟨r3, s3, h5, h6⟩ := bind_done h2
        obtain ⟨hs2, F2, D2⟩ := H _ _ _ _ hs1 h5
        have A := DenAt.mono D1 (Nat.le_max_left F1 F2)
        have B := DenAt.mono D2 (Nat.le_max_right F1 F2)
        cases r3 <;>
        · simp only [Prod.mk.injEq, Out.done.injEq] at h6
          obtain ⟨h3, h4⟩ := h6; subst h3; subst h4
          refine ⟨hs2, max F1 F2, fun c => ?_⟩
          simp only [step]; rw [bind_plain (A c)]; simp only []; rw [if_pos hlt]
          rw [bind_plain (B _)]
      · next hlt =>
        simp only [Prod.mk.injEq, Out.done.injEq] at h2
        obtain ⟨h3, h4⟩ := h2; subst h3; subst h4
        exact ⟨hs1, F1, fun c => by
          simp only [step]; rw [bind_plain (D1 c)]; simp only []; rw [if_neg hlt]⟩
  case notP a =>
    obtain ⟨r1, s1, h1, h2⟩ := bind_done h
    obtain ⟨hs1, F1, D1⟩ := H _ _ _ _ hs h1
    cases r1 <;>
    · simp only [Prod.mk.injEq, Out.done.injEq] at h2
      obtain ⟨h3, h4⟩ := h2; subst h3; subst h4
      exact ⟨hs1, F1, fun c => by simp only [step]; rw [bind_plain (D1 c)]⟩
  case ref a =>
    obtain ⟨hs1, F1, D1⟩ := H _ _ _ _ hs h
    exact ⟨hs1, F1, fun c => by simp only [step]; exact D1 c⟩

/-! ## 4. Soundness of the memoising engine (unbounded table) -/

theorem den_of_no_rule {G : Grammar} {inp : List Char} {k : Key} (hg : G[k.id]? = none) :
    Den G inp k none :=
  ⟨1, fun c => by simp [plain, hg]⟩

theorem den_of_out_of_input {G : Grammar} {inp : List Char} {k : Key}
    (hp : ¬ k.pos ≤ inp.length) : Den G inp k none :=
  ⟨1, fun c => by
    simp only [plain]
    split
    · rfl
    · rw [if_neg hp]⟩

theorem den_of_step {G : Grammar} {inp : List Char} {k : Key} {e : Expr} {r : Option Nat}
    (hg : G[k.id]? = some e) (hp : k.pos ≤ inp.length) {F : Nat}
    (h : ∀ c, (step (plain G inp F) e k.id inp (startPos inp k) k.da c).1 = .done r) :
    Den G inp k r :=
  ⟨F + 1, fun c => by
    simp only [plain, hg]
    rw [if_pos hp]; exact h _⟩

theorem St.WF_set_inprog {G : Grammar} {inp : List Char} {s : St} (h : s.WF G inp) (k : Key) :
    (s.miss.set k .inprog).WF G inp := by
  intro k' r hk
  simp only [St.set, St.miss] at hk
  split at hk
  · simp at hk
  · exact h k' r hk

theorem St.WF_set_done {G : Grammar} {inp : List Char} {s : St} (h : s.WF G inp) {k : Key}
    {r : Option Nat} (hd : Den G inp k r) : (s.set k (.done r)).WF G inp := by
  intro k' r' hk
  simp only [St.set] at hk
  split at hk
  · next heq =>
    simp only [Option.some.injEq, Slot.done.injEq] at hk
    subst heq; subst hk; exact hd
  · exact h k' r' hk

/-- The memoising engine preserves table well-formedness and, when it finishes, returns what
    the plain engine computes. -/
theorem memo_sound_aux (G : Grammar) (inp : List Char) :
    ∀ f k s r s', St.WF G inp s → memo G inp f k s = (.done r, s') →
      St.WF G inp s' ∧ Den G inp k r := by
  intro f
  induction f with
  | zero => intro k s r s' _ h; simp [memo] at h
  | succ f ih =>
    intro k s r s' hwf h
    rw [memo] at h
    split at h
    · next hg =>
      simp only [Prod.mk.injEq, Out.done.injEq] at h
      obtain ⟨h1, h2⟩ := h; subst h1; subst h2
      exact ⟨hwf, den_of_no_rule hg⟩
    · next e hg =>
      split at h
      · next hp =>
        split at h
        · next r0 ht =>
          simp only [Prod.mk.injEq, Out.done.injEq] at h
          obtain ⟨h1, h2⟩ := h; subst h1; subst h2
          exact ⟨fun k' r' hk => hwf k' r' hk, hwf k r0 ht⟩
        · simp at h
        · next ht =>
          split at h
          · next r1 s1 hstep =>
            simp only [Prod.mk.injEq, Out.done.injEq] at h
            obtain ⟨h1, h2⟩ := h; subst h1; subst h2
            obtain ⟨hwf1, F, hF⟩ := step_sim G inp (memo G inp f) (St.WF G inp) ih
              e k.id (startPos inp k) k.da _ _ _ (St.WF_set_inprog hwf k) hstep
            have hd := den_of_step hg hp hF
            exact ⟨St.WF_set_done hwf1 hd, hd⟩
          · simp at h
          · simp at h
      · next hp =>
        simp only [Prod.mk.injEq, Out.done.injEq] at h
        obtain ⟨h1, h2⟩ := h; subst h1; subst h2
        exact ⟨hwf, den_of_out_of_input hp⟩

theorem St.WF_init (G : Grammar) (inp : List Char) : St.init.WF G inp := by
  intro k r h; simp [St.init] at h

/-- The denotation is a function: fuel does not change a finished result. -/
theorem Den.unique {G : Grammar} {inp : List Char} {k : Key} {r r' : Option Nat}
    (h : Den G inp k r) (h' : Den G inp k r') : r = r' := by
  obtain ⟨f, hf⟩ := h
  obtain ⟨f', hf'⟩ := h'
  have A := DenAt.mono hf (Nat.le_max_left f f') 0
  have B := DenAt.mono hf' (Nat.le_max_right f f') 0
  rw [A] at B
  simpa using B

/-! ## 5. The key space and the potential argument -/

/-- The four keys of expression `i` at position `p`. -/
def keysAt (i p : Nat) : List Key :=
  [⟨i, p, false, false⟩, ⟨i, p, false, true⟩, ⟨i, p, true, false⟩, ⟨i, p, true, true⟩]

/-- Every key with `id < R` and `pos ≤ n`. -/
def allKeys (R n : Nat) : List Key :=
  (List.range R).flatMap fun i => (List.range (n + 1)).flatMap fun p => keysAt i p

theorem length_flatMap_const {α β : Type} (l : List α) (f : α → List β) (c : Nat)
    (h : ∀ a, (f a).length = c) : (l.flatMap f).length = l.length * c := by
  induction l with
  | nil => simp
  | cons a l ih => simp [List.flatMap_cons, h a, ih, Nat.succ_mul, Nat.add_comm]

theorem allKeys_length (R n : Nat) : (allKeys R n).length = 4 * R * (n + 1) := by
  unfold allKeys
  rw [length_flatMap_const _ _ ((n + 1) * 4)]
  · simp only [List.length_range]
    rw [Nat.mul_comm (n + 1) 4, ← Nat.mul_assoc, Nat.mul_comm R 4]
  · intro i
    rw [length_flatMap_const _ _ 4]
    · simp
    · intro p; rfl

theorem mem_allKeys {R n : Nat} {k : Key} (hi : k.id < R) (hp : k.pos ≤ n) :
    k ∈ allKeys R n := by
  unfold allKeys
  rw [List.mem_flatMap]
  refine ⟨k.id, List.mem_range.mpr hi, ?_⟩
  rw [List.mem_flatMap]
  refine ⟨k.pos, List.mem_range.mpr (Nat.lt_succ_of_le hp), ?_⟩
  obtain ⟨i, p, da, cp⟩ := k
  cases da <;> cases cp <;> simp [keysAt]

/-- Number of keys of `L` that are absent from table `t`. -/
def absent (t : Key → Option Slot) (L : List Key) : Nat :=
  L.countP fun k => (t k).isNone

theorem absent_le_length (t : Key → Option Slot) (L : List Key) : absent t L ≤ L.length :=
  List.countP_le_length

theorem absent_mono {t t' : Key → Option Slot} (h : ∀ k, t k ≠ none → t' k ≠ none)
    (L : List Key) : absent t' L ≤ absent t L := by
  unfold absent
  apply List.countP_mono_left
  intro k _ hk
  cases ht : t k with
  | none => rfl
  | some v =>
    have := h k (by rw [ht]; simp)
    cases ht' : t' k with
    | none => exact absurd ht' this
    | some v' => rw [ht'] at hk; simp at hk

/-- Inserting an absent key of `L` strictly decreases the number of absent keys. -/
theorem absent_insert {t : Key → Option Slot} {k : Key} (v : Slot) (hk : t k = none) :
    ∀ {L : List Key}, k ∈ L →
      absent (fun k' => if k' = k then some v else t k') L + 1 ≤ absent t L := by
  intro L
  induction L with
  | nil => intro h; simp at h
  | cons a L ih =>
    intro hmem
    have hmono : absent (fun k' => if k' = k then some v else t k') L ≤ absent t L := by
      apply absent_mono
      intro k' hk'
      show (if k' = k then some v else t k') ≠ none
      split
      · simp
      · exact hk'
    by_cases hak : a = k
    · subst hak
      simp only [absent, List.countP_cons, hk, Option.isNone_none, if_true] at hmono ⊢
      simp only [Option.isNone_some, Bool.false_eq_true, if_false]
      omega
    · have hmem' : k ∈ L := by
        cases hmem with
        | head => exact absurd rfl hak
        | tail _ h => exact h
      have := ih hmem'
      simp only [absent, List.countP_cons, if_neg hak] at this ⊢
      omega

/-! ## 6. The miss bound and fuel sufficiency for the unbounded table -/

/-- `Rel L s s'`: going from `s` to `s'`, no key is removed from the table (NO EVICTION), and
    every miss is paid for by a key of `L` that became present. -/
def Rel (L : List Key) (s s' : St) : Prop :=
  (∀ k, s.tbl k ≠ none → s'.tbl k ≠ none) ∧
  s'.misses + absent s'.tbl L ≤ s.misses + absent s.tbl L

theorem Rel.refl (L : List Key) (s : St) : Rel L s s := ⟨fun _ h => h, Nat.le_refl _⟩

theorem Rel.trans {L : List Key} {a b c : St} (h1 : Rel L a b) (h2 : Rel L b c) : Rel L a c :=
  ⟨fun k h => h2.1 k (h1.1 k h), Nat.le_trans h2.2 h1.2⟩

theorem Rel.absent_le {L : List Key} {a b : St} (h : Rel L a b) :
    absent b.tbl L ≤ absent a.tbl L := absent_mono h.1 L

theorem Rel.hit (L : List Key) (s : St) : Rel L s s.hit := ⟨fun _ h => h, Nat.le_refl _⟩

theorem Rel.miss_insert {L : List Key} {s : St} {k : Key} (hk : s.tbl k = none) (hmem : k ∈ L) :
    Rel L s (s.miss.set k .inprog) := by
  refine ⟨?_, ?_⟩
  · intro k' h
    show (if k' = k then some Slot.inprog else s.tbl k') ≠ none
    split
    · simp
    · exact h
  · have := absent_insert (t := s.tbl) Slot.inprog hk hmem
    show s.misses + 1 + absent (fun k' => if k' = k then some Slot.inprog else s.tbl k') L ≤ _
    omega

theorem Rel.set {L : List Key} (s : St) (k : Key) (v : Slot) :
    Rel L s (s.set k v) := by
  have hp : ∀ k', s.tbl k' ≠ none → (s.set k v).tbl k' ≠ none := by
    intro k' h
    show (if k' = k then some v else s.tbl k') ≠ none
    split
    · simp
    · exact h
  refine ⟨hp, ?_⟩
  have := absent_mono hp L
  show s.misses + absent (s.set k v).tbl L ≤ _
  omega

/-- Every run of the memoising engine is a `Rel` step. -/
theorem memo_rel (G : Grammar) (inp : List Char) :
    ∀ f k s, Rel (allKeys G.size inp.length) s (memo G inp f k s).2 := by
  intro f
  induction f with
  | zero => intro k s; simp only [memo]; exact Rel.refl _ _
  | succ f ih =>
    intro k s
    rw [memo]
    split
    · exact Rel.refl _ _
    · next e hg =>
      split
      · next hp =>
        split
        · exact Rel.hit _ _
        · exact Rel.refl _ _
        · next ht =>
          have hid : k.id < G.size := by
            rcases Nat.lt_or_ge k.id G.size with h | h
            · exact h
            · rw [Array.getElem?_eq_none h] at hg; simp at hg
          have h1 : Rel (allKeys G.size inp.length) s (s.miss.set k .inprog) :=
            Rel.miss_insert ht (mem_allKeys hid hp)
          have h2 := (step_inv (memo G inp f)
            (fun s' => Rel (allKeys G.size inp.length) (s.miss.set k .inprog) s')
            (fun _ => True) (fun _ => trivial)
            (fun k' s' hs' => ⟨Rel.trans hs' (ih k' s'), trivial⟩)
            e k.id inp (startPos inp k) k.da _ (Rel.refl _ _)).1
          split
          · next r s' heq =>
            rw [heq] at h2
            exact Rel.trans h1 (Rel.trans h2 (Rel.set _ _ _))
          · next s' heq => rw [heq] at h2; exact Rel.trans h1 h2
          · next s' heq => rw [heq] at h2; exact Rel.trans h1 h2
      · exact Rel.refl _ _

/-- With more fuel than absent keys, the memoising engine never runs out of fuel. -/
theorem memo_no_fuel (G : Grammar) (inp : List Char) :
    ∀ f k s, absent s.tbl (allKeys G.size inp.length) < f → (memo G inp f k s).1 ≠ .fuel := by
  intro f
  induction f with
  | zero => intro k s h; omega
  | succ f ih =>
    intro k s hlt
    rw [memo]
    split
    · simp
    · next e hg =>
      split
      · next hp =>
        split
        · simp
        · simp
        · next ht =>
          have hid : k.id < G.size := by
            rcases Nat.lt_or_ge k.id G.size with h | h
            · exact h
            · rw [Array.getElem?_eq_none h] at hg; simp at hg
          have h1 : Rel (allKeys G.size inp.length) s (s.miss.set k .inprog) :=
            Rel.miss_insert ht (mem_allKeys hid hp)
          have hlt1 : absent (s.miss.set k .inprog).tbl (allKeys G.size inp.length) < f := by
            have := absent_insert (t := s.tbl) Slot.inprog ht (mem_allKeys hid hp)
            show absent (fun k' => if k' = k then some Slot.inprog else s.tbl k') _ < f
            omega
          have h2 := (step_inv (memo G inp f)
            (fun s' => Rel (allKeys G.size inp.length) (s.miss.set k .inprog) s')
            (fun o => o ≠ .fuel) (fun _ => by simp)
            (fun k' s' hs' => ⟨Rel.trans hs' (memo_rel G inp f k' s'),
              ih k' s' (Nat.lt_of_le_of_lt hs'.absent_le hlt1)⟩)
            e k.id inp (startPos inp k) k.da _ (Rel.refl _ _)).2
          split
          · simp
          · simp
          · next s' heq => rw [heq] at h2; exact absurd rfl h2
      · simp

theorem absent_init_le (G : Grammar) (inp : List Char) :
    absent St.init.tbl (allKeys G.size inp.length) ≤ 4 * G.size * (inp.length + 1) := by
  have := absent_le_length St.init.tbl (allKeys G.size inp.length)
  rw [allKeys_length] at this
  exact this

/-! ## 7. Soundness of the bounded-FIFO engine (eviction allowed) -/

theorem Fifo.mem_of_find {q : List (Key × Option Nat)} {k : Key} {r : Option Nat}
    (h : Fifo.find q k = some r) : (k, r) ∈ q := by
  induction q with
  | nil => simp [Fifo.find] at h
  | cons a q ih =>
    obtain ⟨k', r'⟩ := a
    simp only [Fifo.find] at h
    split at h
    · next heq =>
      simp only [Option.some.injEq] at h
      subst heq; subst h; exact List.mem_cons_self
    · exact List.mem_cons_of_mem _ (ih h)

theorem Fifo.WF_push {G : Grammar} {inp : List Char} {s : Fifo} (h : s.WF G inp) {k : Key}
    {r : Option Nat} (hd : Den G inp k r) : (s.push k r).WF G inp := by
  intro k' r' hmem
  simp only [Fifo.push] at hmem
  have := List.mem_of_mem_drop hmem
  rw [List.mem_append] at this
  rcases this with h1 | h1
  · exact h k' r' h1
  · simp only [List.mem_singleton, Prod.mk.injEq] at h1
    obtain ⟨h2, h3⟩ := h1; subst h2; subst h3; exact hd

/-- Whatever the capacity (hence whatever gets evicted), the FIFO engine preserves cache
    well-formedness and, when it finishes, returns what the plain engine computes. -/
theorem memoFifo_sound_aux (G : Grammar) (inp : List Char) :
    ∀ f k s r s', Fifo.WF G inp s → memoFifo G inp f k s = (.done r, s') →
      Fifo.WF G inp s' ∧ Den G inp k r := by
  intro f
  induction f with
  | zero => intro k s r s' _ h; simp [memoFifo] at h
  | succ f ih =>
    intro k s r s' hwf h
    rw [memoFifo] at h
    split at h
    · next hg =>
      simp only [Prod.mk.injEq, Out.done.injEq] at h
      obtain ⟨h1, h2⟩ := h; subst h1; subst h2
      exact ⟨hwf, den_of_no_rule hg⟩
    · next e hg =>
      split at h
      · next hp =>
        split at h
        · next r0 ht =>
          simp only [Prod.mk.injEq, Out.done.injEq] at h
          obtain ⟨h1, h2⟩ := h; subst h1; subst h2
          exact ⟨fun k' r' hk => hwf k' r' hk, hwf k r0 (Fifo.mem_of_find ht)⟩
        · next ht =>
          split at h
          · next r1 s1 hstep =>
            simp only [Prod.mk.injEq, Out.done.injEq] at h
            obtain ⟨h1, h2⟩ := h; subst h1; subst h2
            obtain ⟨hwf1, F, hF⟩ := step_sim G inp (memoFifo G inp f) (Fifo.WF G inp) ih
              e k.id (startPos inp k) k.da
              { s with misses := s.misses + 1 } _ _ (fun k' r' hk => hwf k' r' hk) hstep
            have hd := den_of_step hg hp hF
            exact ⟨Fifo.WF_push hwf1 hd, hd⟩
          · simp at h
          · simp at h
      · next hp =>
        simp only [Prod.mk.injEq, Out.done.injEq] at h
        obtain ⟨h1, h2⟩ := h; subst h1; subst h2
        exact ⟨hwf, den_of_out_of_input hp⟩

theorem Fifo.WF_init (G : Grammar) (inp : List Char) (cap : Nat) : (Fifo.init cap).WF G inp := by
  intro k r h; simp [Fifo.init] at h


/-! ## 8. The witness family: exact cost of the plain engine -/

theorem plain_unfold {G : Grammar} {inp : List Char} {F : Nat} {k : Key} {c : Nat} {e : Expr}
    (hg : G[k.id]? = some e) (hp : k.pos ≤ inp.length) :
    plain G inp (F + 1) k c = step (plain G inp F) e k.id inp (startPos inp k) k.da (c + 1) := by
  simp only [plain, hg]; rw [if_pos hp]

theorem lt_length_of_drop {inp : List Char} {p : Nat} {ch : Char} {rest : List Char}
    (h : inp.drop p = ch :: rest) : p < inp.length := by
  rcases Nat.lt_or_ge p inp.length with hlt | hge
  · exact hlt
  · rw [List.drop_eq_nil_of_le hge] at h; simp at h

theorem startPos_of_head {inp : List Char} {p : Nat} {ch : Char} {rest : List Char}
    (h : inp.drop p = ch :: rest) (hw : ch.isWhitespace = false) (i : Nat) (da cp : Bool) :
    startPos inp ⟨i, p, da, cp⟩ = p := by
  unfold startPos skipWs
  split
  · simp only [h, List.takeWhile_cons, hw]; simp
  · rfl

/-- A one-character literal at a position whose next character is a different, non-blank one. -/
theorem ns_lit_fail {inp : List Char} {p : Nat} {ch : Char} {rest : List Char} {x : Char}
    (i : Nat) (hg : nsGrammar[i]? = some (.lit [x]))
    (h : inp.drop p = ch :: rest) (hw : ch.isWhitespace = false) (hne : x ≠ ch)
    (F : Nat) (da cp : Bool) (c : Nat) :
    plain nsGrammar inp (F + 1) ⟨i, p, da, cp⟩ c = (.done none, c + 1) := by
  rw [plain_unfold hg (Nat.le_of_lt (lt_length_of_drop h)), startPos_of_head h hw]
  simp [step, h, hne]

theorem ns_lit_ok {inp : List Char} {p : Nat} {rest : List Char} {x : Char}
    (i : Nat) (hg : nsGrammar[i]? = some (.lit [x]))
    (h : inp.drop p = x :: rest) (hw : x.isWhitespace = false)
    (F : Nat) (da cp : Bool) (c : Nat) :
    plain nsGrammar inp (F + 1) ⟨i, p, da, cp⟩ c = (.done (some (p + 1)), c + 1) := by
  rw [plain_unfold hg (Nat.le_of_lt (lt_length_of_drop h)), startPos_of_head h hw]
  simp [step, h]

/-- `ns` at a closing brace fails after 2 evaluations. -/
theorem ns_fail_at_close {inp : List Char} {p : Nat} {rest : List Char}
    (h : inp.drop p = '}' :: rest) (F : Nat) (da cp : Bool) (c : Nat) :
    plain nsGrammar inp (F + 2) ⟨0, p, da, cp⟩ c = (.done none, c + 2) := by
  rw [plain_unfold (e := .seq 1 2) (by rfl) (Nat.le_of_lt (lt_length_of_drop h)),
    startPos_of_head h (by decide)]
  simp only [step]
  rw [bind_eq_of_call (ns_lit_fail 1 (by rfl) h (by decide) (by decide) F _ _ _)]

/-- `leaf ^ ns` at a closing brace fails after 4 evaluations. -/
theorem body_fail_at_close {inp : List Char} {p : Nat} {rest : List Char}
    (h : inp.drop p = '}' :: rest) (F : Nat) (da cp : Bool) (c : Nat) :
    plain nsGrammar inp (F + 3) ⟨5, p, da, cp⟩ c = (.done none, c + 4) := by
  rw [plain_unfold (e := .orL 6 0) (by rfl) (Nat.le_of_lt (lt_length_of_drop h)),
    startPos_of_head h (by decide)]
  simp only [step]
  rw [bind_eq_of_call (ns_lit_fail 6 (by rfl) h (by decide) (by decide) (F + 1) _ _ _),
    bind_eq_of_call (ns_fail_at_close h F _ _ _)]
  rfl

/-- `(leaf ^ ns)*` at a closing brace matches ε after 5 evaluations. -/
theorem items_at_close {inp : List Char} {p : Nat} {rest : List Char}
    (h : inp.drop p = '}' :: rest) (F : Nat) (da cp : Bool) (c : Nat) :
    plain nsGrammar inp (F + 4) ⟨3, p, da, cp⟩ c = (.done (some p), c + 5) := by
  rw [plain_unfold (e := .star 5) (by rfl) (Nat.le_of_lt (lt_length_of_drop h)),
    startPos_of_head h (by decide)]
  simp only [step]
  rw [bind_eq_of_call (body_fail_at_close h F _ _ _)]

theorem nsInput_head (d : Nat) : ∃ t, nsInput d = '{' :: t := by
  cases d <;> exact ⟨_, rfl⟩

theorem nsInput_length (d : Nat) : (nsInput d).length = 2 * d + 2 := by
  induction d with
  | zero => rfl
  | succ d ih => simp [nsInput, ih]; omega

theorem drop_pre {pre rest : List Char} {n : Nat} (h : n = pre.length) :
    (pre ++ rest).drop n = rest := by subst h; simp

/-- Exact behaviour of the plain engine on the witness family, at any offset in any context. -/
theorem ns_cost_exact : ∀ d F, 4 * d + 6 ≤ F → ∀ (pre suf : List Char) (da cp : Bool) (c : Nat),
    plain nsGrammar (pre ++ nsInput d ++ suf) F ⟨0, pre.length, da, cp⟩ c
      = (.done (some (pre.length + (2 * d + 2))), c + nsCost d) := by
  intro d
  induction d with
  | zero =>
    intro F hF pre suf da cp c
    obtain ⟨F', rfl⟩ := Nat.exists_eq_add_of_le' hF
    have h0 : (pre ++ nsInput 0 ++ suf).drop pre.length = '{' :: '}' :: suf := by
      rw [List.append_assoc, drop_pre rfl]; rfl
    have h1 : (pre ++ nsInput 0 ++ suf).drop (pre.length + 1) = '}' :: suf := by
      have : pre ++ nsInput 0 ++ suf = (pre ++ ['{']) ++ ('}' :: suf) := by simp [nsInput]
      rw [this, drop_pre (by simp)]
    rw [show F' + (4 * 0 + 6) = (F' + 5) + 1 by omega,
      plain_unfold (e := .seq 1 2) (by rfl) (Nat.le_of_lt (lt_length_of_drop h0)),
      startPos_of_head h0 (by decide)]
    simp only [step]
    rw [show F' + 5 = (F' + 4) + 1 by omega,
      bind_eq_of_call (ns_lit_ok 1 (by rfl) h0 (by decide) (F' + 4) _ _ _)]
    simp only []
    rw [plain_unfold (e := .seq 3 4) (by rfl) (Nat.le_of_lt (lt_length_of_drop h1)),
      startPos_of_head h1 (by decide)]
    simp only [step]
    rw [bind_eq_of_call (items_at_close h1 F' _ _ _)]
    simp only []
    rw [show F' + 4 = (F' + 3) + 1 by omega, ns_lit_ok 4 (by rfl) h1 (by decide) (F' + 3)]
    simp [nsCost]
  | succ d ih =>
    intro F hF pre suf da cp c
    obtain ⟨F', rfl⟩ := Nat.exists_eq_add_of_le' (show 4 ≤ F by omega)
    have hF' : 4 * d + 6 ≤ F' := by omega
    obtain ⟨t, ht⟩ := nsInput_head d
    have hinp : pre ++ nsInput (d + 1) ++ suf = (pre ++ ['{']) ++ nsInput d ++ ('}' :: suf) := by
      simp [nsInput]
    have hl : (pre ++ ['{']).length = pre.length + 1 := by simp
    have h0 : (pre ++ nsInput (d + 1) ++ suf).drop pre.length
        = '{' :: (nsInput d ++ '}' :: suf) := by
      rw [List.append_assoc, drop_pre rfl]; simp [nsInput]
    have h1 : (pre ++ nsInput (d + 1) ++ suf).drop (pre.length + 1) = '{' :: (t ++ '}' :: suf) := by
      rw [hinp, List.append_assoc, drop_pre hl.symm, ht]; rfl
    have h2 : (pre ++ nsInput (d + 1) ++ suf).drop (pre.length + 1 + (2 * d + 2)) = '}' :: suf := by
      rw [hinp, drop_pre]
      simp [nsInput_length]
      omega
    -- the two evaluations of the nested `ns` (try with doActions = false, then re-parse)
    have ihA := fun da cp c => ih F' hF' (pre ++ ['{']) ('}' :: suf) da cp c
    rw [← hinp, hl] at ihA
    -- ns = "{" · rest
    rw [show F' + 4 = (F' + 3) + 1 by omega,
      plain_unfold (e := .seq 1 2) (by rfl) (Nat.le_of_lt (lt_length_of_drop h0)),
      startPos_of_head h0 (by decide)]
    simp only [step]
    rw [show F' + 3 = (F' + 2) + 1 by omega,
      bind_eq_of_call (ns_lit_ok 1 (by rfl) h0 (by decide) (F' + 2) _ _ _)]
    simp only []
    -- rest = items · "}"
    rw [plain_unfold (e := .seq 3 4) (by rfl) (Nat.le_of_lt (lt_length_of_drop h1)),
      startPos_of_head h1 (by decide)]
    simp only [step]
    -- items = body*
    have hitems : plain nsGrammar (pre ++ nsInput (d + 1) ++ suf) (F' + 2)
        ⟨3, pre.length + 1, da, false⟩ (c + 1 + 1 + 1)
        = (.done (some (pre.length + 1 + (2 * d + 2))), c + 11 + 2 * nsCost d) := by
      rw [show F' + 2 = (F' + 1) + 1 by omega,
        plain_unfold (e := .star 5) (by rfl) (Nat.le_of_lt (lt_length_of_drop h1)),
        startPos_of_head h1 (by decide)]
      simp only [step]
      -- body = leaf ^ ns
      have hbody : plain nsGrammar (pre ++ nsInput (d + 1) ++ suf) (F' + 1)
          ⟨5, pre.length + 1, da, true⟩ (c + 1 + 1 + 1 + 1)
          = (.done (some (pre.length + 1 + (2 * d + 2))), c + 6 + 2 * nsCost d) := by
        rw [plain_unfold (e := .orL 6 0) (by rfl) (Nat.le_of_lt (lt_length_of_drop h1)),
          startPos_of_head h1 (by decide)]
        simp only [step]
        obtain ⟨F'', rfl⟩ := Nat.exists_eq_add_of_le' (show 1 ≤ F' by omega)
        rw [bind_eq_of_call (ns_lit_fail 6 (by rfl) h1 (by decide) (by decide) F'' _ _ _),
          bind_eq_of_call (ihA _ _ _)]
        simp only [pickLongest, if_true]
        rw [ihA]
        congr 1
        omega
      rw [bind_eq_of_call hbody]
      simp only []
      rw [if_pos (by omega)]
      obtain ⟨F'', rfl⟩ := Nat.exists_eq_add_of_le' (show 3 ≤ F' by omega)
      rw [show F'' + 3 + 1 = F'' + 4 by omega, items_at_close h2 F'']
      congr 1
      omega
    rw [bind_eq_of_call hitems]
    simp only []
    rw [show F' + 2 = (F' + 1) + 1 by omega, ns_lit_ok 4 (by rfl) h2 (by decide) (F' + 1)]
    simp only [nsCost, Prod.mk.injEq, Out.done.injEq, Option.some.injEq]
    constructor <;> omega

/-! ## 9. Small facts used by the property statements -/

/-- The plain engine has no re-entry marker: it never reports `loop`. -/
theorem plain_no_loop (G : Grammar) (inp : List Char) :
    ∀ f k c, (plain G inp f k c).1 ≠ .loop := by
  intro f
  induction f with
  | zero => intro k c; simp [plain]
  | succ f ih =>
    intro k c
    rw [plain]
    split
    · simp
    · split
      · exact (step_inv (plain G inp f) (fun _ => True) (fun o => o ≠ .loop) (fun _ => by simp)
          (fun k' c' _ => ⟨trivial, ih k' c'⟩) _ _ _ _ _ _ trivial).2
      · simp

/-- A finished memoised result pins down the plain engine's answer at EVERY fuel and counter. -/
theorem plain_eq_or_fuel_of_den {G : Grammar} {inp : List Char} {k : Key} {r : Option Nat}
    (h : Den G inp k r) (F c : Nat) :
    (plain G inp F k c).1 = .done r ∨ (plain G inp F k c).1 = .fuel := by
  obtain ⟨F0, h0⟩ := h
  cases hres : (plain G inp F k c).1 with
  | fuel => exact Or.inr rfl
  | loop => exact absurd hres (plain_no_loop G inp F k c)
  | done r' =>
    left
    have e : plain G inp F k c = (.done r', (plain G inp F k c).2) := by rw [← hres]
    have A := plain_mono G inp (Nat.le_max_right F0 F) _ _ _ _ e
    have B := DenAt.mono h0 (Nat.le_max_left F0 F) c
    rw [A] at B
    simp only [Out.done.injEq] at B
    rw [B]

theorem nsCost_ge_pow (d : Nat) : 9 * 2 ^ d ≤ nsCost d := by
  induction d with
  | zero => simp [nsCost]
  | succ d ih => simp only [nsCost, Nat.pow_succ]; omega

/-- `ns_cost_exact` at offset 0 with empty context. -/
theorem ns_cost_top (d F : Nat) (hF : 4 * d + 6 ≤ F) (c : Nat) :
    plain nsGrammar (nsInput d) F nsKey c = (.done (some (2 * d + 2)), c + nsCost d) := by
  have := ns_cost_exact d F hF [] [] true true c
  simpa [nsKey] using this

end WrapModel.Packrat
