import WrapModel.Lemmas.MemberRoundTrip

namespace WrapModel.Spec
open WrapModel WrapModel.Tok WrapModel.Parse

def MembersWF : List Member → Prop
  | [] => True
  | m :: ms => MemberWF m ∧ MembersWF ms

def membersFuel : List Member → Nat
  | [] => 1
  | m :: ms => memberFuel m + 1 + membersFuel ms

theorem tmplLex_head_lit (tmpl : Option Template) (M : List Lexeme) (x : String) (hx : x ∈ symbols) (hd : x ≠ "__")
    (hM : answerL (.lit x) M = .no) : answerL (.lit x) (tmplLex tmpl ++ M) = .no := by
  cases tmpl with
  | none => simpa [tmplLex] using hM
  | some ps => simp [tmplLex, ansWord_lit x _ _ hx hd]

theorem enumKwLex_lit (k : EnumKw) (M : List Lexeme) (x : String) (hx : x ∈ symbols) (hd : x ≠ "__") :
    answerL (.lit x) (enumKwLex k ++ M) = .no := by
  cases k with
  | enum => simp [enumKwLex, ansWord_lit x _ _ hx hd]
  | enumClass => simp (config := {decide := true}) [enumKwLex, ansAtom, kwIncomparable, ansWord_lit x _ _ hx hd]
  | enumStruct => simp (config := {decide := true}) [enumKwLex, ansAtom, kwIncomparable, ansWord_lit x _ _ hx hd]

/-- no member begins with a punctuation literal (other than the dunder marker) -/
theorem lit_no_member (m : Member) (hwf : MemberWF m) (Y : List Lexeme) (x : String) (hx : x ∈ symbols) (hd : x ≠ "__") :
    answerL (.lit x) (memberLex m ++ Y) = .no := by
  cases m with
  | ctor tmpl name args =>
    obtain ⟨_, _, hname⟩ := hwf
    simp only [memberLex, List.append_assoc]
    exact tmplLex_head_lit tmpl _ x hx hd (by simp [ansWord_lit x _ _ hx hd])
  | method tmpl ret name args c =>
    obtain ⟨_, hr, _, _⟩ := hwf
    simp only [memberLex, List.append_assoc]
    exact tmplLex_head_lit tmpl _ x hx hd (lit_no_starts (startsOK_append (retLex_starts _ hr) _) x hx hd)
  | static tmpl ret name args =>
    simp only [memberLex, List.append_assoc]
    exact tmplLex_head_lit tmpl _ x hx hd (by simp [ansWord_lit x _ _ hx hd])
  | prop v =>
    simp only [memberLex, List.append_assoc]
    exact lit_no_starts (startsOK_append (tyLex_starts _ hwf.1) _) x hx hd
  | op ret sym args =>
    simp only [memberLex, List.append_assoc]
    exact lit_no_starts (startsOK_append (retLex_starts _ hwf.1) _) x hx hd
  | enum e =>
    simp only [memberLex, enumLex, List.append_assoc]
    exact enumKwLex_lit e.kw _ x hx hd
  | dunder name args =>
    simp (config := {decide := true}) [memberLex, answerL_sym, ansDunder, hx, hd]

theorem pmembers_lex : ∀ (ms : List Member), MembersWF ms → ∀ (n : Nat) (Y : List Lexeme), membersFuel ms ≤ n →
    runL (pmembers n) (membersLex ms ++ .sym "}" :: Y) = .ok ms Y := by
  intro ms
  induction ms with
  | nil =>
    intro _ n Y hn
    obtain ⟨k, rfl⟩ : ∃ k, n = k + 1 := ⟨n - 1, by simp [membersFuel] at hn; omega⟩
    simp (config := {decide := true}) [pmembers, membersLex, runL_bind, runL_probe, answerL_sym, ansSym]
  | cons m ms ih =>
    intro hwf n Y hn
    obtain ⟨hwm, hwms⟩ : MemberWF m ∧ MembersWF ms := by simpa [MembersWF] using hwf
    simp only [membersFuel] at hn
    obtain ⟨k, rfl⟩ : ∃ k, n = k + 1 := ⟨n - 1, by omega⟩
    have h0 := lit_no_member m hwm (membersLex ms ++ .sym "}" :: Y) "}" (by decide) (by decide)
    have h1 := pmember_lex m hwm k (by omega) (membersLex ms ++ .sym "}" :: Y)
    have h2 := ih hwms k Y (by omega)
    simp [pmembers, membersLex, runL_bind, runL_probe, h0, h1, h2]

/-! ### declarations: the declaration reader cut into named pieces -/

def inclPart : P Decl := do
  P.expect (.lit "<")
  let h ← P.need .header
  P.expect (.lit ">")
  pure (.incl h)

def typedefPart (n : Nat) : P Decl := do
  let t ← ptype n
  if !t.ty.isTempl then P.failParse
  else
    let tn ← liftOpt (strictTypename true t.ty)
    let name ← P.need .word
    P.expect (.lit ";")
    pure (.typedef tn name)

def declTail (n : Nat) (tmpl : Option Template) : P Decl := do
  let r ← ptype n
  let name ← P.need .word
  if (← P.probe (.lit "(")) then
    let args ← pargs n
    P.expect (.lit ";")
    pure (.func tmpl (toRet r) name args)
  else
    if tmpl.isSome || name == "operator" then P.failParse
    else
      let d ← optDefault
      P.expect (.lit ";")
      pure (.var ⟨r.ty, name, d⟩)

def classOrTail (n : Nat) (tmpl : Option Template) : P Decl := do
  let virt ← P.probe (.kw "virtual")
  if (← P.probe (.kw "class")) then pclassRest n tmpl virt
  else if virt then P.failParse
  else declTail n tmpl

theorem pdecl_eq (n : Nat) : pdecl (n + 1) = (do
    if (← P.probe (.kw "#include")) then inclPart
    else if (← P.probe (.kw "typedef")) then typedefPart n
    else if (← P.probe (.kw "namespace")) then
      let name ← P.need .word
      P.expect (.lit "{")
      let ds ← pdecls n
      pure (.ns name ds)
    else
      match (← penumKw) with
      | some k =>
        let e ← penumRest n k
        pure (.enum e)
      | none =>
        let tmpl ← ptemplate n
        classOrTail n tmpl) := by
  rw [pdecl]; rfl

/-! ### classes and forward declarations -/

/-- the base class of a class: absent, a plain qualified name, or a templated type -/
def ParentWF : Option CType → Prop
  | none => True
  | some (.simple tn q basic) => q = .plain ∧ basic = false ∧ hasSpace tn.name = false ∧ TyWF (.simple tn q basic)
  | some (.templ nss name ps q) => TyWF (.templ nss name ps q)

def parentFuel : Option CType → Nat
  | none => 0
  | some t => tyFuel t

def ClassWF (c : ClassDecl) : Prop :=
  TmplWF c.tmpl ∧ ParentWF c.parent ∧ MembersWF c.members ∧ ctorNamesOk c.name c.members = true

def classFuel (c : ClassDecl) : Nat := tmplFuel c.tmpl + parentFuel c.parent + membersFuel c.members + 2

theorem noCont_lbrace (X : List Lexeme) : NoCont (.sym "{" :: X) := by
  rw [noCont_iff]; simp (config := {decide := true}) [answerL_sym, ansSym]

def parentClause (n : Nat) : P (Option CType) := do
  if (← P.probe (.lit ":")) then
    let t ← ptype n
    pure (some t.ty)
  else pure none

def classBody (n : Nat) (tmpl : Option Template) (virt : Bool) (w : String) (parent : Option CType) : P Decl := do
  let par ← (match parent with
    | none => pure none
    | some (.simple tn q _) =>
      if q.isConst || q.suffix != .none || hasSpace tn.name then P.failParse
      else pure (some (.simple tn .plain false))
    | some t => pure (some t) : P (Option CType))
  P.expect (.lit "{")
  let ms ← pmembers n
  P.expect (.lit ";")
  if ctorNamesOk w ms then pure (.cls ⟨tmpl, virt, w, par, ms⟩)
  else P.failValidation

def fwdBody (tmpl : Option Template) (virt : Bool) (w : String) (more : List String) (parent : Option CType) : P Decl :=
  if tmpl.isSome then P.failParse
  else
    let (nss, name) := splitLast (w :: more)
    match parent with
    | none => pure (.fwd virt ⟨nss, name, []⟩ none)
    | some (.simple tn q _) =>
      if q.isConst || q.suffix != .none || hasSpace tn.name then P.failParse
      else pure (.fwd virt ⟨nss, name, []⟩ (some tn))
    | some _ => P.failParse

theorem pclassRest_eq (n : Nat) (tmpl : Option Template) (virt : Bool) : pclassRest n tmpl virt = (do
    let w ← P.need .word
    let more ← moreIdents n
    let parent ← parentClause n
    if (← P.probe (.lit ";")) then fwdBody tmpl virt w more parent
    else
      if !more.isEmpty then P.failParse
      else classBody n tmpl virt w parent) := by
  rw [pclassRest]; rfl

/-- the parent clause `: Type` followed by `{` or `;` -/
theorem parent_clause_lex (par : Option CType) (hty : ∀ t, par = some t → TyWF t) (n : Nat) (hn : parentFuel par ≤ n)
    (X : List Lexeme) (hX : NoCont X) (hc : answerL (.lit ":") X = .no) :
    runL (parentClause n) (parentLex par ++ X) = .ok par X := by
  cases par with
  | none => simp [parentClause, parentLex, runL_bind, runL_probe, hc]
  | some t =>
    have h1 := ptype_lex n t hn (hty t rfl) X (fun _ => hX)
    simp (config := {decide := true}) [parentClause, parentLex, runL_bind, runL_probe, answerL_sym, ansSym, h1]

theorem parentWF_ty (par : Option CType) (hwf : ParentWF par) : ∀ t, par = some t → TyWF t := by
  intro t ht
  subst ht
  cases t with
  | simple tn q basic => exact hwf.2.2.2
  | templ nss name ps q => exact hwf

theorem colon_no_lbrace (X : List Lexeme) : answerL (.lit ":") (.sym "{" :: X) = .no := by
  simp (config := {decide := true}) [answerL_sym, ansSym]
theorem colon_no_semi (X : List Lexeme) : answerL (.lit ":") (.sym ";" :: X) = .no := by
  simp (config := {decide := true}) [answerL_sym, ansSym]
theorem semi_no_lbrace (X : List Lexeme) : answerL (.lit ";") (.sym "{" :: X) = .no := by
  simp (config := {decide := true}) [answerL_sym, ansSym]

/-- what the class body reader does to an already read parent -/
theorem classBody_lex (tmpl : Option Template) (virt : Bool) (w : String) (par : Option CType) (hpar : ParentWF par)
    (ms : List Member) (hms : MembersWF ms) (hctor : ctorNamesOk w ms = true) (n : Nat) (hn : membersFuel ms ≤ n) (Y : List Lexeme) :
    runL (classBody n tmpl virt w par) (.sym "{" :: (membersLex ms ++ .sym "}" :: .sym ";" :: Y)) = .ok (.cls ⟨tmpl, virt, w, par, ms⟩) Y := by
  have h1 := pmembers_lex ms hms n (.sym ";" :: Y) hn
  cases par with
  | none =>
    simp (config := {decide := true}) [classBody, runL_bind, runL_expect, answerL_sym, ansSym, h1, hctor]
  | some t =>
    cases t with
    | simple tn q basic =>
      obtain ⟨hq, hb, hs, _⟩ := hpar
      subst hq hb
      simp (config := {decide := true}) [classBody, runL_bind, runL_expect, answerL_sym, ansSym, h1, hctor, Quals.plain, hs]
    | templ nss name ps q =>
      simp (config := {decide := true}) [classBody, runL_bind, runL_expect, answerL_sym, ansSym, h1, hctor]

/-- **Round trip for classes** (after `[template<…>] [virtual] class`). -/
theorem pclassRest_class (c : ClassDecl) (hwf : ClassWF c) (n : Nat) (hn : parentFuel c.parent + membersFuel c.members + 1 ≤ n)
    (Y : List Lexeme) :
    runL (pclassRest n c.tmpl c.isVirtual)
      (.word c.name :: (parentLex c.parent ++ .sym "{" :: (membersLex c.members ++ .sym "}" :: .sym ";" :: Y))) = .ok (.cls c) Y := by
  obtain ⟨tmpl, virt, name, par, ms⟩ := c
  obtain ⟨_, hpar, hms, hctor⟩ := hwf
  simp only at hn hpar hms hctor ⊢
  have hmi : runL (moreIdents n) (parentLex par ++ .sym "{" :: (membersLex ms ++ .sym "}" :: .sym ";" :: Y)) =
      .ok [] (parentLex par ++ .sym "{" :: (membersLex ms ++ .sym "}" :: .sym ";" :: Y)) := by
    have := moreIdents_lex [] n (parentLex par ++ .sym "{" :: (membersLex ms ++ .sym "}" :: .sym ";" :: Y)) (by simp; omega)
      (by cases par <;> simp (config := {decide := true}) [parentLex, answerL_sym, ansSym])
    simpa [identsLex] using this
  have hpc := parent_clause_lex par (parentWF_ty par hpar) n (by omega) (.sym "{" :: (membersLex ms ++ .sym "}" :: .sym ";" :: Y))
    (noCont_lbrace _) (colon_no_lbrace _)
  have hcb := classBody_lex tmpl virt name par hpar ms hms hctor n (by omega) Y
  rw [pclassRest_eq]
  simp [runL_bind, runL_need, runL_probe, hmi, hpc, semi_no_lbrace, hcb]

/-! ### forward declarations -/

def FwdParentWF : Option Typename → Prop
  | none => True
  | some p => p.insts = [] ∧ TyWF (tnToTy p) ∧ hasSpace p.name = false

def fwdParentFuel : Option Typename → Nat
  | none => 0
  | some p => tyFuel (tnToTy p)

theorem fwdParentLex_eq (parent : Option Typename) : fwdParentLex parent = parentLex (parent.map tnToTy) := by
  cases parent <;> rfl

theorem noCont_semi' (X : List Lexeme) : NoCont (.sym ";" :: X) := noCont_semi X

theorem pclassRest_fwd (virt : Bool) (nss : List String) (name : String) (parent : Option Typename) (hpar : FwdParentWF parent)
    (w : String) (more : List String) (hnames : w :: more = nss ++ [name]) (n : Nat)
    (hn : more.length + 1 + fwdParentFuel parent ≤ n) (Y : List Lexeme) :
    runL (pclassRest n none virt) (.word w :: (identsLex more ++ (fwdParentLex parent ++ .sym ";" :: Y))) =
      .ok (.fwd virt ⟨nss, name, []⟩ parent) Y := by
  have hsl : splitLast (w :: more) = (nss, name) := by rw [hnames, splitLast_append]
  have hX : answerL (.lit "::") (fwdParentLex parent ++ .sym ";" :: Y) = .no := by
    cases parent <;> simp (config := {decide := true}) [fwdParentLex, answerL_sym, ansSym]
  have hmi := moreIdents_lex more n (fwdParentLex parent ++ .sym ";" :: Y) (by omega) hX
  have hty : ∀ t, parent.map tnToTy = some t → TyWF t := by
    intro t ht
    cases parent with
    | none => simp at ht
    | some p => simp at ht; subst ht; exact hpar.2.1
  have hpc := parent_clause_lex (parent.map tnToTy) hty n
    (by cases parent <;> simp [parentFuel, fwdParentFuel] at hn ⊢; omega) (.sym ";" :: Y) (noCont_semi _) (colon_no_semi _)
  rw [← fwdParentLex_eq] at hpc
  rw [pclassRest_eq]
  cases parent with
  | none =>
    simp (config := {decide := true}) [runL_bind, runL_need, runL_probe, hmi, hpc, answerL_sym, ansSym, fwdBody, hsl]
  | some p =>
    obtain ⟨nssp, namep, instsp⟩ := p
    obtain ⟨hi, _, hs⟩ := hpar
    simp only at hi hs
    subst hi
    simp (config := {decide := true}) [runL_bind, runL_need, runL_probe, hmi, hpc, answerL_sym, ansSym, fwdBody, hsl, tnToTy,
      Quals.plain, hs]

end WrapModel.Spec
