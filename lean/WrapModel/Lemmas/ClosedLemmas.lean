/-
  Lemmas for `Props/C09.lean`: after the substitution of the specification no template parameter is left in a type.
-/
import WrapModel.Lemmas.C02Lemmas

namespace WrapModel.C02L
open WrapModel WrapModel.Inst WrapModel.Spec WrapModel.Str

/-- an instantiation argument (or the class `This` stands for) that does not itself mention a parameter or `This`:
    neither as its (unqualified) name, nor as the head of its scope, nor as its spelling when used as a scope -/
def closedInst (tns : List String) (i : Typename) : Bool :=
  match i.namespaces with
  | [] => !tns.contains i.name && i.name != "This" && !tns.contains (scopeName i) && scopeName i != "This"
  | h :: _ => !tns.contains h && h != "This"

theorem closedTy_simple_inst (tns : List String) (i : Typename) (q : Quals) (b : Bool) (h : closedInst tns i = true) :
    closedTy tns (.simple i q b) = true := by
  obtain ⟨nss, m, is⟩ := i
  cases nss with
  | nil =>
    simp only [closedInst, Bool.and_eq_true] at h
    cases is with
    | nil => simp only [closedTy, Bool.and_eq_true]; exact ⟨h.1.1.1, h.1.1.2⟩
    | cons x r => simp [closedTy, headOK]
  | cons a r =>
    simp only [closedInst] at h
    simp [closedTy, headOK]
    simpa using h

theorem headOK_substScope (tns : List String) (insts : List Typename) (th : Option Typename) (nss : List String)
    (hins : ∀ i ∈ insts, closedInst tns i = true) (hthis : ∀ c, th = some c → closedInst tns c = true)
    (hlen : tns.length ≤ insts.length) (hT : nss.head? = some "This" → th.isSome = true) :
    headOK tns (substScope tns insts th nss) = true := by
  cases nss with
  | nil => simp [substScope, headOK]
  | cons h rest =>
    simp only [substScope]
    cases hl : lookupParam tns insts h with
    | some i =>
      have hi : i ∈ insts := by
        simp only [lookupParam] at hl
        cases hk : indexOf? h tns with
        | none => simp [hk] at hl
        | some k => simp only [hk] at hl; exact List.mem_of_getElem? hl
      have hc := hins i hi
      obtain ⟨ins, inm, iis⟩ := i
      cases ins with
      | nil =>
        simp only [closedInst, Bool.and_eq_true] at hc
        simp only [List.nil_append, List.cons_append, headOK, Bool.and_eq_true]
        exact ⟨hc.1.2, hc.2⟩
      | cons a r =>
        simp only [closedInst] at hc
        simpa [headOK] using hc
    | none =>
      simp only []
      by_cases hh : h = "This"
      · subst hh
        have hsome := hT (by simp)
        cases th with
        | none => simp at hsome
        | some c =>
          have hc := hthis c rfl
          obtain ⟨cns, cnm, cis⟩ := c
          simp only [beq_self_eq_true, if_true]
          cases cns with
          | nil =>
            simp only [closedInst, Bool.and_eq_true] at hc
            simp only [List.nil_append, List.cons_append, headOK, Bool.and_eq_true]
            exact ⟨hc.1.2, hc.2⟩
          | cons a r =>
            simp only [closedInst] at hc
            simpa [headOK] using hc
      · have hb : (h == "This") = false := by simpa using hh
        simp only [hb, Bool.false_eq_true, if_false, headOK, Bool.and_eq_true]
        refine ⟨?_, by simpa using hh⟩
        -- h is not a parameter: lookup failed although every parameter has an instantiation
        simp only [lookupParam] at hl
        cases hk : indexOf? h tns with
        | none => simpa using indexOf?_none_iff.1 hk
        | some k =>
          simp only [hk] at hl
          have : k < tns.length := indexOf?_lt hk
          have : k < insts.length := by omega
          simp [this] at hl

theorem substScope_ne_nil (tns : List String) (insts : List Typename) (th : Option Typename) (a : String) (r : List String) :
    substScope tns insts th (a :: r) ≠ [] := by
  simp only [substScope]
  cases lookupParam tns insts a with
  | some i => simp
  | none =>
    simp only []
    split
    · cases th <;> simp
    · simp

theorem closedTy_simple_scoped (tns : List String) (nss : List String) (m : String) (is : List Typename) (q : Quals) (b : Bool)
    (h : nss ≠ [] ∨ is ≠ []) : closedTy tns (.simple ⟨nss, m, is⟩ q b) = headOK tns nss := by
  cases nss with
  | nil =>
    cases is with
    | nil => simp at h
    | cons x r => simp [closedTy, headOK]
  | cons a r => simp [closedTy]

mutual
  /-- NO PARAMETER IS LEFT: after the substitution no template parameter and no `This` occurs in the type — as a whole
      unqualified name or as the head of a scope, at any depth — provided every parameter has an instantiation, `This` denotes a
      class, and the instantiations (and that class) do not themselves mention a parameter -/
  theorem subst_closed (tns : List String) (insts : List Typename) (th : Option Typename)
      (hins : ∀ i ∈ insts, closedInst tns i = true) (hthis : ∀ c, th = some c → closedInst tns c = true)
      (hlen : tns.length ≤ insts.length) (hth : th.isSome = true) :
      ∀ (t : CType), closedTy tns (substType tns insts th t) = true
    | .simple ⟨[], n, []⟩ q b => by
      simp only [substType]
      cases hl : lookupParam tns insts n with
      | some i =>
        have hi : i ∈ insts := by
          simp only [lookupParam] at hl
          cases hk : indexOf? n tns with
          | none => simp [hk] at hl
          | some k => simp only [hk] at hl; exact List.mem_of_getElem? hl
        exact closedTy_simple_inst tns i q b (hins i hi)
      | none =>
        simp only []
        by_cases hn : n = "This"
        · subst hn
          cases th with
          | none => simp at hth
          | some c => simpa using closedTy_simple_inst tns c q b (hthis c rfl)
        · have hb : (n == "This") = false := by simpa using hn
          simp only [hb, Bool.false_eq_true, if_false, closedTy, Bool.and_eq_true]
          refine ⟨?_, by simpa using hn⟩
          simp only [lookupParam] at hl
          cases hk : indexOf? n tns with
          | none => simpa using indexOf?_none_iff.1 hk
          | some k =>
            simp only [hk] at hl
            have h1 : k < tns.length := indexOf?_lt hk
            have h2 : k < insts.length := by omega
            simp [h2] at hl
    | .simple ⟨a :: r, m, is⟩ q b => by
      simp only [substType]
      rw [closedTy_simple_scoped _ _ _ _ _ _ (Or.inl (substScope_ne_nil tns insts th a r))]
      exact headOK_substScope tns insts th _ hins hthis hlen (fun _ => hth)
    | .simple ⟨[], m, i :: is⟩ q b => by
      simp [substType, substScope, closedTy, headOK]
    | .templ nss m ps q => by
      simp only [substType, closedTy, Bool.and_eq_true]
      exact ⟨headOK_substScope tns insts th _ hins hthis hlen (fun _ => hth), substs_closed tns insts th hins hthis hlen hth ps⟩
  theorem substs_closed (tns : List String) (insts : List Typename) (th : Option Typename)
      (hins : ∀ i ∈ insts, closedInst tns i = true) (hthis : ∀ c, th = some c → closedInst tns c = true)
      (hlen : tns.length ≤ insts.length) (hth : th.isSome = true) :
      ∀ (ps : List CType), closedTys tns (substTypes tns insts th ps) = true
    | [] => by simp [substTypes, closedTys]
    | p :: ps => by
      simp only [substTypes, closedTys, Bool.and_eq_true]
      exact ⟨subst_closed tns insts th hins hthis hlen hth p, substs_closed tns insts th hins hthis hlen hth ps⟩
end

end WrapModel.C02L
