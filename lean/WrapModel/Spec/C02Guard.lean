/-
  Per-run use of the guard of `C02_inst_eq_subst_partial`: every call of the type-level instantiation function that
  instantiating a module makes (same traversal as `Inst.instClass` / `Inst.instFunc`) is classified as
    exact   — inside `safeTy`: `C02_inst_eq_subst_partial` applies (tree equality with the specification)
    scoped  — the hypotheses of `C02_scoped_param_cpp` hold (equality of the C++ spelling)
    this    — the hypotheses of `C02_this_scope_partial` hold
    outside — no agreement theorem applies (decided by correspondence only)
  The driver op `c02guard` prints the four counts; the C02 check reports them as coverage of the proved region.
-/
import WrapModel.Spec.Subst

namespace WrapModel.Spec
open WrapModel WrapModel.Inst

structure GuardCount where
  nExact : Nat := 0
  nScoped : Nat := 0
  nThis : Nat := 0
  nOutside : Nat := 0
deriving Repr, BEq, Inhabited

def GuardCount.add (a b : GuardCount) : GuardCount :=
  ⟨a.nExact + b.nExact, a.nScoped + b.nScoped, a.nThis + b.nThis, a.nOutside + b.nOutside⟩

/-- decidable form of the hypotheses of `C02_scoped_param_cpp` -/
def scopedOK (tns : List String) (insts : List Typename) : CType → Bool
  | .simple ⟨[T], X, []⟩ _ _ =>
    noColon T && T != "" && noColon X && !tns.contains X && !pyIn T X &&
      (match indexOf? T tns with
       | some idx => (match insts[idx]? with | some i => i.insts.isEmpty | none => false)
       | none => false)
  | _ => false

/-- decidable form of the hypotheses of `C02_this_scope_partial` -/
def thisScopeOK (tns : List String) (cpp icls : Option Typename) : CType → Bool
  | .simple ⟨["This"], X, []⟩ _ _ =>
    noColon X && !tns.contains "This" && !tns.contains X && icls.isNone &&
      (match cpp with | some ⟨[], _, []⟩ => true | _ => false)
  | _ => false

def classify (tns : List String) (insts : List Typename) (cpp icls : Option Typename) (t : CType) : GuardCount :=
  if !(tns.all noColon) || insts.length != tns.length then { nOutside := 1 }
  else if safeTy tns insts cpp icls t then { nExact := 1 }
  else if scopedOK tns insts t then { nScoped := 1 }
  else if thisScopeOK tns cpp icls t then { nThis := 1 }
  else { nOutside := 1 }

def sumCounts (xs : List GuardCount) : GuardCount := xs.foldl GuardCount.add {}

def countArgs (tns : List String) (insts : List Typename) (cpp : Option Typename) (as : List Arg) : GuardCount :=
  sumCounts (as.map fun a => classify tns insts cpp none a.ctype)

def countRet (tns : List String) (insts : List Typename) (cpp icls : Option Typename) (r : RetType) : GuardCount :=
  (classify tns insts cpp icls r.type1).add
    (match r.type2 with | some t2 => classify tns insts cpp icls t2 | none => {})

def countClass (c : ClassDecl) (nsPath : List String) (insts : List Typename) : GuardCount :=
  let tns := tmplNames c.tmpl
  let cpp := classCppTypename nsPath c.name c.tmpl.isSome insts
  let thisTn : Typename := let t := typenameOfPath (nsPath ++ [c.name]); ⟨t.namespaces, t.name, insts⟩
  sumCounts (c.members.map fun m =>
    match m with
    | .ctor t _ as => sumCounts ((memberInsts t).map fun mi => countArgs (tns ++ tmplNames t) (insts ++ mi) (some cpp) as)
    | .method t r _ as _ => sumCounts ((memberInsts t).map fun mi =>
        (countArgs (tns ++ tmplNames t) (insts ++ mi) (some cpp) as).add (countRet (tns ++ tmplNames t) (insts ++ mi) (some cpp) none r))
    | .static t r _ as => sumCounts ((memberInsts t).map fun mi =>
        (countArgs (tns ++ tmplNames t) (insts ++ mi) (some cpp) as).add (countRet (tns ++ tmplNames t) (insts ++ mi) (some cpp) (some thisTn) r))
    | .prop v => classify tns insts (some cpp) none v.ctype
    | .op r _ as => (countArgs tns insts (some cpp) as).add (countRet tns insts (some cpp) none r)
    | _ => {})

def countLeaf (nsPath : List String) : Decl → GuardCount
  | .cls c =>
    match c.tmpl with
    | some _ =>
      -- the instantiation list of the declaration itself (typedef instantiations use the same member traversal)
      if (tmplInsts c.tmpl).all (fun l => !l.isEmpty) then
        sumCounts ((product (tmplInsts c.tmpl)).map fun is => countClass c nsPath is)
      else {}
    | none => countClass c nsPath []
  | .func (some ps) r _ as =>
    let tns := ps.map (·.name)
    sumCounts ((product (ps.map (·.insts))).map fun is => (countArgs tns is none as).add (countRet tns is none none r))
  | _ => {}

mutual
  def countDecl (nsPath : List String) : Decl → GuardCount
    | .ns n content => countDecls (nsPath ++ [n]) content
    | d => countLeaf nsPath d
  def countDecls (nsPath : List String) : List Decl → GuardCount
    | [] => {}
    | d :: ds => (countDecl nsPath d).add (countDecls nsPath ds)
end

def guardLine (m : Module) : String :=
  let c := countDecls [] m
  s!"exact={c.nExact} scoped={c.nScoped} thisscope={c.nThis} outside={c.nOutside}"

end WrapModel.Spec
