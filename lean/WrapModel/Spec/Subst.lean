/-
  SPEC for C02: textbook capture-free substitution of template parameters in type expressions.

  An occurrence of a parameter is a *whole unqualified name* equal to the parameter (at any
  depth inside template arguments) or the *head* of a scoped name `T::X…`; `This` denotes the
  instantiated class.  Qualifiers, other names, and identifiers that merely contain a
  parameter's spelling are left alone.
-/
import WrapModel.Model.Inst

namespace WrapModel.Spec
open WrapModel WrapModel.Inst

/-- the C++ spelling of an instantiation used as a scope: `Name<args>` -/
def scopeName (i : Typename) : String :=
  if i.insts.isEmpty then i.name else i.name ++ "<" ++ tnsToCpp i.insts ++ ">"

def lookupParam (tns : List String) (insts : List Typename) (n : String) : Option Typename :=
  match indexOf? n tns with
  | some k => insts[k]?
  | none => none

/-- substitution on the scope part (`a::b::` prefix) of a name: only the head can be a parameter or `This` -/
def substScope (tns : List String) (insts : List Typename) (this : Option Typename) (nss : List String) : List String :=
  match nss with
  | [] => []
  | h :: rest =>
    match lookupParam tns insts h with
    | some i => i.namespaces ++ [scopeName i] ++ rest
    | none =>
      if h == "This" then
        match this with
        | some c => c.namespaces ++ [scopeName c] ++ rest
        | none => h :: rest
      else h :: rest

mutual
  def substType (tns : List String) (insts : List Typename) (this : Option Typename) : CType → CType
    | .simple ⟨[], n, []⟩ q b =>
      match lookupParam tns insts n with
      | some i => .simple i q b
      | none =>
        if n == "This" then
          match this with
          | some c => .simple c q b
          | none => .simple ⟨[], n, []⟩ q b
        else .simple ⟨[], n, []⟩ q b
    | .simple ⟨nss, n, is⟩ q b => .simple ⟨substScope tns insts this nss, n, is⟩ q b
    | .templ nss n ps q => .templ (substScope tns insts this nss) n (substTypes tns insts this ps) q
  def substTypes (tns : List String) (insts : List Typename) (this : Option Typename) : List CType → List CType
    | [] => []
    | p :: ps => substType tns insts this p :: substTypes tns insts this ps
end

/-- the specification as a pluggable type-instantiation function (`This` is the class passed for
    static return types when present, else the current C++ typename) -/
def specTyInst : TyInst := fun tns insts cpp icls t =>
  .ok (substType tns insts (match icls with | some c => some c | none => cpp) t)

/-- instantiation of a whole module according to the specification -/
def specInstModule (m : Module) : Except Err (List IDecl) := instModuleWith specTyInst m

end WrapModel.Spec
