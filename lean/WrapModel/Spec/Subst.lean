/-
  SPEC for C02: textbook capture-free substitution of template parameters in type expressions.

  An occurrence of a parameter is a *whole unqualified name* equal to the parameter (at any
  depth inside template arguments) or the *head* of a scoped name `T::X…`; `This` denotes the
  instantiated class.  Qualifiers, other names, and identifiers that merely contain a
  parameter's spelling are left alone.
-/
import WrapModel.Model.Inst

namespace WrapModel.Spec
open WrapModel WrapModel.Inst

/-- the C++ spelling of an instantiation used as a scope: `Name<args>` -/
def scopeName (i : Typename) : String :=
  if i.insts.isEmpty then i.name else i.name ++ "<" ++ tnsToCpp i.insts ++ ">"

def lookupParam (tns : List String) (insts : List Typename) (n : String) : Option Typename :=
  match indexOf? n tns with
  | some k => insts[k]?
  | none => none

/-- substitution on the scope part (`a::b::` prefix) of a name: only the head can be a parameter or `This` -/
def substScope (tns : List String) (insts : List Typename) (this : Option Typename) (nss : List String) : List String :=
  match nss with
  | [] => []
  | h :: rest =>
    match lookupParam tns insts h with
    | some i => i.namespaces ++ [scopeName i] ++ rest
    | none =>
      if h == "This" then
        match this with
        | some c => c.namespaces ++ [scopeName c] ++ rest
        | none => h :: rest
      else h :: rest

mutual
  def substType (tns : List String) (insts : List Typename) (this : Option Typename) : CType → CType
    | .simple ⟨[], n, []⟩ q b =>
      match lookupParam tns insts n with
      | some i => .simple i q b
      | none =>
        if n == "This" then
          match this with
          | some c => .simple c q b
          | none => .simple ⟨[], n, []⟩ q b
        else .simple ⟨[], n, []⟩ q b
    | .simple ⟨nss, n, is⟩ q b => .simple ⟨substScope tns insts this nss, n, is⟩ q b
    | .templ nss n ps q => .templ (substScope tns insts this nss) n (substTypes tns insts this ps) q
  def substTypes (tns : List String) (insts : List Typename) (this : Option Typename) : List CType → List CType
    | [] => []
    | p :: ps => substType tns insts this p :: substTypes tns insts this ps
end

/-- the specification as a pluggable type-instantiation function (`This` is the class passed for
    static return types when present, else the current C++ typename) -/
def specTyInst : TyInst := fun tns insts cpp icls t =>
  .ok (substType tns insts (match icls with | some c => some c | none => cpp) t)

/-- instantiation of a whole module according to the specification -/
def specInstModule (m : Module) : Except Err (List IDecl) := instModuleWith specTyInst m


/-! ### the guard of the agreement theorem `C02_inst_eq_subst_partial` (decidable; evaluated per run by the driver op `c02guard`) -/

/-- a plain identifier as far as `::`-splitting is concerned -/
def noColon (s : String) : Bool := !s.toList.contains ':'

/-- what `This` denotes: the class handed over for static return types when present, else the current C++ typename -/
def thisOf (icls cpp : Option Typename) : Option Typename := match icls with | some c => some c | none => cpp

/-- the head of a scope is neither a parameter nor `This` -/
def headOK (tns : List String) : List String → Bool
  | [] => true
  | h :: _ => !tns.contains h && h != "This"

mutual
  /-- no parameter and no `This` occurs (as a whole unqualified name or as the head of a scope) anywhere in the type -/
  def closedTy (tns : List String) : CType → Bool
    | .simple ⟨[], m, []⟩ _ _ => !tns.contains m && m != "This"
    | .simple ⟨nss, _, _⟩ _ _ => headOK tns nss
    | .templ nss _ ps _ => headOK tns nss && closedTys tns ps
  def closedTys (tns : List String) : List CType → Bool
    | [] => true
    | p :: ps => closedTy tns p && closedTys tns ps
end

/-- an argument of a templated type on which the code's first-level rewriting (which looks at the *last* name only)
    and the specification agree -/
def firstLevelOK (tns : List String) : CType → Bool
  | .simple ⟨[], m, []⟩ _ _ => tns.contains m || m != "This"
  | .simple ⟨nss, m, _⟩ _ _ => !tns.contains m && headOK tns nss
  | .templ nss m ps _ => !tns.contains m && headOK tns nss && closedTys tns ps

/-- the decidable guard of `C02_inst_eq_subst_partial` (evaluated per run on the generated inputs by the driver op `c02guard`) -/
def safeTy (tns : List String) (insts : List Typename) (cpp icls : Option Typename) : CType → Bool
  | .simple ⟨[], n, []⟩ _ _ =>
    noColon n && (tns.contains n || (if n == "This" then (thisOf icls cpp).isSome else !pyIn "This" n))
  | .simple ⟨h :: rest, n, []⟩ _ _ =>
    (h :: (rest ++ [n])).all fun w => noColon w && !tns.contains w && !pyIn "This" w
  | .simple ⟨_, _, _ :: _⟩ _ _ => false
  | .templ nss n ps _ =>
    ps.all (firstLevelOK tns) && headOK tns nss &&
      (let str := tnToCpp ⟨nss, n, typenames (substTypes tns insts (thisOf icls cpp) ps)⟩
       (isScopedTemplate tns str).isNone && (indexOf? str tns).isNone && !pyIn "This" str)


end WrapModel.Spec
