/-
  The canonical printer of well-formed trees into lexeme lists (DESIGN.md §3) and the well-formedness conditions under
  which the parser reads them back (C01).  Types first.
-/
import WrapModel.Model.Tok
import WrapModel.Model.Parse

namespace WrapModel.Spec
open WrapModel WrapModel.Tok

def sufLex : Suffix → List Lexeme
  | .none => []
  | .shared => [.sym "*"]
  | .raw => [.sym "@"]
  | .ref => [.sym "&"]

def constLex (b : Bool) : List Lexeme := if b then [.word "const"] else []

/-- `:: a :: b …` -/
def identsLex : List String → List Lexeme
  | [] => []
  | w :: ws => .sym "::" :: .word w :: identsLex ws

/-- the atomic spelling `std::pair` (no layout between its parts) -/
def stdPairAtom : Lexeme := .atom .stdPair "std::pair" "std::pair" "std"

/-- a basic type whose name contains a blank (`unsigned char`): one atom -/
def spacedAtom (b : String) : Lexeme := .atom (.kw b) b b (String.ofList (kwHead b))

/-- a qualified name, word by word (class names in forward declarations: no `std::pair` reading there) -/
def namesLexPlain : List String → List Lexeme
  | [] => []
  | w :: more => .word w :: identsLex more

/-- a qualified name; a leading `std::pair` is printed as the atom the grammar reads -/
def namesLex (names : List String) : List Lexeme :=
  match names with
  | [] => []
  | w :: more =>
    if w = "std" ∧ more.head? = some "pair" then stdPairAtom :: identsLex more.tail
    else .word w :: identsLex more

mutual
  def tyLex : CType → List Lexeme
    | .simple tn q basic =>
      constLex q.isConst ++
        (if basic && Parse.hasSpace tn.name then [spacedAtom tn.name] else namesLex (tn.namespaces ++ [tn.name])) ++ sufLex q.suffix
    | .templ nss name ps q =>
      constLex q.isConst ++ namesLex (nss ++ [name]) ++ .sym "<" :: (tysLex ps ++ .sym ">" :: sufLex q.suffix)
  def tysLex : List CType → List Lexeme
    | [] => []
    | t :: ts => tyLex t ++ tysTailLex ts
  def tysTailLex : List CType → List Lexeme
    | [] => []
    | t :: ts => .sym "," :: (tyLex t ++ tysTailLex ts)
end

-- fuel that suffices to read a type
mutual
  def tyFuel : CType → Nat
    | .simple tn _ _ => tn.namespaces.length + 2
    | .templ nss _ ps _ => nss.length + 2 + tysFuel ps
  def tysFuel : List CType → Nat
    | [] => 0
    | t :: ts => tyFuel t + 1 + tysFuel ts
end

/-- the basic types written as one word -/
def basicWords : List String := Gen.basicTypes.filter (fun b => !Parse.hasSpace b)
def basicSpaced : List String := Gen.basicTypes.filter Parse.hasSpace

/-- words the grammar tests for at the places where a type or a name may start -/
def reservedWords : List String :=
  ["const", "template", "static", "typedef", "namespace", "virtual", "class", "enum", "operator"]

/-- conditions on the first component of a qualified name that is not a basic type -/
def FirstOK (w : String) (more : List String) : Prop :=
  w ∉ reservedWords ∧ w ∉ Gen.basicTypes ∧ (∀ b ∈ basicSpaced, kwHead b ≠ w.toList) ∧ startsDunder w = false ∧ w ≠ "" ∧
  (w = "std" → more ≠ [])

mutual
  def TyWF : CType → Prop
    | .simple tn _ basic =>
      tn.insts = [] ∧
      (if basic then tn.namespaces = [] ∧ tn.name ∈ Gen.basicTypes
       else match tn.namespaces ++ [tn.name] with
         | [] => False
         | w :: more => FirstOK w more)
    | .templ nss name ps _ =>
      ps ≠ [] ∧ TysWF ps ∧
      (match nss ++ [name] with
        | [] => False
        | w :: more => (w ∈ basicWords ∧ more = []) ∨ FirstOK w more)
  def TysWF : List CType → Prop
    | [] => True
    | t :: ts => TyWF t ∧ TysWF ts
end

/-- how the generic type reader reports a leading `pair` -/
def pairFlag : CType → Option Bool
  | .simple .. => none
  | .templ nss name _ _ =>
    if nss = ["std"] ∧ name = "pair" then some true
    else if nss = [] ∧ name = "pair" then some false
    else none

/-- what follows a type must not continue it -/
def NoCont (rest : List Lexeme) : Prop :=
  ∀ x ∈ ["::", "<", "*", "@", "&"], answerL (.lit x) rest = .no

/-! ### arguments, return types, templates, members, declarations -/

def dfltLex : Option String → List Lexeme
  | none => []
  | some d => [.sym "=", .atom .dflt d d ""]

def argLex (a : Arg) : List Lexeme := tyLex a.ctype ++ .word a.name :: dfltLex a.default

def argsTailLex : List Arg → List Lexeme
  | [] => []
  | a :: as => .sym "," :: (argLex a ++ argsTailLex as)

/-- `( args )` without the opening parenthesis -/
def argsLex : List Arg → List Lexeme
  | [] => []
  | a :: as => argLex a ++ argsTailLex as

def argsFuel : List Arg → Nat
  | [] => 0
  | a :: as => tyFuel a.ctype + 2 + argsFuel as

def ArgsWF : List Arg → Prop
  | [] => True
  | a :: as => TyWF a.ctype ∧ ArgsWF as

/-- the generic type a return type is read as -/
def retAsType (r : RetType) : CType :=
  match r.type2 with
  | none => r.type1
  | some b => .templ (if r.stdPrefix then ["std"] else []) "pair" [r.type1, b] .plain

def retLex (r : RetType) : List Lexeme := tyLex (retAsType r)

/-- well-formed return type: its generic reading is well-formed and is classified back to `r` -/
def RetWF (r : RetType) : Prop :=
  TyWF (retAsType r) ∧ Parse.toRet ⟨retAsType r, pairFlag (retAsType r)⟩ = r

mutual
  /-- a typename as the generic type it is read as -/
  def tnToTy : Typename → CType
    | ⟨nss, name, insts⟩ =>
      match insts with
      | [] => .simple ⟨nss, name, []⟩ .plain (nss.isEmpty && Gen.basicTypes.contains name)
      | i :: is => .templ nss name (tnsToTys (i :: is)) .plain
  def tnsToTys : List Typename → List CType
    | [] => []
    | t :: ts => tnToTy t :: tnsToTys ts
end

def instsTailLex : List Typename → List Lexeme
  | [] => []
  | t :: ts => .sym "," :: (tyLex (tnToTy t) ++ instsTailLex ts)

def instsLex : List Typename → List Lexeme
  | [] => []
  | t :: ts => tyLex (tnToTy t) ++ instsTailLex ts

/-- `= { T1, T2 }` (nothing for an empty list) -/
def tparamInstsLex : List Typename → List Lexeme
  | [] => []
  | t :: ts => .sym "=" :: .sym "{" :: (instsLex (t :: ts) ++ [.sym "}"])

def tparamLex (p : TParam) : List Lexeme := .word p.name :: tparamInstsLex p.insts

def tparamsTailLex : List TParam → List Lexeme
  | [] => []
  | p :: ps => .sym "," :: (tparamLex p ++ tparamsTailLex ps)

def tparamsLex : List TParam → List Lexeme
  | [] => []
  | p :: ps => tparamLex p ++ tparamsTailLex ps

def tmplLex : Option Template → List Lexeme
  | none => []
  | some ps => .word "template" :: .sym "<" :: (tparamsLex ps ++ [.sym ">"])

def enumKwLex : EnumKw → List Lexeme
  | .enum => [.word "enum"]
  | .enumClass => [.atom (.kw "enum class") "enum class" "enum class" "enum"]
  | .enumStruct => [.atom (.kw "enum struct") "enum struct" "enum struct" "enum"]

def enumeratorsTailLex : List String → List Lexeme
  | [] => []
  | e :: es => .sym "," :: .word e :: enumeratorsTailLex es

def enumeratorsLex : List String → List Lexeme
  | [] => []
  | e :: es => .word e :: enumeratorsTailLex es

def enumLex (e : EnumDecl) : List Lexeme :=
  enumKwLex e.kw ++ .word e.name :: .sym "{" :: (enumeratorsLex e.enumerators ++ [.sym "}", .sym ";"])

def memberLex : Member → List Lexeme
  | .ctor tmpl name args => tmplLex tmpl ++ .word name :: .sym "(" :: (argsLex args ++ [.sym ")", .sym ";"])
  | .method tmpl ret name args isConst =>
    tmplLex tmpl ++ retLex ret ++ .word name :: .sym "(" :: (argsLex args ++ .sym ")" :: (constLex isConst ++ [.sym ";"]))
  | .static tmpl ret name args =>
    tmplLex tmpl ++ .word "static" :: (retLex ret ++ .word name :: .sym "(" :: (argsLex args ++ [.sym ")", .sym ";"]))
  | .prop v => tyLex v.ctype ++ .word v.name :: (dfltLex v.default ++ [.sym ";"])
  | .op ret sym args =>
    retLex ret ++ .word "operator" :: .atom .opsym sym sym "" :: .sym "(" :: (argsLex args ++ [.sym ")", .word "const", .sym ";"])
  | .enum e => enumLex e
  | .dunder name args => .sym "__" :: .atom .alpha name name "" :: .sym "__" :: .sym "(" :: (argsLex args ++ [.sym ")", .sym ";"])

def membersLex : List Member → List Lexeme
  | [] => []
  | m :: ms => memberLex m ++ membersLex ms

def parentLex : Option CType → List Lexeme
  | none => []
  | some t => .sym ":" :: tyLex t

def classLex (c : ClassDecl) : List Lexeme :=
  tmplLex c.tmpl ++ (if c.isVirtual then [.word "virtual"] else []) ++
    .word "class" :: .word c.name :: (parentLex c.parent ++ .sym "{" :: (membersLex c.members ++ [.sym "}", .sym ";"]))

/-- `: Base` of a forward declaration -/
def fwdParentLex : Option Typename → List Lexeme
  | none => []
  | some p => .sym ":" :: tyLex (tnToTy p)

mutual
  def declLex : Decl → List Lexeme
    | .fwd virt tn parent =>
      (if virt then [.word "virtual"] else []) ++ .word "class" :: (namesLexPlain (tn.namespaces ++ [tn.name]) ++
        fwdParentLex parent ++ [.sym ";"])
    | .incl h => [.atom (.kw "#include") "#include" "#include" "", .sym "<", .atom .header h h "", .sym ">"]
    | .cls c => classLex c
    | .typedef tn name => .word "typedef" :: (tyLex (tnToTy tn) ++ [.word name, .sym ";"])
    | .func tmpl ret name args => tmplLex tmpl ++ retLex ret ++ .word name :: .sym "(" :: (argsLex args ++ [.sym ")", .sym ";"])
    | .enum e => enumLex e
    | .var v => tyLex v.ctype ++ .word v.name :: (dfltLex v.default ++ [.sym ";"])
    | .ns name content => .word "namespace" :: .word name :: .sym "{" :: (declsLex content ++ [.sym "}"])
  def declsLex : List Decl → List Lexeme
    | [] => []
    | d :: ds => declLex d ++ declsLex ds
end

/-- the canonical printer of a module -/
def lexemes (m : Module) : List Lexeme := declsLex m

end WrapModel.Spec
