/-
  C11 — abstract MEX session for a generated `<module>_wrapper.cpp` gateway.

  The model describes what the routines emitted by
  `gtwrap/matlab_wrapper/wrapper.py` (`generate_collector_function`,
  `wrap_class_constructors`, `wrap_class_deconstructor`, `mex_function`),
  `gtwrap/matlab_wrapper/templates.py` (`delete_obj`, `delete_all_objects`,
  `collector_function_upcast_from_void`) and `matlab.h` (`create_object`,
  `wrap_shared_ptr`, `unwrap_shared_ptr`) do to the *ownership* state of a MATLAB
  session: C++ objects with a `shared_ptr` strong count, heap cells
  `new std::shared_ptr<StaticClass>(...)`, the per-class collector sets, and the
  MATLAB handle objects that keep one cell address per inheritance level in their
  `ptr_<Class>` properties.

  Only core Lean is imported.  All functions are total and computable.
-/

namespace WrapModel.Gateway

/-! ## Static data -/

/-- One wrapped class.  `base` is an index into the class table. -/
structure ClassInfo where
  name      : String
  base      : Option Nat := none
  isVirtual : Bool := false
  nCtors    : Nat := 1
  deriving Repr, DecidableEq

abbrev ClassTable := List ClassInfo

def baseOf (tbl : ClassTable) (c : Nat) : Option Nat :=
  match tbl[c]? with
  | some ci => ci.base
  | none => none

def isVirtualOf (tbl : ClassTable) (c : Nat) : Bool :=
  match tbl[c]? with
  | some ci => ci.isVirtual
  | none => false

/-- `_<module>_RTTIRegister` registers `typeid(C).name() ↦ <namespaces concatenated><Class>`, while
    the MATLAB class is called `<ns>.<Class>`: the registry entry names an existing classdef only
    for classes outside any namespace (`generate_preamble` uses `_format_class_name` without
    separator). -/
def rttiNameOK (tbl : ClassTable) (c : Nat) : Bool :=
  match tbl[c]? with
  | some ci => !(ci.name.toList.contains '.')
  | none => false

/-- Well-formed table: a base class is declared before the class deriving from it
    (C++ requires the base to be complete, so chains are finite and acyclic). -/
def WF (tbl : ClassTable) : Prop := ∀ c b, baseOf tbl c = some b → b < c

def wfB (tbl : ClassTable) : Bool :=
  (List.range tbl.length).all fun c =>
    match baseOf tbl c with
    | some b => decide (b < c)
    | none => true

/-- Inheritance chain of `c`, most-derived first, bounded by `fuel`. -/
def chainAux (tbl : ClassTable) : Nat → Nat → List Nat
  | 0, c => [c]
  | fuel + 1, c =>
    c :: (match baseOf tbl c with
          | some b => chainAux tbl fuel b
          | none => [])

/-- Inheritance chain `[c, base c, base (base c), …, root]` (for a well-formed table the
    fuel `c` is never exhausted: every step goes to a smaller index). -/
def chain (tbl : ClassTable) (c : Nat) : List Nat := chainAux tbl c c

/-! ## Dynamic state -/

/-- A C++ object of the wrapped library. -/
structure Obj where
  dyn       : Nat          -- dynamic class
  strong    : Nat          -- `shared_ptr` use count
  ext       : Nat          -- owners outside the gateway (library containers, temporaries)
  alive     : Bool
  destroyed : Nat          -- how many times the destructor ran
  deriving Repr, DecidableEq

/-- A heap cell `new std::shared_ptr<cls>(...)`; its address is its index. -/
structure Cell where
  obj      : Nat
  cls      : Nat           -- static class of the shared_ptr
  live     : Bool
  released : Nat           -- how many times `delete` was applied to the address
  deriving Repr, DecidableEq

/-- A MATLAB handle object of classdef `cls`.  `ptrs` lists `(level class, address)` for
    the `ptr_<Class>` property of every inheritance level, most-derived first. -/
structure Handle where
  cls   : Nat
  ptrs  : List (Nat × Nat)
  alive : Bool
  stale : Bool             -- ghost: the module was unloaded after this handle was created
  deriving Repr, DecidableEq

inductive Event where
  | released   (addr : Nat)
  | doubleFree (addr : Nat)
  | destroyed  (obj : Nat)
  deriving Repr, DecidableEq

structure State where
  objs    : List Obj := []
  cells   : List Cell := []
  coll    : List (Nat × Nat) := []    -- all collector sets: `(class, address)`
  handles : List Handle := []
  atExit  : Bool := false             -- `mexAtExit(&_deleteAllObjects)` registered
  log     : List Event := []
  deriving Repr, DecidableEq

def init : State := {}

/-! ## Primitive effects -/

/-- A library function creates an object; the returned `shared_ptr` temporary is its first
    (external) owner. -/
def freshObj (s : State) (d : Nat) : State × Nat :=
  ({ s with objs := s.objs ++ [{ dyn := d, strong := 1, ext := 1, alive := true, destroyed := 0 }] },
   s.objs.length)

/-- `shared_ptr` copy: one more owner. -/
def incStrong (s : State) (o : Nat) : State :=
  match s.objs[o]? with
  | some x => { s with objs := s.objs.set o { x with strong := x.strong + 1 } }
  | none => s

/-- `shared_ptr` destruction: one owner less; the destructor runs when the count reaches 0. -/
def decStrong (s : State) (o : Nat) : State :=
  match s.objs[o]? with
  | some x =>
    if x.strong ≤ 1 then
      { s with objs := s.objs.set o { x with strong := 0, alive := false, destroyed := x.destroyed + 1 },
               log := s.log ++ [Event.destroyed o] }
    else
      { s with objs := s.objs.set o { x with strong := x.strong - 1 } }
  | none => s

/-- An external owner (library container, argument copy) takes a reference. -/
def incExt (s : State) (o : Nat) : State :=
  match s.objs[o]? with
  | some x => { s with objs := s.objs.set o { x with strong := x.strong + 1, ext := x.ext + 1 } }
  | none => s

/-- An external owner lets go. -/
def decExt (s : State) (o : Nat) : State :=
  match s.objs[o]? with
  | some x =>
    if x.ext = 0 then s
    else decStrong { s with objs := s.objs.set o { x with ext := x.ext - 1 } } o
  | none => s

/-- `new std::shared_ptr<c>(p)` where `p` owns object `o`. Returns the address. -/
def newCell (s : State) (o c : Nat) : State × Nat :=
  ({ incStrong s o with cells := s.cells ++ [{ obj := o, cls := c, live := true, released := 0 }] },
   s.cells.length)

/-- `new Shared(new C(...))`: a new object whose only owner is a new cell. -/
def newObjCell (s : State) (c : Nat) : State × Nat × Nat :=
  ({ s with
       objs := s.objs ++ [{ dyn := c, strong := 1, ext := 0, alive := true, destroyed := 0 }],
       cells := s.cells ++ [{ obj := s.objs.length, cls := c, live := true, released := 0 }] },
   s.objs.length, s.cells.length)

/-- `collector_<c>.insert(self)` (a `std::set`, so idempotent). -/
def collInsert (s : State) (c a : Nat) : State :=
  if (c, a) ∈ s.coll then s else { s with coll := s.coll ++ [(c, a)] }

/-- `item = collector_<c>.find(self); if (item != end) erase(item);` -/
def collErase (s : State) (c a : Nat) : State :=
  { s with coll := s.coll.erase (c, a) }

/-- `delete self;` on the cell at address `a`. -/
def deleteCell (s : State) (a : Nat) : State :=
  match s.cells[a]? with
  | some x =>
    if x.live then
      decStrong { s with cells := s.cells.set a { x with live := false, released := x.released + 1 },
                         log := s.log ++ [Event.released a] } x.obj
    else
      { s with cells := s.cells.set a { x with released := x.released + 1 },
               log := s.log ++ [Event.doubleFree a] }
  | none => s

/-! ## Generated routines (`<module>_wrapper.cpp`) -/

/-- `<C>_constructor_<id>`: `mexAtExit; self = new Shared(new C(args)); collector_C.insert(self);
    out[0] = self; [out[1] = new SharedBase(*self)]`.  Returns `(my_ptr, some (Base, base_ptr))`. -/
def rtConstructor (tbl : ClassTable) (s : State) (c : Nat) : State × Nat × Option (Nat × Nat) :=
  let r := newObjCell { s with atExit := true } c
  let s2 := collInsert r.1 c r.2.2
  match baseOf tbl c with
  | some b => let r3 := newCell s2 r.2.1 b; (r3.1, r.2.2, some (b, r3.2))
  | none => (s2, r.2.2, none)

/-- `<C>_collectorInsertAndMakeBase_<id>`: `mexAtExit; collector_C.insert(self);
    [out[0] = new SharedBase(*self)]`. -/
def rtCollectorInsertAndMakeBase (tbl : ClassTable) (s : State) (c p : Nat) :
    State × Option (Nat × Nat) :=
  let s1 := collInsert { s with atExit := true } c p
  match baseOf tbl c, s1.cells[p]? with
  | some b, some x => let r := newCell s1 x.obj b; (r.1, some (b, r.2))
  | _, _ => (s1, none)

/-- `<C>_deconstructor_<id>`: erase from `collector_C` if found, then `delete self`
    (unconditionally — `wrapper.py` emits the `delete` after the `if`). -/
def rtDeconstructor (s : State) (c a : Nat) : State :=
  deleteCell (collErase s c a) a

/-- `_deleteAllObjects`: `for iter in collector_c: delete *iter; collector_c.erase(iter++)`
    for every class.  (The iteration order inside and across the sets is not observable.) -/
def deleteAllObjects (s : State) : State :=
  s.coll.foldl (fun st p => collErase (deleteCell st p.2) p.1 p.2) s

/-! ## Generated MATLAB classdefs, played -/

/-- The classdef constructor called with the magic key and `my_ptr`
    (`nargin == 2` branch): `[base_ptr =] wrapper(collectorInsertAndMakeBase, my_ptr);
    obj = obj@Base(key, base_ptr); obj.ptr_C = my_ptr`.
    Returns the `ptr_` properties that end up set, most-derived first.
    The first argument is recursion fuel; `c` is enough for a well-formed table (`mCtorKey_spec`). -/
def mCtorKey (tbl : ClassTable) : Nat → State → Nat → Nat → State × List (Nat × Nat)
  | 0, s, c, p => ((rtCollectorInsertAndMakeBase tbl s c p).1, [(c, p)])
  | fuel + 1, s, c, p =>
    match rtCollectorInsertAndMakeBase tbl s c p with
    | (s1, some (b, bp)) =>
      let r := mCtorKey tbl fuel s1 b bp
      (r.1, (c, p) :: r.2)
    | (s1, none) => (s1, [(c, p)])

/-- MATLAB allocates the handle object once its constructor chain has returned. -/
def addHandle (s : State) (k : Nat) (ptrs : List (Nat × Nat)) : State × Nat :=
  ({ s with handles := s.handles ++ [{ cls := k, ptrs := ptrs, alive := true, stale := false }] },
   s.handles.length)

/-- `obj = C(args...)` from the MATLAB prompt. -/
def mConstruct (tbl : ClassTable) (s : State) (c : Nat) : State × Nat :=
  match rtConstructor tbl s c with
  | (s1, p, some (b, bp)) =>
    let r := mCtorKey tbl (c - 1) s1 b bp
    addHandle r.1 c ((c, p) :: r.2)
  | (s1, p, none) => addHandle s1 c [(c, p)]

/-- `wrap_shared_ptr(sp, "K", false)`: `heapPtr = new shared_ptr<K>(sp)`, `create_object` →
    `mexCallMATLAB("K", key, heapPtr)` → classdef constructor, key branch. -/
def wrapSharedPtr (tbl : ClassTable) (s : State) (o k : Nat) : State × Nat :=
  let r := newCell s o k
  let r2 := mCtorKey tbl k r.1 k r.2
  addHandle r2.1 k r2.2

/-- `wrap_shared_ptr(sp, _, true)`: the RTTI registry maps `typeid(*sp)` to the MATLAB class of the
    dynamic type `D`; its constructor is called with `'void'`, runs `<D>_upcastFromVoid`
    (`new Shared(static_pointer_cast<D>(*asVoid))`) and continues like the key branch.
    Not reachable from generated routines (they always pass `false`); kept for the header API. -/
def wrapSharedPtrVoid (tbl : ClassTable) (s : State) (o : Nat) : State × Nat :=
  match s.objs[o]? with
  | some x => wrapSharedPtr tbl s o x.dyn
  | none => (s, s.handles.length)

/-- MATLAB destroys handle `h`: `delete(obj)` of the most-derived classdef, then of every base
    classdef up the chain; each body is `wrapper(<deconstructor id>, obj.ptr_<Class>)`. -/
def mDelete (s : State) (h : Nat) : State :=
  match s.handles[h]? with
  | some hd =>
    hd.ptrs.foldl (fun st p => rtDeconstructor st p.1 p.2)
      { s with handles := s.handles.set h { hd with alive := false } }
  | none => s

/-- The MEX module is unloaded (`clear mex`, `clear all`, exit): the registered
    `_deleteAllObjects` runs, the static collectors disappear.  MATLAB handle objects are
    not touched; they become stale. -/
def unload (s : State) : State :=
  let s0 := { s with handles := s.handles.map fun h => { h with stale := true } }
  let s1 := if s0.atExit then deleteAllObjects s0 else s0
  { s1 with coll := [], atExit := false }

/-! ## Operations -/

/-- Address stored in `ptr_<k>` of a handle. -/
def ptrOf (hd : Handle) (k : Nat) : Option Nat :=
  match hd.ptrs.find? (fun p => p.1 == k) with
  | some p => some p.2
  | none => none

/-- What a library entity reached through a routine does to ownership, in execution order. -/
inductive Micro where
  /-- `unwrap_shared_ptr<k>(in[i], "ptr_<k>")` on handle `h` (temporary copy; no net effect). -/
  | use (h k : Nat)
  /-- the library creates an object of dynamic class `d` held by a temporary `shared_ptr`. -/
  | alloc (d : Nat)
  /-- the library keeps a `shared_ptr` to object `o`. -/
  | hold (o : Nat)
  /-- an external owner (library container or temporary) of `o` goes away. -/
  | drop (o : Nat)
  /-- `out[i] = wrap_shared_ptr(sp_to_o, "k", false)`. -/
  | ret (o k : Nat)
  /-- `wrap_shared_ptr(sp_to_o, _, true)`. -/
  | retVoid (o : Nat)
  deriving Repr, DecidableEq

inductive Op where
  | construct (c : Nat)
  | call (ms : List Micro)
  | delete (h : Nat)
  | unload
  deriving Repr

def microStep (tbl : ClassTable) (s : State) : Micro → State
  | .use _ _ => s
  | .alloc d => (freshObj s d).1
  | .hold o => incExt s o
  | .drop o => decExt s o
  | .ret o k => (wrapSharedPtr tbl s o k).1
  | .retVoid o => (wrapSharedPtrVoid tbl s o).1

def step (tbl : ClassTable) (s : State) : Op → State
  | .construct c => (mConstruct tbl s c).1
  | .call ms => ms.foldl (microStep tbl) s
  | .delete h => mDelete s h
  | .unload => unload s

def runFrom (tbl : ClassTable) (s : State) (h : List Op) : State := h.foldl (step tbl) s

def run (tbl : ClassTable) (h : List Op) : State := runFrom tbl init h

/-! ## Session validity (decidable) -/

/-- Handle `h` can be used.  MATLAB guarantees `alive`.  With `strict` it must also not be
    stale (created before the last unload). -/
def handleUsable (strict : Bool) (s : State) (h : Nat) : Bool :=
  match s.handles[h]? with
  | some hd => hd.alive && (!strict || !hd.stale)
  | none => false

def objAlive (s : State) (o : Nat) : Bool :=
  match s.objs[o]? with
  | some x => x.alive
  | none => false

def microValid (strict : Bool) (tbl : ClassTable) (s : State) : Micro → Bool
  | .use h k =>
    handleUsable strict s h &&
      (match s.handles[h]? with
       | some hd => (ptrOf hd k).isSome
       | none => false)
  | .alloc d => decide (d < tbl.length)
  | .hold o => objAlive s o
  | .drop o =>
    (match s.objs[o]? with
     | some x => decide (0 < x.ext)
     | none => false)
  | .ret o k =>
    objAlive s o &&
      (match s.objs[o]? with
       | some x => (chain tbl x.dyn).contains k
       | none => false)
  | .retVoid o =>
    objAlive s o &&
      (match s.objs[o]? with
       | some x => isVirtualOf tbl x.dyn && rttiNameOK tbl x.dyn
       | none => false)

def microsValid (strict : Bool) (tbl : ClassTable) : State → List Micro → Bool
  | _, [] => true
  | s, m :: ms => microValid strict tbl s m && microsValid strict tbl (microStep tbl s m) ms

def opValid (strict : Bool) (tbl : ClassTable) (s : State) : Op → Bool
  | .construct c => decide (c < tbl.length)
  | .call ms => microsValid strict tbl s ms
  | .delete h => handleUsable strict s h
  | .unload => true

def validFrom (strict : Bool) (tbl : ClassTable) : State → List Op → Bool
  | _, [] => true
  | s, op :: ops => opValid strict tbl s op && validFrom strict tbl (step tbl s op) ops

/-- What MATLAB alone guarantees: operations refer to existing, not yet deleted handles
    (and to objects the library can still reach). -/
def MatlabSession (tbl : ClassTable) (h : List Op) : Prop := validFrom false tbl init h = true

/-- `MatlabSession` plus the guard: no handle that survived an unload is used or deleted. -/
def ValidSession (tbl : ClassTable) (h : List Op) : Prop := validFrom true tbl init h = true

instance (tbl : ClassTable) (h : List Op) : Decidable (MatlabSession tbl h) := by
  unfold MatlabSession; infer_instance
instance (tbl : ClassTable) (h : List Op) : Decidable (ValidSession tbl h) := by
  unfold ValidSession; infer_instance

/-! ## Specification vocabulary -/

/-- Counting predicate: live cells whose `shared_ptr` points to object `o`. -/
def pointsTo (o : Nat) (x : Cell) : Bool := x.live && x.obj == o

def HandleOK (tbl : ClassTable) (s : State) (hd : Handle) : Prop :=
  hd.ptrs.map Prod.fst = chain tbl hd.cls ∧ (hd.ptrs.map Prod.snd).Nodup ∧
  ∃ o : Nat, ∀ (c a : Nat), (c, a) ∈ hd.ptrs →
    ∃ x : Cell, s.cells[a]? = some x ∧ x.live = true ∧ x.cls = c ∧ x.obj = o

def HValid (hd : Handle) : Prop := hd.alive = true ∧ hd.stale = false

/-! ## Observation -/

def liveObjsOf (s : State) (c : Nat) : Nat := s.objs.countP fun x => x.alive && x.dyn == c
def collSizeOf (s : State) (c : Nat) : Nat := s.coll.countP fun p => p.1 == c
def liveCells (s : State) : Nat := s.cells.countP fun x => x.live
def doubleFrees (s : State) : Nat := s.cells.countP fun x => decide (1 < x.released)
def doubleDestroys (s : State) : Nat := s.objs.countP fun x => decide (1 < x.destroyed)

def joinWith (sep : String) (l : List String) : String := sep.intercalate l

def enumFrom {α} : Nat → List α → List (Nat × α)
  | _, [] => []
  | n, x :: xs => (n, x) :: enumFrom (n + 1) xs

/-- `live=<per class>;coll=<per class>;objs=<id:dyn:strong of every alive object>` -/
def observe (tbl : ClassTable) (s : State) : String :=
  let cs := List.range tbl.length
  let live := cs.map fun c => toString (liveObjsOf s c)
  let coll := cs.map fun c => toString (collSizeOf s c)
  let objs := (enumFrom 0 s.objs).filterMap fun (p : Nat × Obj) =>
    if p.2.alive then some (toString p.1 ++ ":" ++ toString p.2.dyn ++ ":" ++ toString p.2.strong)
    else none
  "live=" ++ joinWith "," live ++ ";coll=" ++ joinWith "," coll ++ ";objs=" ++ joinWith "," objs

/-! ## Line protocol (see NOTES.md) -/

/-- A declared library entity: qualified name and the constant of its result formula. -/
structure Entity where
  qname : String
  k     : Int
  kind  : String          -- "ctor" | "fn" | "void" | "obj" | "get<slot>" | "set<slot>" | "pobj"
  deriving Repr

/-- An argument of a gateway call as MATLAB passes it. -/
inductive Arg where
  | num (n : Int)          -- numeric scalar (int or double parameter)
  | str (t : String)
  | obj (h k : Nat)        -- handle `h`, unwrapped through `ptr_<k>`
  deriving Repr

structure Cmd where
  op   : Op
  ent  : Option Nat := none     -- entity executed (none: delete / unload)
  args : List Arg := []
  deriving Repr

structure Session where
  gw    : State := {}
  props : List ((Nat × Nat) × Int) := []     -- scalar property values `(object, slot) ↦ value`

def dropS (n : Nat) (t : String) : String := String.ofList (t.toList.drop n)

def parseNat? (t : String) : Option Nat := t.toNat?

def parseInt? (t : String) : Option Int :=
  if t.startsWith "-" then (dropS 1 t).toNat?.map fun n => - (Int.ofNat n)
  else t.toNat?.map Int.ofNat

def parseClass (t : String) : Option ClassInfo :=
  match t.splitOn ":" with
  | [n, b, v] =>
    let base := if b == "-" then some none else (parseNat? b).map some
    match base with
    | some bb => some { name := n, base := bb, isVirtual := v == "1" }
    | none => none
  | _ => none

def parseEntity (t : String) : Option Entity :=
  match t.splitOn ":" with
  | [q, k, kind] => (parseInt? k).map fun kk => { qname := q.replace "." "::", k := kk, kind := kind }
  | _ => none

def parseList {α} (f : String → Option α) (t : String) : Option (List α) :=
  if t == "" then some [] else (t.splitOn ",").mapM f

def parsePair (t : String) : Option (Nat × Nat) :=
  match t.splitOn "." with
  | [a, b] => match parseNat? a, parseNat? b with
    | some x, some y => some (x, y)
    | _, _ => none
  | _ => none

def parseArg (t : String) : Option Arg :=
  if t.startsWith "i" then (parseInt? (dropS 1 t)).map Arg.num
  else if t.startsWith "s" then some (Arg.str (dropS 1 t))
  else if t.startsWith "h" then (parsePair (dropS 1 t)).map fun p => Arg.obj p.1 p.2
  else none

def parseMicro (t : String) : Option Micro :=
  if t.startsWith "alloc" then (parseNat? (dropS 5 t)).map Micro.alloc
  else if t.startsWith "hold" then (parseNat? (dropS 4 t)).map Micro.hold
  else if t.startsWith "drop" then (parseNat? (dropS 4 t)).map Micro.drop
  else if t.startsWith "void" then (parseNat? (dropS 4 t)).map Micro.retVoid
  else if t.startsWith "ret" then (parsePair (dropS 3 t)).map fun p => Micro.ret p.1 p.2
  else none

def argUses : List Arg → List Micro
  | [] => []
  | Arg.obj h k :: r => Micro.use h k :: argUses r
  | _ :: r => argUses r

/-- `new <c> <ent> <args>` | `call <ent> <args> / <micros>` | `del <h>` | `unload`
    (tokens separated by one blank). -/
def parseCmd (t : String) : Option Cmd :=
  match t.splitOn " " with
  | ["unload"] => some { op := Op.unload }
  | ["del", h] => (parseNat? h).map fun hh => { op := Op.delete hh }
  | "new" :: c :: e :: rest =>
    match parseNat? c, parseNat? e, rest.mapM parseArg with
    | some cc, some ee, some as => some { op := Op.construct cc, ent := some ee, args := as }
    | _, _, _ => none
  | "call" :: e :: rest =>
    let as := rest.takeWhile (· != "/")
    let ms := (rest.dropWhile (· != "/")).drop 1
    match parseNat? e, as.mapM parseArg, ms.mapM parseMicro with
    | some ee, some aa, some mm =>
      some { op := Op.call (argUses aa ++ mm), ent := some ee, args := aa }
    | _, _, _ => none
  | _ => none

def handleObj (s : State) (h k : Nat) : Option Nat :=
  match s.handles[h]? with
  | some hd =>
    match ptrOf hd k with
    | some a => (s.cells[a]?).map (·.obj)
    | none => none
  | none => none

def argVal (s : State) : Arg → Int
  | .num n => n
  | .str t => Int.ofNat t.length
  | .obj h k => match handleObj s h k with
    | some o => Int.ofNat o
    | none => -1

def argShow (s : State) : Arg → String
  | .num n => toString n
  | .str t => "'" ++ t ++ "'"
  | .obj h k => match handleObj s h k with
    | some o => "@" ++ toString o
    | none => "@?"

/-- Result formula shared with the instrumented library: `k + Σ (i+1)·value(arg i)`. -/
def resultOf (k : Int) (s : State) (args : List Arg) : Int :=
  (enumFrom 1 args).foldl (fun acc p => acc + Int.ofNat p.1 * argVal s p.2) k

def propLookup (props : List ((Nat × Nat) × Int)) (o j : Nat) : Int :=
  match props.find? (fun p => p.1 == (o, j)) with
  | some p => p.2
  | none => 100 * Int.ofNat o + Int.ofNat j

def slotOf (kind : String) : Option Nat := parseNat? (dropS 3 kind)

def newHandlesShow (tbl : ClassTable) (s0 s1 : State) : List String :=
  (enumFrom s0.handles.length (s1.handles.drop s0.handles.length)).map fun (p : Nat × Handle) =>
    let cname := match tbl[p.2.cls]? with
      | some ci => ci.name
      | none => "?"
    let o := match p.2.ptrs.head? with
      | some q => match s1.cells[q.2]? with
        | some x => toString x.obj
        | none => "?"
      | none => "?"
    "H" ++ toString p.1 ++ ":" ++ cname ++ "@" ++ o

/-- Execute one command; returns the new session and the observation text of the step. -/
def execCmd (tbl : ClassTable) (ents : List Entity) (ss : Session) (cmd : Cmd) : Session × String :=
  let s0 := ss.gw
  let s1 := step tbl s0 cmd.op
  let hs := newHandlesShow tbl s0 s1
  let (trace, ret, props) :=
    match cmd.ent with
    | none => ("-", "-", ss.props)
    | some e =>
      match ents[e]? with
      | none => ("?", "?", ss.props)
      | some en =>
        let self? : Option Nat := match cmd.args.head? with
          | some (Arg.obj h k) => handleObj s0 h k
          | _ => none
        if en.kind == "pobj" then ("-", "-", ss.props)
        else if en.kind.startsWith "get" then
          match self?, slotOf en.kind with
          | some o, some j => ("-", toString (propLookup ss.props o j), ss.props)
          | _, _ => ("-", "?", ss.props)
        else if en.kind.startsWith "set" then
          match self?, slotOf en.kind, cmd.args with
          | some o, some j, [_, Arg.num v] =>
            ("-", "-", ((o, j), v) :: ss.props.filter (fun p => p.1 != (o, j)))
          | _, _, _ => ("-", "?", ss.props)
        else
          let tr := en.qname ++ "(" ++ joinWith "," (cmd.args.map (argShow s0)) ++ ")"
          let r := if en.kind == "void" || en.kind == "obj" || en.kind == "ctor" then "-"
                   else toString (resultOf en.k s0 cmd.args)
          (tr, r, ss.props)
  let retS := if hs.isEmpty then ret else joinWith "," hs
  ({ gw := s1, props := props },
   "call=" ++ trace ++ ";ret=" ++ retS ++ ";" ++ observe tbl s1)

def execAll (tbl : ClassTable) (ents : List Entity) : Session → List Cmd → List String → List String
  | _, [], acc => acc.reverse
  | ss, c :: cs, acc =>
    let r := execCmd tbl ents ss c
    execAll tbl ents r.1 cs (r.2 :: acc)

/-- Line-protocol handler.  `fields = ["c11", <classes>, <entities>, <cmd>, <cmd>, …]`.
    Answer: `ok valid=<0|1> matlab=<0|1> df=<double frees> | <obs 1> | <obs 2> | …` or `error …`. -/
def handleLine (fields : List String) : String :=
  match fields with
  | "c11" :: cls :: ents :: cmds =>
    match parseList parseClass cls, parseList parseEntity ents, cmds.mapM parseCmd with
    | some tbl, some es, some cs =>
      if !wfB tbl then "error class table not well-formed"
      else
        let ops := cs.map (·.op)
        let v := validFrom true tbl init ops
        let m := validFrom false tbl init ops
        let fin := run tbl ops
        let obs := execAll tbl es {} cs []
        "ok valid=" ++ (if v then "1" else "0") ++ " matlab=" ++ (if m then "1" else "0") ++
          " df=" ++ toString (doubleFrees fin + doubleDestroys fin) ++
          (obs.foldl (fun acc o => acc ++ " | " ++ o) "")
    | none, _, _ => "error bad class table"
    | _, none, _ => "error bad entity table"
    | _, _, none => "error bad command"
  | _ => "error unknown request"

end WrapModel.Gateway
