/-
  WrapModel.Model.Runtime.Mx — byte-level model of `/repo/matlab.h` (property C18).

  PLATFORM ASSUMPTION (stated once, used everywhere): x86-64, little-endian, LP64, CHAR_BIT = 8.
    * `__LP64__` is defined, hence `mxUINT32OR64_CLASS = mxUINT64_CLASS`          (matlab.h:54-59)
    * sizeof(bool)=1, sizeof(char)=1 (plain `char` is SIGNED), sizeof(int)=4,
      sizeof(size_t)=8, sizeof(double)=8, sizeof(void*)=8, sizeof(mxChar)=2
    * `mwSize` = `size_t`; `int x = <size_t>` wraps modulo 2^32 (two's complement; gcc/clang).

  WHAT IS MODELLED
    * an `mxArray` = class id, dimensions m × n, complex flag, byte payload (`List (BitVec 8)`);
    * doubles are OPAQUE 64-bit payloads (`BitVec 64`): a copy is a copy, no floating-point
      arithmetic is modelled.  Every place where the C++ performs a genuine numeric conversion
      (double→T casts after `mxGetScalar`, integer→double) goes through the explicit record
      `FloatOps` of UNINTERPRETED functions; all theorems quantify over every `FloatOps`.
      The driver instantiates it with Lean's native `Float` (`FloatOps.native`).
    * `wrap<T>` / `unwrap<T>` are transcribed line by line from matlab.h:125-424, quirks included.
    * a small heap/handle model for `wrap_shared_ptr`, `unwrap_shared_ptr`, `unwrap_ptr`
      (matlab.h:430-518) and the generated collector/destructor code.

  Imports: core only.
-/

namespace WrapModel.Mx

/-! ## Bytes, little-endian stores and loads -/

abbrev Byte := BitVec 8

/-- The `k` low-order bytes of `x`, least significant first (a little-endian store of a
    `k`-byte integer object whose value is `x mod 256^k`). -/
def leBytes : Nat → Nat → List Byte
  | 0, _ => []
  | k + 1, x => BitVec.ofNat 8 x :: leBytes k (x / 256)

/-- Little-endian load: the unsigned integer denoted by a byte string. -/
def fromLE : List Byte → Nat
  | [] => 0
  | b :: bs => b.toNat + 256 * fromLE bs

/-- `memcpy(data + off, bs, bs.length)` on a payload.  An out-of-bounds store is undefined
    behaviour in C; the model leaves the payload unchanged in that case (never reached by the
    transcribed functions on well-formed arrays — see `MxLemmas`). -/
def writeBytes (off : Nat) (bs : List Byte) (data : List Byte) : List Byte :=
  if off + bs.length ≤ data.length then
    data.take off ++ bs ++ data.drop (off + bs.length)
  else data

/-- `len` bytes starting at `off` (out-of-bounds part reads as absent; callers pad via `fromLE`). -/
def readBytes (off len : Nat) (data : List Byte) : List Byte :=
  (data.drop off).take len

/-! ## C integer conversions used by the header -/

/-- `int x = (size_t) n;` — wraps modulo 2^32 into the signed range. -/
def toCInt (n : Nat) : Int := (BitVec.ofNat 32 n).toInt

/-- `(mwSize) i` for an `int i` — sign-extends, then reinterprets as unsigned 64 bit. -/
def toSizeT (i : Int) : Nat := (BitVec.ofInt 64 i).toNat

/-- The dimension fits in a C `int` (decidable guard used by the `_partial` theorems). -/
abbrev FitsInt (n : Nat) : Prop := n < 2 ^ 31

/-- `for (int i = 0; i < k; i++) s = body(i, s)` for a non-negative trip count `k`.
    `loopUpTo (k+1) body s = body k (loopUpTo k body s)`: iterations run in the order 0,1,…,k-1. -/
def loopUpTo : Nat → (Nat → σ → σ) → σ → σ
  | 0, _, s => s
  | k + 1, body, s => body k (loopUpTo k body s)

/-- `for (int i = 0; i < m; i++) …` with an `int` bound: no iteration when `m ≤ 0`. -/
def forInt (m : Int) (body : Nat → σ → σ) (s : σ) : σ := loopUpTo m.toNat body s

/-! ## mxArray -/

/-- `mxClassID` with MATLAB's numeric values (`ClassId.toNat`). -/
inductive ClassId
  | unknown | cell | struct | logical | char | void | double | single
  | int8 | uint8 | int16 | uint16 | int32 | uint32 | int64 | uint64
  | functionHandle | opaqueClass | object
deriving DecidableEq, Repr, Inhabited

namespace ClassId

def toNat : ClassId → Nat
  | unknown => 0 | cell => 1 | struct => 2 | logical => 3 | char => 4 | void => 5
  | double => 6 | single => 7 | int8 => 8 | uint8 => 9 | int16 => 10 | uint16 => 11
  | int32 => 12 | uint32 => 13 | int64 => 14 | uint64 => 15 | functionHandle => 16
  | opaqueClass => 17 | object => 18

def ofNat? : Nat → Option ClassId
  | 0 => some unknown | 1 => some cell | 2 => some struct | 3 => some logical
  | 4 => some char | 5 => some void | 6 => some double | 7 => some single
  | 8 => some int8 | 9 => some uint8 | 10 => some int16 | 11 => some uint16
  | 12 => some int32 | 13 => some uint32 | 14 => some int64 | 15 => some uint64
  | 16 => some functionHandle | 17 => some opaqueClass | 18 => some object | _ => none

/-- Bytes per element of the numeric payload.  Cell/struct/function/… arrays have no numeric
    payload in this model (element size 0). -/
def elemSize : ClassId → Nat
  | logical => 1 | char => 2 | double => 8 | single => 4
  | int8 => 1 | uint8 => 1 | int16 => 2 | uint16 => 2
  | int32 => 4 | uint32 => 4 | int64 => 8 | uint64 => 8
  | _ => 0

end ClassId

/-- `#define mxUINT32OR64_CLASS mxUINT64_CLASS` under `__LP64__` (matlab.h:54-59). -/
abbrev mxUINT32OR64_CLASS : ClassId := .uint64

structure MxArray where
  classId : ClassId
  m : Nat
  n : Nat
  complex : Bool
  data : List Byte
deriving DecidableEq, Repr

/-- Payload length agrees with class and dimensions. -/
def MxArray.WF (a : MxArray) : Prop := a.data.length = a.m * a.n * a.classId.elemSize

instance (a : MxArray) : Decidable a.WF := by unfold MxArray.WF; infer_instance

/-- An error raised through `mexErrMsgIdAndTxt(id, msg)`. -/
structure MxError where
  id : String
  msg : String
deriving DecidableEq, Repr

scoped instance [DecidableEq ε] [DecidableEq α] : DecidableEq (Except ε α)
  | .ok a, .ok b => if h : a = b then isTrue (h ▸ rfl) else isFalse (fun e => by cases e; exact h rfl)
  | .error a, .error b =>
      if h : a = b then isTrue (h ▸ rfl) else isFalse (fun e => by cases e; exact h rfl)
  | .ok _, .error _ => isFalse (fun e => by cases e)
  | .error _, .ok _ => isFalse (fun e => by cases e)

/-! ### The part of the MEX API that the header uses (documented behaviour) -/

/-- `mxCreateNumericMatrix(m, n, classid, mxREAL)`: zero-initialised. -/
def mxCreateNumericMatrix (m n : Nat) (cid : ClassId) : MxArray :=
  { classId := cid, m := m, n := n, complex := false,
    data := List.replicate (m * n * cid.elemSize) 0 }

/-- `mxCreateNumericArray(ndim, dims, classid, mxREAL)`: zero-initialised; fewer than two
    dimensions are padded with 1; `mxGetN` is the product of dimensions 2…ndim. -/
def mxCreateNumericArray (dims : List Nat) (cid : ClassId) : MxArray :=
  mxCreateNumericMatrix (dims.getD 0 1) ((dims.drop 1).foldl (· * ·) 1) cid

/-- `mxCreateDoubleMatrix(m, n, mxREAL)`: zero-initialised. -/
def mxCreateDoubleMatrix (m n : Nat) : MxArray := mxCreateNumericMatrix m n .double

/-- `mxCreateDoubleScalar(value)`. -/
def mxCreateDoubleScalar (value : BitVec 64) : MxArray :=
  { classId := .double, m := 1, n := 1, complex := false, data := leBytes 8 value.toNat }

/-- The bytes a `const char*` designates: everything before the first NUL. -/
def cstr (s : List Byte) : List Byte := s.takeWhile (· != 0)

/-- `mxCreateString(p)`: a 1×N char array (N = strlen p), each `char` widened (as unsigned)
    to a 16-bit `mxChar`, stored little-endian.  The empty string is the 0×0 char array (MATLAB's `''`). -/
def mxCreateString (p : List Byte) : MxArray :=
  let s := cstr p
  { classId := .char, m := (if s.isEmpty then 0 else 1), n := s.length, complex := false,
    data := s.flatMap (fun b => [b, 0]) }

def mxGetM (a : MxArray) : Nat := a.m
def mxGetN (a : MxArray) : Nat := a.n
def mxGetClassID (a : MxArray) : ClassId := a.classId
def mxIsDouble (a : MxArray) : Bool := a.classId == .double
def mxIsComplex (a : MxArray) : Bool := a.complex

/-- `mxArrayToString`: NULL (`none`) unless the array is a char array; otherwise the elements in
    column-major order, each `mxChar` narrowed to its low byte (byte-transparent locale), without
    the terminating NUL that the real buffer carries. -/
def mxArrayToString (a : MxArray) : Option (List Byte) :=
  if a.classId == .char then
    some ((List.range (a.m * a.n)).map (fun k => (a.data.getD (2 * k) 0)))
  else none

/-! ### Floating point: uninterpreted -/

/-- Every genuine numeric conversion the header can perform.  Nothing is assumed about these
    functions; `double` values are their 64-bit patterns, `float` values their 32-bit patterns. -/
structure FloatOps where
  /-- exact-or-rounded integer → double (`(double) i`) -/
  ofInt : Int → BitVec 64
  /-- float → double widening -/
  ofFloat32 : BitVec 32 → BitVec 64
  /-- `(bool) d` i.e. `d != 0.0` -/
  toBool : BitVec 64 → Bool
  /-- `(char) d` -/
  toI8 : BitVec 64 → BitVec 8
  /-- `(unsigned char) d` -/
  toU8 : BitVec 64 → BitVec 8
  /-- `(int) d` -/
  toI32 : BitVec 64 → BitVec 32
  /-- `(size_t) d` -/
  toU64 : BitVec 64 → BitVec 64

/-- Unsigned little-endian load of `len` bytes at byte offset `off`. -/
def loadU (data : List Byte) (off len : Nat) : Nat := fromLE (readBytes off len data)

/-- Signed little-endian load of `len` bytes at byte offset `off`. -/
def loadS (data : List Byte) (off len : Nat) : Int :=
  let u := loadU data off len
  if u < 2 ^ (8 * len - 1) then (u : Int) else (u : Int) - (2 ^ (8 * len) : Nat)

/-- `mxGetScalar`: the first element converted to `double`; 0.0 for cell/struct (documented)
    and, in the mock, for every other non-numeric class. -/
def mxGetScalar (F : FloatOps) (a : MxArray) : BitVec 64 :=
  match a.classId with
  | .double => BitVec.ofNat 64 (loadU a.data 0 8)
  | .single => F.ofFloat32 (BitVec.ofNat 32 (loadU a.data 0 4))
  | .logical => F.ofInt (loadU a.data 0 1)
  | .char => F.ofInt (loadU a.data 0 2)
  | .int8 => F.ofInt (loadS a.data 0 1)
  | .uint8 => F.ofInt (loadU a.data 0 1)
  | .int16 => F.ofInt (loadS a.data 0 2)
  | .uint16 => F.ofInt (loadU a.data 0 2)
  | .int32 => F.ofInt (loadS a.data 0 4)
  | .uint32 => F.ofInt (loadU a.data 0 4)
  | .int64 => F.ofInt (loadS a.data 0 8)
  | .uint64 => F.ofInt (loadU a.data 0 8)
  | _ => F.ofInt 0

/-! ## matlab.h:78-91 — utilities -/

/-- `void error(const char* str) { mexErrMsgIdAndTxt("wrap:error", str); }` -/
def error (str : String) : Except MxError α := .error { id := "wrap:error", msg := str }

/-- ```
    mxArray *scalar(mxClassID classid) {
      mwSize dims[1]; dims[0]=1;
      return mxCreateNumericArray(1, dims, classid, mxREAL);
    }
    ``` -/
def scalar (classid : ClassId) : MxArray := mxCreateNumericArray [1] classid

/-- ```
    void checkScalar(const mxArray* array, const char* str) {
      int m = mxGetM(array), n = mxGetN(array);
      if (m!=1 || n!=1)
        mexErrMsgIdAndTxt("wrap: not a scalar in ", str);
    }
    ```
    Note the `int` conversions: a dimension of 2^32+1 is accepted as 1. -/
def checkScalar (array : MxArray) (str : String) : Except MxError Unit :=
  let m := toCInt (mxGetM array); let n := toCInt (mxGetN array)
  if m != 1 || n != 1 then
    .error { id := "wrap: not a scalar in ", msg := str }
  else .ok ()

/-! ## matlab.h:125-229 — wrap -/

/-- C++ value types as bit patterns. -/
abbrev CChar := BitVec 8      -- plain (signed) char
abbrev CUChar := BitVec 8
abbrev CInt := BitVec 32
abbrev CSizeT := BitVec 64
abbrev CDouble := BitVec 64   -- opaque IEEE-754 pattern
abbrev CString := List Byte   -- std::string contents (may contain NUL)

def sizeofBool : Nat := 1
def sizeofChar : Nat := 1
def sizeofInt : Nat := 4
def sizeofSizeT : Nat := 8
def sizeofDouble : Nat := 8
def sizeofMxChar : Nat := 2

/-- `*(T*)mxGetData(result) = value;` — store `size` bytes at offset 0 of the payload. -/
def storeAt0 (result : MxArray) (size : Nat) (value : Nat) : MxArray :=
  { result with data := writeBytes 0 (leBytes size value) result.data }

/-- `wrap<string>`: `return mxCreateString(value.c_str());` -/
def wrapString (value : CString) : MxArray := mxCreateString value

/-- `wrap<char>`: `scalar(mxUINT32OR64_CLASS)` then `*(char*)mxGetData(result) = value`. -/
def wrapChar (value : CChar) : MxArray :=
  let result := scalar mxUINT32OR64_CLASS
  storeAt0 result sizeofChar value.toNat

/-- `wrap<unsigned char>` -/
def wrapUChar (value : CUChar) : MxArray :=
  let result := scalar mxUINT32OR64_CLASS
  storeAt0 result sizeofChar value.toNat

/-- `wrap<bool>`: the object representation of `true` is the byte 1, of `false` the byte 0. -/
def wrapBool (value : Bool) : MxArray :=
  let result := scalar mxUINT32OR64_CLASS
  storeAt0 result sizeofBool (if value then 1 else 0)

/-- `wrap<size_t>` -/
def wrapSizeT (value : CSizeT) : MxArray :=
  let result := scalar mxUINT32OR64_CLASS
  storeAt0 result sizeofSizeT value.toNat

/-- `wrap<int>`: only 4 of the 8 zero-initialised bytes are written. -/
def wrapInt (value : CInt) : MxArray :=
  let result := scalar mxUINT32OR64_CLASS
  storeAt0 result sizeofInt value.toNat

/-- `wrap<double>`: `return mxCreateDoubleScalar(value);` -/
def wrapDouble (value : CDouble) : MxArray := mxCreateDoubleScalar value

/-- `gtsam::Vector` stand-in: the list of coefficients; `v(i)` is `v.getD i 0`. -/
abbrev Vec := List CDouble

/-- `data[p] = x` on a `double*` view of the payload. -/
def storeDouble (data : List Byte) (p : Nat) (x : CDouble) : List Byte :=
  writeBytes (sizeofDouble * p) (leBytes sizeofDouble x.toNat) data

/-- `data[p]` on a `double*` view of the payload. -/
def loadDouble (data : List Byte) (p : Nat) : CDouble :=
  BitVec.ofNat 64 (loadU data (sizeofDouble * p) sizeofDouble)

/-- ```
    mxArray* wrap_Vector(const gtsam::Vector& v) {
      int m = v.size();
      mxArray *result = mxCreateDoubleMatrix(m, 1, mxREAL);
      double *data = mxGetPr(result);
      for (int i=0;i<m;i++) data[i]=v(i);
      return result;
    }
    ``` -/
def wrapVector (v : Vec) : MxArray :=
  let m : Int := toCInt v.length
  let result := mxCreateDoubleMatrix (toSizeT m) 1
  let data := forInt m (fun i data => storeDouble data i (v.getD i 0)) result.data
  { result with data := data }

/-- `wrap<Point2>` / `wrap<Point3>`: `return wrap_Vector(v);` -/
def wrapPoint2 (v : Vec) : MxArray := wrapVector v
def wrapPoint3 (v : Vec) : MxArray := wrapVector v

/-- `gtsam::Matrix` stand-in: dimensions and coefficients stored ROW-major (the storage order of
    the stand-in is irrelevant to matlab.h, which only uses `rows()`, `cols()`, `operator()`). -/
structure Mat where
  rows : Nat
  cols : Nat
  elems : List CDouble
deriving DecidableEq, Repr

def Mat.WF (A : Mat) : Prop := A.elems.length = A.rows * A.cols
instance (A : Mat) : Decidable A.WF := by unfold Mat.WF; infer_instance

/-- `A(i,j)` -/
def Mat.get (A : Mat) (i j : Nat) : CDouble := A.elems.getD (i * A.cols + j) 0
/-- `A(i,j) = x` -/
def Mat.set (A : Mat) (i j : Nat) (x : CDouble) : Mat :=
  { A with elems := A.elems.set (i * A.cols + j) x }
/-- `gtsam::Matrix A(m,n)` (coefficients irrelevant; the stand-in zero-fills). -/
def Mat.new (m n : Nat) : Mat := { rows := m, cols := n, elems := List.replicate (m * n) 0 }

/-- ```
    mxArray* wrap_Matrix(const gtsam::Matrix& A) {
      int m = A.rows(), n = A.cols();
      mxArray *result = mxCreateDoubleMatrix(m, n, mxREAL);
      double *data = mxGetPr(result);
      // converts from column-major to row-major
      for (int j=0;j<n;j++) for (int i=0;i<m;i++,data++) *data = A(i,j);
      return result;
    }
    ```
    The loop state is (payload, running `data` pointer as an element offset). -/
def wrapMatrix (A : Mat) : MxArray :=
  let m : Int := toCInt A.rows; let n : Int := toCInt A.cols
  let result := mxCreateDoubleMatrix (toSizeT m) (toSizeT n)
  let st := forInt n (fun j st =>
              forInt m (fun i (st : List Byte × Nat) =>
                (storeDouble st.1 st.2 (A.get i j), st.2 + 1)) st)
            (result.data, 0)
  { result with data := st.1 }

/-! ## matlab.h:255-415 — unwrap -/

/-- ```
    string unwrap<string>(const mxArray* array) {
      char *data = mxArrayToString(array);
      if (data==NULL) error("unwrap<string>: not a character array");
      string str(data);
      mxFree(data);
      return str;
    }
    ``` -/
def unwrapString (array : MxArray) : Except MxError CString :=
  match mxArrayToString array with
  | none => error "unwrap<string>: not a character array"
  | some data => .ok (cstr data)          -- `string str(data)` stops at the first NUL

/-- The three C casts `myGetScalar<T>` can perform, per target type `T`. -/
structure CType (α : Type) where
  /-- `(T) x` for `std::int64_t x` -/
  ofI64 : BitVec 64 → α
  /-- `(T) x` for `std::uint64_t x` -/
  ofU64 : BitVec 64 → α
  /-- `(T) d` for `double d` (bit pattern) -/
  ofDouble : BitVec 64 → α

/-- ```
    template <typename T> T myGetScalar(const mxArray* array) {
      switch (mxGetClassID(array)) {
        case mxINT64_CLASS:  return (T) *(std::int64_t*) mxGetData(array);
        case mxUINT64_CLASS: return (T) *(std::uint64_t*) mxGetData(array);
        default:             return (T) mxGetScalar(array);   // hope for the best!
      }
    }
    ``` -/
def myGetScalar (F : FloatOps) (T : CType α) (array : MxArray) : α :=
  match mxGetClassID array with
  | .int64 => T.ofI64 (BitVec.ofNat 64 (loadU array.data 0 8))
  | .uint64 => T.ofU64 (BitVec.ofNat 64 (loadU array.data 0 8))
  | _ => T.ofDouble (mxGetScalar F array)

/-- `(bool) x` is `x != 0`. -/
def CType.bool (F : FloatOps) : CType Bool :=
  { ofI64 := fun x => x != 0, ofU64 := fun x => x != 0, ofDouble := F.toBool }
/-- integer → `char` keeps the low 8 bits. -/
def CType.char (F : FloatOps) : CType CChar :=
  { ofI64 := fun x => x.setWidth 8, ofU64 := fun x => x.setWidth 8, ofDouble := F.toI8 }
def CType.uchar (F : FloatOps) : CType CUChar :=
  { ofI64 := fun x => x.setWidth 8, ofU64 := fun x => x.setWidth 8, ofDouble := F.toU8 }
/-- integer → `int` keeps the low 32 bits. -/
def CType.int (F : FloatOps) : CType CInt :=
  { ofI64 := fun x => x.setWidth 32, ofU64 := fun x => x.setWidth 32, ofDouble := F.toI32 }
def CType.sizeT (F : FloatOps) : CType CSizeT :=
  { ofI64 := fun x => x, ofU64 := fun x => x, ofDouble := F.toU64 }
/-- integer → `double` is a numeric conversion; `(double) d` is the identity. -/
def CType.double (F : FloatOps) : CType CDouble :=
  { ofI64 := fun x => F.ofInt x.toInt, ofU64 := fun x => F.ofInt x.toNat, ofDouble := fun d => d }

/-- `unwrap<bool>`: `checkScalar(array,"unwrap<bool>"); return myGetScalar<bool>(array);` -/
def unwrapBool (F : FloatOps) (array : MxArray) : Except MxError Bool := do
  checkScalar array "unwrap<bool>"
  return myGetScalar F (CType.bool F) array

def unwrapChar (F : FloatOps) (array : MxArray) : Except MxError CChar := do
  checkScalar array "unwrap<char>"
  return myGetScalar F (CType.char F) array

def unwrapUChar (F : FloatOps) (array : MxArray) : Except MxError CUChar := do
  checkScalar array "unwrap<unsigned char>"
  return myGetScalar F (CType.uchar F) array

def unwrapInt (F : FloatOps) (array : MxArray) : Except MxError CInt := do
  checkScalar array "unwrap<int>"
  return myGetScalar F (CType.int F) array

def unwrapSizeT (F : FloatOps) (array : MxArray) : Except MxError CSizeT := do
  checkScalar array "unwrap<size_t>"
  return myGetScalar F (CType.sizeT F) array

def unwrapDouble (F : FloatOps) (array : MxArray) : Except MxError CDouble := do
  checkScalar array "unwrap<double>"
  return myGetScalar F (CType.double F) array

/-- `gtsam::Vector v(m)` (coefficients irrelevant; the stand-in zero-fills). -/
def Vec.new (m : Nat) : Vec := List.replicate m 0

/-- ```
    gtsam::Vector unwrap< gtsam::Vector >(const mxArray* array) {
      int m = mxGetM(array), n = mxGetN(array);
      if (mxIsDouble(array)==false || n!=1) error("unwrap<vector>: not a vector");
      double* data = (double*)mxGetData(array);
      gtsam::Vector v(m);
      for (int i=0;i<m;i++,data++) v(i) = *data;
      return v;
    }
    ```
    A negative `m` (dimension ≥ 2^31 wrapped into `int`) makes `Vector v(m)` an Eigen assertion
    failure / undefined behaviour; the stand-in class throws, which the model reports as the
    error `standin:size` — outside the guarded domain of every round-trip theorem. -/
def unwrapVector (array : MxArray) : Except MxError Vec :=
  let m : Int := toCInt (mxGetM array); let n : Int := toCInt (mxGetN array)
  if mxIsDouble array == false || n != 1 then error "unwrap<vector>: not a vector"
  else if m < 0 then .error { id := "standin:size", msg := "negative size" }
  else
    let v := Vec.new m.toNat
    let st := forInt m (fun i (st : Vec × Nat) =>
                (st.1.set i (loadDouble array.data st.2), st.2 + 1)) (v, 0)
    .ok st.1

/-- `unwrap<Point2>`: textually the same body as `unwrap<Vector>` (same error message), then the
    dynamic vector is converted to the fixed-size `Point2`; the stand-in (like Eigen's assertion)
    rejects a size other than 2. -/
def unwrapPoint2 (array : MxArray) : Except MxError Vec := do
  let v ← unwrapVector array
  if v.length != 2 then .error { id := "standin:size", msg := "Point2" } else return v

def unwrapPoint3 (array : MxArray) : Except MxError Vec := do
  let v ← unwrapVector array
  if v.length != 3 then .error { id := "standin:size", msg := "Point3" } else return v

/-- ```
    gtsam::Matrix unwrap< gtsam::Matrix >(const mxArray* array) {
      if (mxIsDouble(array)==false) error("unwrap<matrix>: not a matrix");
      int m = mxGetM(array), n = mxGetN(array);
      double* data = (double*)mxGetData(array);
      gtsam::Matrix A(m,n);
      // converts from row-major to column-major
      for (int j=0;j<n;j++) for (int i=0;i<m;i++,data++) A(i,j) = *data;
      return A;
    }
    ``` -/
def unwrapMatrix (array : MxArray) : Except MxError Mat :=
  if mxIsDouble array == false then error "unwrap<matrix>: not a matrix"
  else
    let m : Int := toCInt (mxGetM array); let n : Int := toCInt (mxGetN array)
    if m < 0 || n < 0 then .error { id := "standin:size", msg := "negative size" }  -- see unwrapVector
    else
    let A := Mat.new m.toNat n.toNat
    let st := forInt n (fun j st =>
                forInt m (fun i (st : Mat × Nat) =>
                  (st.1.set i j (loadDouble array.data st.2), st.2 + 1)) st)
              (A, 0)
    .ok st.1

/-! ## matlab.h:430-518 — object handles

  State of the world:
    * C++ objects with a shared_ptr strong count and an `alive` flag (cleared by the destructor,
      which runs when a decrement brings the count to 0) and the number `ext` of references the
      C++ side itself still holds (the ghost of "external owners");
    * heap cells: `new std::shared_ptr<Class>(sp)` — address ↦ object;
    * the collector (`std::set<shared_ptr<Class>*>`) of the wrap module;
    * MATLAB handle objects, each storing the property `ptr_<Class>`, an `mxArray`
      (plus the ghost `origin`: the object it was created for by `wrap_shared_ptr`).

  Idealisations (see NOTES.md): a bump allocator (addresses are not reused; `new` fails with
  bad_alloc when the 64-bit address space is exhausted); only the non-virtual path
  (`isVirtual = false`); the MATLAB constructor called through `mexCallMATLAB` with
  `ptr_constructor_key` stores the pointer array in the property and inserts the pointer into the
  collector; MATLAB runs the `delete` method of a handle object exactly once.
-/

/- Object identifiers and heap addresses are plain natural numbers (notation, not a new type,
   so that `omega` sees through them). -/
local notation "ObjId" => Nat
local notation "Addr" => Nat

structure Obj where
  count : Nat
  alive : Bool
  ext : Nat
deriving DecidableEq, Repr

structure HandleObj where
  prop : MxArray
  origin : Option ObjId
deriving DecidableEq, Repr

structure HState where
  objs : List Obj
  cells : List (Addr × ObjId)
  nextAddr : Addr
  collector : List Addr
  handles : List (Nat × HandleObj)
  nextHandle : Nat
deriving DecidableEq, Repr

def heapBase : Addr := 0x1000
def heapStep : Addr := 16

def HState.init : HState :=
  { objs := [], cells := [], nextAddr := heapBase, collector := [], handles := [], nextHandle := 0 }

inductive HErr
  /-- an explicit guard of the op rejected it; no C++ code ran -/
  | guard (what : String)
  /-- matlab.h reported an error -/
  | mx (e : MxError)
  /-- undefined behaviour would be executed (dangling dereference, double delete) -/
  | ub (what : String)
  /-- `new` failed -/
  | badAlloc
deriving DecidableEq, Repr

/-- What `unwrap_ptr` returns: a pointer into some region of memory. -/
inductive Ptr
  | object (o : ObjId)
  | heapCell (a : Addr)
  /-- the payload of (a copy of) the property array of handle `h` -/
  | mxData (h : Nat)
deriving DecidableEq, Repr

inductive Res
  | unit | obj (o : ObjId) | handle (h : Nat) | ptr (p : Ptr)
deriving DecidableEq, Repr

inductive Op
  /-- C++ side: `std::make_shared<Class>(…)`, held in a local -/
  | newObject
  /-- `wrap_shared_ptr(sp, name, false)` for a reference the C++ side holds -/
  | wrapShared (o : ObjId)
  /-- `unwrap_shared_ptr<Class>(handle, "ptr_Class")`; the returned copy dies immediately -/
  | unwrapShared (h : Nat)
  /-- `unwrap_ptr<Class>(handle, "ptr_Class")` -/
  | unwrapPtr (h : Nat)
  /-- MATLAB deletes the handle object: generated destructor, then the object disappears -/
  | release (h : Nat)
  /-- the C++ side drops one of its own references -/
  | dropExternal (o : ObjId)
  /-- a MATLAB object whose `ptr_` property is an arbitrary zero array (never from `wrap`) -/
  | fake (cid : ClassId) (m n : Nat) (complex : Bool)
deriving DecidableEq, Repr

namespace HState

def count (s : HState) (o : ObjId) : Nat := (s.objs.getD o ⟨0, false, 0⟩).count
def alive (s : HState) (o : ObjId) : Bool := (s.objs.getD o ⟨0, false, 0⟩).alive
def ext (s : HState) (o : ObjId) : Nat := (s.objs.getD o ⟨0, false, 0⟩).ext
/-- number of live heap cells whose shared_ptr designates `o` -/
def cellsTo (s : HState) (o : ObjId) : Nat := s.cells.countP (fun c => c.2 == o)
def handle? (s : HState) (h : Nat) : Option HandleObj := s.handles.lookup h
def cell? (s : HState) (a : Addr) : Option ObjId := s.cells.lookup a

/-- copy-construct a `shared_ptr` designating `o` -/
def incr (s : HState) (o : ObjId) : HState :=
  { s with objs := s.objs.modify o (fun x => { x with count := x.count + 1 }) }

/-- destroy a `shared_ptr` designating `o`; the object's destructor runs when the count hits 0 -/
def decr (s : HState) (o : ObjId) : HState :=
  { s with objs := s.objs.modify o (fun x =>
      { x with count := x.count - 1, alive := if x.count - 1 = 0 then false else x.alive }) }

end HState

/-- The 1×1 uint64 array holding a pointer: `mxCreateNumericMatrix(1,1,mxUINT32OR64_CLASS,mxREAL)`
    then `*reinterpret_cast<void**>(mxGetData(a)) = pointer` (matlab.h:438-439). -/
def ptrMx (pointer : Addr) : MxArray :=
  let a := mxCreateNumericMatrix 1 1 mxUINT32OR64_CLASS
  storeAt0 a 8 pointer

/-- `ptr_constructor_key` (matlab.h:64-72): "GTSAMptr" as a big-endian 64-bit number. -/
def ptr_constructor_key : Nat := 0x475453414d707472

/-- `create_object(classname, pointer, false, "")` (matlab.h:430-479, non-virtual path) together
    with the MATLAB side it triggers: `input[0]` = key, `input[1]` = pointer array;
    `mexCallMATLAB` runs the proxy constructor, which recognises the key, calls
    `collectorInsertAndMakeBase` (`collector.insert(self)`) and stores `input[1]` in `ptr_…`. -/
def create_object (s : HState) (pointer : Addr) (origin : Option ObjId) : HState × Nat :=
  let input0 := storeAt0 (mxCreateNumericMatrix 1 1 .uint64) 8 ptr_constructor_key
  let input1 := ptrMx pointer
  -- MATLAB constructor: `isa(varargin{1},'uint64') && varargin{1} == uint64(5139824614673773682)`
  if input0.classId == .uint64 && loadU input0.data 0 8 == 5139824614673773682 then
    let self := loadU input1.data 0 8
    let h := s.nextHandle
    ({ s with collector := if s.collector.contains self then s.collector else s.collector ++ [self],
              handles := s.handles ++ [(h, { prop := input1, origin := origin })],
              nextHandle := h + 1 }, h)
  else (s, s.nextHandle)  -- unreachable: the key always matches

/-- ```
    std::shared_ptr<Class> *heapPtr = new std::shared_ptr<Class>(shared_ptr);
    result = create_object(matlabName, heapPtr, isVirtual, "");
    ```
    GUARD: the C++ caller actually holds a reference to `o` (`ext o > 0`). -/
def wrap_shared_ptr (s : HState) (o : ObjId) : Except HErr (HState × Res) :=
  if s.ext o = 0 then .error (.guard "noext")
  else if s.nextAddr + heapStep > 2 ^ 64 then .error .badAlloc
  else
    let heapPtr := s.nextAddr
    let s := s.incr o                                   -- copy-construct into the heap cell
    let s := { s with cells := s.cells ++ [(heapPtr, o)], nextAddr := heapPtr + heapStep }
    let (s, h) := create_object s heapPtr (some o)
    .ok (s, .handle h)

/-- ```
    mxArray* mxh = mxGetProperty(obj,0, propertyName.c_str());
    if (mxGetClassID(mxh) != mxUINT32OR64_CLASS || mxIsComplex(mxh)
      || mxGetM(mxh) != 1 || mxGetN(mxh) != 1) error("Parameter is not an Shared type.");
    std::shared_ptr<Class>* spp = *reinterpret_cast<std::shared_ptr<Class>**> (mxGetData(mxh));
    return *spp;
    ```
    GUARD: `h` is an existing MATLAB handle object.  The returned `shared_ptr` is a temporary of
    the calling wrapper function: count +1 on return, −1 when it goes out of scope. -/
def unwrap_shared_ptr (s : HState) (h : Nat) : Except HErr (HState × Res) :=
  match s.handle? h with
  | none => .error (.guard "nohandle")
  | some obj =>
    let mxh := obj.prop
    if mxGetClassID mxh != mxUINT32OR64_CLASS || mxIsComplex mxh
        || mxGetM mxh != 1 || mxGetN mxh != 1 then
      .error (.mx { id := "wrap:error", msg := "Parameter is not an Shared type." })
    else
      let spp := loadU mxh.data 0 8
      match s.cell? spp with
      | none => .error (.ub "dangling shared_ptr*")
      | some o =>
        let s := s.incr o        -- `return *spp;`
        let s := s.decr o        -- the temporary dies
        .ok (s, .obj o)

/-- ```
    mxArray* mxh = mxGetProperty(obj,0, propertyName.c_str());
    Class* x = reinterpret_cast<Class*> (mxGetData(mxh));
    return x;
    ```
    AS WRITTEN: the address of the property array's payload (which *contains* the address of the
    heap cell), not the object.  No check at all.  GUARDS: `h` exists and was produced by
    `wrap_shared_ptr` (the driver classifies the pointer by reading 8 bytes through it). -/
def unwrap_ptr (s : HState) (h : Nat) : Except HErr (HState × Res) :=
  match s.handle? h with
  | none => .error (.guard "nohandle")
  | some obj =>
    if obj.origin.isNone then .error (.guard "fake")
    else .ok (s, .ptr (.mxData h))

/-- The generated destructor (`<Class>_deconstructor_k` in every `*_wrapper.cpp`):
    ```
    Shared *self = *reinterpret_cast<Shared**>(mxGetData(in[0]));
    item = collector.find(self);
    if(item != collector.end()) collector.erase(item);
    delete self;
    ```
    UNGUARDED: `delete` of an address that is not a live cell is undefined (double free). -/
def destructorCall (s : HState) (in0 : MxArray) : Except HErr HState :=
  let self := loadU in0.data 0 8
  let s := { s with collector := s.collector.filter (· != self) }
  match s.cell? self with
  | none => .error (.ub "delete of a dead shared_ptr*")
  | some o =>
    let s := { s with cells := s.cells.filter (fun c => c.1 != self) }
    .ok (s.decr o)

/-- MATLAB deletes handle object `h`: `delete(obj)` calls the destructor with `obj.ptr_…`, then
    the object ceases to exist.  GUARDS: `h` is an existing handle object (MATLAB runs `delete`
    once per object) that was produced by `wrap_shared_ptr`. -/
def release (s : HState) (h : Nat) : Except HErr (HState × Res) :=
  match s.handle? h with
  | none => .error (.guard "nohandle")
  | some obj =>
    if obj.origin.isNone then .error (.guard "fake")
    else
      match destructorCall s obj.prop with
      | .error e => .error e
      | .ok s => .ok ({ s with handles := s.handles.filter (fun p => p.1 != h) }, .unit)

def step (s : HState) : Op → Except HErr (HState × Res)
  | .newObject =>
      .ok ({ s with objs := s.objs ++ [{ count := 1, alive := true, ext := 1 }] },
           .obj s.objs.length)
  | .wrapShared o => wrap_shared_ptr s o
  | .unwrapShared h => unwrap_shared_ptr s h
  | .unwrapPtr h => unwrap_ptr s h
  | .release h => release s h
  | .dropExternal o =>
      if s.ext o = 0 then .error (.guard "noext")
      else
        let s := { s with objs := s.objs.modify o (fun x => { x with ext := x.ext - 1 }) }
        .ok (s.decr o, .unit)
  | .fake cid m n c =>
      -- GUARD: a forged 1×1 real uint64 property would make `unwrap_shared_ptr` dereference 0
      if cid == .uint64 && m == 1 && n == 1 && !c then .error (.guard "forged")
      else
        let a := { mxCreateNumericMatrix m n cid with complex := c }
        let h := s.nextHandle
        .ok ({ s with handles := s.handles ++ [(h, { prop := a, origin := none })],
                      nextHandle := h + 1 }, .handle h)

/-- Run a history; a rejected/failed op leaves the state unchanged and the history continues
    (this is what the driver does).  Returns the final state and the per-step outcomes. -/
def run : HState → List Op → HState × List (Except HErr Res)
  | s, [] => (s, [])
  | s, op :: ops =>
    match step s op with
    | .ok (s', r) => let (t, rs) := run s' ops; (t, .ok r :: rs)
    | .error e => let (t, rs) := run s ops; (t, .error e :: rs)

/-- The state after a history. -/
def exec (s : HState) (ops : List Op) : HState := (run s ops).1

/-! ## Line protocol (driver) -/

section Protocol

/-- Native instantiation of the uninterpreted conversions, for the differential driver only.
    Lean's `Float.toIntN` saturate where C is undefined; the generator stays in range. -/
def FloatOps.native : FloatOps :=
  { ofInt := fun i => (Float.ofInt i).toBits.toBitVec
    ofFloat32 := fun b => (Float32.ofBits (UInt32.ofBitVec b)).toFloat.toBits.toBitVec
    toBool := fun d => (Float.ofBits (UInt64.ofBitVec d)) != 0.0
    toI8 := fun d => (Float.ofBits (UInt64.ofBitVec d)).toInt8.toBitVec
    toU8 := fun d => (Float.ofBits (UInt64.ofBitVec d)).toUInt8.toBitVec
    toI32 := fun d => (Float.ofBits (UInt64.ofBitVec d)).toInt32.toBitVec
    toU64 := fun d => (Float.ofBits (UInt64.ofBitVec d)).toUInt64.toBitVec }

def hexDigit (n : Nat) : Char :=
  if n < 10 then Char.ofNat (48 + n) else Char.ofNat (87 + n)

def hexByte (b : Byte) : String :=
  String.ofList [hexDigit (b.toNat / 16), hexDigit (b.toNat % 16)]

/-- bytes as lowercase hex; the empty payload is `-` -/
def hexBytes (bs : List Byte) : String :=
  if bs.isEmpty then "-" else String.join (bs.map hexByte)

/-- a 64-bit pattern as 16 hex digits, most significant first -/
def hex64 (x : BitVec 64) : String :=
  String.join ((leBytes 8 x.toNat).reverse.map hexByte)

def hex64s (xs : List (BitVec 64)) : String :=
  if xs.isEmpty then "-" else String.join (xs.map hex64)

/-- canonical decimal: 1–20 ASCII digits, value below 2^64 (no sign, no separators) -/
def parseNat? (s : String) : Option Nat :=
  let cs := s.toList
  if cs.isEmpty || cs.length > 20 || !cs.all Char.isDigit then none
  else
    let v := cs.foldl (fun acc c => 10 * acc + (c.toNat - 48)) 0
    if v < 2 ^ 64 then some v else none

/-- optional `-` followed by canonical decimal; range of a 64-bit signed integer -/
def parseInt? (s : String) : Option Int :=
  match s.toList with
  | '-' :: rest => do
      let v ← parseNat? (String.ofList rest)
      if v ≤ 2 ^ 63 then pure (-(v : Int)) else none
  | _ => do
      let v ← parseNat? s
      if v < 2 ^ 63 then pure (v : Int) else none

def hexVal? (c : Char) : Option Nat :=
  if '0' ≤ c ∧ c ≤ '9' then some (c.toNat - 48)
  else if 'a' ≤ c ∧ c ≤ 'f' then some (c.toNat - 87)
  else none

def parseHexBytes? (s : String) : Option (List Byte) :=
  if s == "-" then some [] else
  let rec go : List Char → Option (List Byte)
    | [] => some []
    | [_] => none
    | a :: b :: rest => do
      let x ← hexVal? a; let y ← hexVal? b; let r ← go rest
      pure (BitVec.ofNat 8 (16 * x + y) :: r)
  go s.toList

def chunk8 : Nat → List Byte → List (List Byte)
  | 0, _ => []
  | _, [] => []
  | fuel + 1, bs => bs.take 8 :: chunk8 fuel (bs.drop 8)

/-- concatenated 16-digit big-endian hex numbers -/
def parseHex64s? (s : String) : Option (List (BitVec 64)) := do
  let bs ← parseHexBytes? s
  if bs.length % 8 != 0 then none
  else pure ((chunk8 bs.length bs).map (fun c => BitVec.ofNat 64 (fromLE c.reverse)))

def showErr (e : MxError) : String := s!"err {e.id}|{e.msg}"

def showMx (a : MxArray) : String :=
  s!"mx {a.classId.toNat} {a.m} {a.n} {hexBytes a.data}"

def showVec (v : Vec) : String := s!"{v.length} {hex64s v}"
def showMat (A : Mat) : String := s!"{A.rows} {A.cols} {hex64s A.elems}"

def showExcept (f : α → String) : Except MxError α → String
  | .ok v => "ok " ++ f v
  | .error e => showErr e

/-- A value of one of the supported types, parsed from protocol fields. -/
inductive Val
  | bool (b : Bool) | char (c : CChar) | uchar (c : CUChar) | int (i : CInt) | sizeT (n : CSizeT)
  | double (d : CDouble) | string (s : CString) | vector (v : Vec) | point2 (v : Vec)
  | point3 (v : Vec) | matrix (A : Mat)

def parseVal? (ty : String) (args : List String) : Option Val :=
  match ty, args with
  | "bool", [v] => match v with | "0" => some (.bool false) | "1" => some (.bool true) | _ => none
  | "char", [v] => do let i ← parseInt? v; if -128 ≤ i ∧ i ≤ 127 then pure (.char (BitVec.ofInt 8 i)) else none
  | "uchar", [v] => do let n ← parseNat? v; if n < 256 then pure (.uchar (BitVec.ofNat 8 n)) else none
  | "int", [v] => do
      let i ← parseInt? v
      if -2147483648 ≤ i ∧ i ≤ 2147483647 then pure (.int (BitVec.ofInt 32 i)) else none
  | "size_t", [v] => do let n ← parseNat? v; if n < 2 ^ 64 then pure (.sizeT (BitVec.ofNat 64 n)) else none
  | "double", [v] => do
      let ds ← parseHex64s? v
      match ds with | [d] => pure (.double d) | _ => none
  | "string", [v] => do let bs ← parseHexBytes? v; pure (.string bs)
  | "vector", [len, v] => do
      let n ← parseNat? len; let ds ← parseHex64s? v
      if ds.length = n then pure (.vector ds) else none
  | "point2", [len, v] => do
      let n ← parseNat? len; let ds ← parseHex64s? v
      if ds.length = n ∧ n = 2 then pure (.point2 ds) else none
  | "point3", [len, v] => do
      let n ← parseNat? len; let ds ← parseHex64s? v
      if ds.length = n ∧ n = 3 then pure (.point3 ds) else none
  | "matrix", [r, c, v] => do
      let r ← parseNat? r; let c ← parseNat? c; let ds ← parseHex64s? v
      if ds.length = r * c then pure (.matrix ⟨r, c, ds⟩) else none
  | _, _ => none

def wrapVal : Val → MxArray
  | .bool b => wrapBool b | .char c => wrapChar c | .uchar c => wrapUChar c
  | .int i => wrapInt i | .sizeT n => wrapSizeT n | .double d => wrapDouble d
  | .string s => wrapString s | .vector v => wrapVector v | .point2 v => wrapPoint2 v
  | .point3 v => wrapPoint3 v | .matrix A => wrapMatrix A

def unwrapShow (F : FloatOps) (ty : String) (a : MxArray) : Option String :=
  match ty with
  | "bool" => some (showExcept (fun b => if b then "1" else "0") (unwrapBool F a))
  | "char" => some (showExcept (fun (c : CChar) => toString c.toInt) (unwrapChar F a))
  | "uchar" => some (showExcept (fun (c : CUChar) => toString c.toNat) (unwrapUChar F a))
  | "int" => some (showExcept (fun (c : CInt) => toString c.toInt) (unwrapInt F a))
  | "size_t" => some (showExcept (fun (c : CSizeT) => toString c.toNat) (unwrapSizeT F a))
  | "double" => some (showExcept hex64 (unwrapDouble F a))
  | "string" => some (showExcept hexBytes (unwrapString a))
  | "vector" => some (showExcept showVec (unwrapVector a))
  | "point2" => some (showExcept showVec (unwrapPoint2 a))
  | "point3" => some (showExcept showVec (unwrapPoint3 a))
  | "matrix" => some (showExcept showMat (unwrapMatrix a))
  | _ => none

def parseMx? (cid m n payload : String) : Option MxArray := do
  let c ← parseNat? cid; let c ← ClassId.ofNat? c
  let m ← parseNat? m; let n ← parseNat? n; let bs ← parseHexBytes? payload
  if m ≤ 2 ^ 40 ∧ n ≤ 2 ^ 40 ∧ bs.length = m * n * c.elemSize then
    pure { classId := c, m := m, n := n, complex := false, data := bs }
  else none

def parseOp? (tok : String) : Option Op :=
  match tok.splitOn ":" with
  | ["new"] => some .newObject
  | ["wrap", o] => do let o ← parseNat? o; pure (.wrapShared o)
  | ["unwrap", h] => do let h ← parseNat? h; pure (.unwrapShared h)
  | ["ptr", h] => do let h ← parseNat? h; pure (.unwrapPtr h)
  | ["release", h] => do let h ← parseNat? h; pure (.release h)
  | ["drop", o] => do let o ← parseNat? o; pure (.dropExternal o)
  | ["fake", cid, m, n, c] => do
      let cid ← parseNat? cid; let cid ← ClassId.ofNat? cid
      let m ← parseNat? m; let n ← parseNat? n
      let c ← (match c with | "0" => some false | "1" => some true | _ => none)
      if m ≤ 16 ∧ n ≤ 16 then pure (.fake cid m n c) else none
  | _ => none

def showRes : Except HErr Res → String
  | .ok .unit => "ok"
  | .ok (.obj o) => s!"o{o}"
  | .ok (.handle h) => s!"h{h}"
  | .ok (.ptr (.object _)) => "object"
  | .ok (.ptr (.heapCell _)) => "heapcell"
  | .ok (.ptr (.mxData _)) => "mxdata"
  | .error (.guard w) => s!"guard:{w}"
  | .error (.mx e) => s!"err:{e.id}|{e.msg}"
  | .error (.ub w) => s!"ub:{w}"
  | .error .badAlloc => "badalloc"

def showState (s : HState) : String :=
  let alive := if s.objs.isEmpty then "-" else
    String.ofList (s.objs.map (fun o => if o.alive then '1' else '0'))
  let counts := if s.objs.isEmpty then "-" else
    String.intercalate "," (s.objs.map (fun o => toString o.count))
  s!"{alive}/{counts}/{s.collector.length}"

/-- one output item per op: `<result>/<alive flags>/<strong counts>/<collector size>` -/
def runShow : HState → List Op → List String
  | _, [] => []
  | s, op :: ops =>
    match step s op with
    | .ok (s', r) => s!"{showRes (.ok r)}/{showState s'}" :: runShow s' ops
    | .error e => s!"{showRes (.error e)}/{showState s}" :: runShow s ops

def allSome : List (Option α) → Option (List α)
  | [] => some []
  | none :: _ => none
  | some a :: r => (allSome r).map (a :: ·)

/-- The line protocol (see NOTES.md).  Fields are the TAB-separated parts of an input line. -/
def handleLine (fields : List String) : String :=
  let F := FloatOps.native
  match fields with
  | "wrap" :: ty :: args =>
    match parseVal? ty args with
    | some v => showMx (wrapVal v)
    | none => "bad"
  | "rt" :: ty :: args =>
    match parseVal? ty args with
    | some v =>
      let a := wrapVal v
      match unwrapShow F ty a with
      | some r => s!"{showMx a} => {r}"
      | none => "bad"
    | none => "bad"
  | ["unwrap", ty, cid, m, n, payload] =>
    match parseMx? cid m n payload with
    | some a => (unwrapShow F ty a).getD "bad"
    | none => "bad"
  | ["handles", ops] =>
    match allSome ((ops.splitOn " ").map parseOp?) with
    | some ops => String.intercalate ";" (runShow HState.init ops)
    | none => "bad"
  | _ => "bad"

end Protocol

end WrapModel.Mx
