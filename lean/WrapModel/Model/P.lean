/-
  The parser is written once as a program over an abstract token source: a free monad `P`
  whose only effect is `ask q`, "try to read a token of kind `q` here".  It can then be run
  on characters (`run`, the model of what the tool does) and on typed lexeme lists
  (`Model/Tok.lean`, used by the C01/C07/C12 theorems); theorems that relate the two
  interpretations are proved once, by induction over `P`, for every parser whatsoever.
-/
import WrapModel.Model.Syntax
import WrapModel.Model.Lex

namespace WrapModel

/-- token requests; each skips the preceding gap (except `header`) and consumes only on a match -/
inductive Q where
  | word                -- IDENT
  | alpha               -- Word(alphas)
  | kw (k : String)     -- Keyword(k)
  | lit (t : String)    -- Literal(t) / Suppress(t)
  | stdPair             -- Literal('std::') + Keyword('pair')
  | opsym               -- OPERATOR
  | dflt                -- DEFAULT_ARG
  | header              -- CharsNotIn('>')
  | eof                 -- stringEnd
deriving Repr, BEq, DecidableEq

inductive P (α : Type) where
  | ret (a : α)
  | fail (e : Err)
  | ask (q : Q) (k : Option String → P α)

namespace P

def bind : P α → (α → P β) → P β
  | .ret a, f => f a
  | .fail e, _ => .fail e
  | .ask q k, f => .ask q (fun r => bind (k r) f)

instance : Monad P where
  pure := P.ret
  bind := P.bind

/-- probe: `some text` if a token of kind `q` was read (and consumed) -/
def tok (q : Q) : P (Option String) := .ask q .ret
/-- probe returning whether it matched -/
def probe (q : Q) : P Bool := .ask q (fun r => .ret r.isSome)
/-- demand: parse failure if absent -/
def need (q : Q) : P String := .ask q (fun r => match r with | some s => .ret s | none => .fail .parse)
def expect (q : Q) : P Unit := .ask q (fun r => match r with | some _ => .ret () | none => .fail .parse)
def failParse : P α := .fail .parse
def failValidation : P α := .fail .validation

end P

open Lex in
/-- what the characters answer to a request -/
def answerC (q : Q) (s : Src) : Option (String × Src) :=
  match q with
  | .word => word s
  | .alpha => alphaWord s
  | .kw k => (kw k s).map (fun r => (k, r))
  | .lit t => (lit t s).map (fun r => (t, r))
  | .stdPair => (stdPair s).map (fun r => ("std::pair", r))
  | .opsym => opsym s
  | .dflt => dflt s
  | .header => header s
  | .eof => if eof s then some ("", []) else none

/-- run a parser on characters -/
def P.run : P α → Lex.Src → Except Err (α × Lex.Src)
  | .ret a, s => .ok (a, s)
  | .fail e, _ => .error e
  | .ask q k, s =>
    match answerC q s with
    | some (t, r) => (k (some t)).run r
    | none => (k none).run s

end WrapModel
