/- canonical text of an instantiated tree; mirror of `harness/pydump.py: imodule` -/
import WrapModel.Model.Inst
import WrapModel.Model.Dump

namespace WrapModel.IDump
open WrapModel WrapModel.Inst WrapModel.Dump

def iarg (a : Arg) : String :=
  "A(" ++ ty a.ctype ++ "," ++ q (tyToCpp a.ctype) ++ "," ++ q a.name ++ "," ++ opt q a.default ++ ")"
def iargs (as : List Arg) : String := L (as.map iarg)
def iret (r : RetType) : String :=
  "R(" ++ ty r.type1 ++ "," ++ opt ty r.type2 ++ "," ++ q (retToCpp r) ++ "," ++ (if isVoid r then "void" else "-") ++ ")"

def ictor (c : ICtor) : String := "ICtor(" ++ q c.name ++ "," ++ q c.toCpp ++ "," ++ iargs c.args ++ ")"
def imethod (m : IMethod) : String :=
  (if m.isStatic then "IStatic(" else "IMethod(") ++ q m.name ++ "," ++ q m.toCpp ++ "," ++ iret m.ret ++ ","
    ++ iargs m.args ++ (if m.isStatic then "" else "," ++ bflag m.isConst "c") ++ ")"
def ivar (v : VarDecl) : String :=
  "Var(" ++ ty v.ctype ++ "," ++ q (tyToCpp v.ctype) ++ "," ++ q v.name ++ "," ++ opt q v.default ++ ")"
def iop (o : IOp) : String := "Op(" ++ q o.sym ++ "," ++ iret o.ret ++ "," ++ iargs o.args ++ ")"
def ienum (e : EnumDecl) : String := "Enum(" ++ q e.name ++ "," ++ L (e.enumerators.map q) ++ ")"

def iclass (c : IClass) : String :=
  "IClass(" ++ q c.name ++ "," ++ q c.toCpp ++ "," ++ path (some c.nsPath) ++ "," ++ bflag c.isVirtual "v" ++ ","
    ++ opt (fun t => q (tnToCpp t)) c.parentClass ++ "," ++ L (c.insts.map tn) ++ ","
    ++ L (c.ctors.map ictor) ++ "," ++ L (c.methods.map imethod) ++ "," ++ L (c.statics.map imethod) ++ ","
    ++ L (c.dunders.map fun d => "Dunder(" ++ q d.1 ++ "," ++ iargs d.2 ++ ")") ++ ","
    ++ L (c.props.map ivar) ++ "," ++ L (c.ops.map iop) ++ "," ++ L (c.enums.map ienum) ++ ")"

def ifunc (f : IFunc) : String :=
  "IFunc(" ++ q f.name ++ "," ++ q f.toCpp ++ "," ++ path (some f.nsPath) ++ "," ++ iret f.ret ++ "," ++ iargs f.args ++ ")"

def ifwd (d : IFwd) : String := "IDecl(" ++ q d.name ++ "," ++ q d.toCpp ++ "," ++ path (some d.nsPath) ++ ")"

mutual
  def idecl (p : List String) : IDecl → String
    | .fwd v t par => "Fwd(" ++ bflag v "v" ++ "," ++ tn t ++ "," ++ opt tn par ++ "," ++ path (some p) ++ ")"
    | .incl h => "Include(" ++ q h ++ "," ++ path (some p) ++ ")"
    | .enum e => enumD e (some p)
    | .var v => varD v (some p)
    | .cls c => iclass c
    | .func f => ifunc f
    | .decl d => ifwd d
    | .ns name ds => "Ns(" ++ q name ++ ",[" ++ idecls (p ++ [name]) ds ++ "])"
  def idecls (p : List String) : List IDecl → String
    | [] => ""
    | [d] => idecl p d
    | d :: ds => idecl p d ++ ",\n" ++ idecls p ds
end

def imodule (m : List IDecl) : String := "Ns(\"\",[" ++ idecls [""] m ++ "])"

end WrapModel.IDump

/-! ### C++-spelling dump: names, order, scope and `to_cpp()` only (C02 / C08 / C13 oracle) -/
namespace WrapModel.IDump
open WrapModel WrapModel.Inst WrapModel.Dump

def cArgs (as : List Arg) : String :=
  ",".intercalate (as.map fun a => tyToCpp a.ctype ++ " " ++ a.name ++ (match a.default with | some d => "=" ++ d | none => ""))

def cMethod (tag : String) (m : IMethod) : String :=
  "  " ++ tag ++ " " ++ m.name ++ " | " ++ m.toCpp ++ " | " ++ retToCpp m.ret ++ " | (" ++ cArgs m.args ++ ")"
    ++ (if m.isConst then " const" else "") ++ "\n"

def cClass (c : IClass) : String :=
  "C " ++ c.name ++ " | " ++ c.toCpp ++ " | " ++ "::".intercalate c.nsPath ++ " | "
    ++ (match c.parentClass with | some p => tnToCpp p | none => "-") ++ (if c.isVirtual then " | virtual" else "") ++ "\n"
    ++ String.join (c.ctors.map fun k => "  K " ++ k.name ++ " | " ++ k.toCpp ++ " | (" ++ cArgs k.args ++ ")\n")
    ++ String.join (c.methods.map (cMethod "M"))
    ++ String.join (c.statics.map (cMethod "S"))
    ++ String.join (c.props.map fun p => "  P " ++ p.name ++ " | " ++ tyToCpp p.ctype ++ (match p.default with | some d => " = " ++ d | none => "") ++ "\n")
    ++ String.join (c.ops.map fun o => "  O " ++ o.sym ++ " | " ++ retToCpp o.ret ++ " | (" ++ cArgs o.args ++ ")\n")
    ++ String.join (c.enums.map fun e => "  E " ++ e.name ++ "\n")
    ++ String.join (c.dunders.map fun d => "  U " ++ d.1 ++ " | (" ++ cArgs d.2 ++ ")\n")

mutual
  def cDecl : IDecl → String
    | .fwd _ t _ => "W " ++ tnToCpp t ++ "\n"
    | .incl h => "I " ++ h ++ "\n"
    | .enum e => "E " ++ e.name ++ "\n"
    | .var v => "V " ++ v.name ++ " | " ++ tyToCpp v.ctype ++ "\n"
    | .cls c => cClass c
    | .func f => "F " ++ f.name ++ " | " ++ f.toCpp ++ " | " ++ "::".intercalate f.nsPath ++ " | " ++ retToCpp f.ret
        ++ " | (" ++ cArgs f.args ++ ")\n"
    | .decl d => "D " ++ d.name ++ " | " ++ d.toCpp ++ " | " ++ "::".intercalate d.nsPath ++ "\n"
    | .ns n ds => "N " ++ n ++ " {\n" ++ cDecls ds ++ "}\n"
  def cDecls : List IDecl → String
    | [] => ""
    | d :: ds => cDecl d ++ cDecls ds
end

def cppModule (m : List IDecl) : String := cDecls m

end WrapModel.IDump
