/-
  WrapModel.Model.Packrat — an abstract model of a pyparsing-style recursive-descent engine
  with and without packrat memoisation (property C19).

  * `Expr`/`Grammar`: a PEG-style expression language.  A grammar is a *table* of `R = G.size`
    expressions; sub-expressions are referred to by their index in the table (so `R` is the
    exact analogue of "number of distinct `ParserElement` objects reachable from `Module.rule`").
  * `Key`: what pyparsing's packrat cache is keyed by: (expression, location, doActions,
    callPreParse)  (the input string is fixed).
  * `step`: ONE definition of what evaluating an expression means, parameterised by the function
    `call` used for sub-expressions.  Both engines below are instances of `step`, so they cannot
    disagree about the semantics of a constructor.
  * `plain`: the un-memoised engine (pyparsing `_parseNoCache`) threading a call counter.
  * `memo`: the memoising engine with an UNBOUNDED table (no eviction).  It counts misses
    (= un-memoised evaluations = `_parseNoCache` calls) and hits.
  * `memoFifo`: the memoising engine with a bounded FIFO table (pyparsing's real cache, 128
    entries by default).

  Everything is total and computable; recursion is by fuel (= recursion depth budget).
  Core Lean only.
-/
namespace WrapModel.Packrat

/-- Expressions.  Children are indices into the grammar table. -/
inductive Expr where
  /-- literal string (pyparsing `Literal`/`Keyword`/`Suppress(Literal)`); `lit []` is ε -/
  | lit (s : List Char)
  /-- one character out of a set (pyparsing `Word`/`Char`, one step of it) -/
  | chr (cs : List Char)
  /-- sequence `a + b` (pyparsing `And`) -/
  | seq (a b : Nat)
  /-- ordered choice `a | b` (pyparsing `MatchFirst`) -/
  | alt (a b : Nat)
  /-- longest-match choice `a ^ b` (pyparsing `Or`): tries BOTH alternatives with
      `doActions = false`, then re-evaluates the winner with the caller's `doActions` -/
  | orL (a b : Nat)
  /-- optional (pyparsing `Opt`) -/
  | opt (a : Nat)
  /-- zero or more (pyparsing `ZeroOrMore`) -/
  | star (a : Nat)
  /-- one or more (pyparsing `OneOrMore`) -/
  | plus (a : Nat)
  /-- negative look-ahead (pyparsing `NotAny`, `~a`) -/
  | notP (a : Nat)
  /-- reference to another rule (pyparsing `Forward`) -/
  | ref (a : Nat)
  deriving Repr, DecidableEq, Inhabited

/-- A grammar: the table of all expressions.  `G.size` is the `R` of the cost bound. -/
abbrev Grammar := Array Expr

/-- Memoisation key: expression id, input position, and pyparsing's two boolean flags. -/
structure Key where
  id  : Nat
  pos : Nat
  /-- pyparsing `doActions` -/
  da  : Bool
  /-- pyparsing `callPreParse` (skip leading whitespace before matching) -/
  cp  : Bool
  deriving DecidableEq, Repr

/-- Outcome of an evaluation. -/
inductive Out where
  /-- finished: `some q` = matched up to position `q`; `none` = no match (ParseException) -/
  | done (r : Option Nat)
  /-- re-entered a key that is still being evaluated (left recursion; pyparsing: RecursionError) -/
  | loop
  /-- ran out of fuel -/
  | fuel
  deriving DecidableEq, Repr

/-- A way of evaluating sub-expressions, threading a state `σ` (counter / memo table). -/
abbrev Call (σ : Type) := Key → σ → Out × σ

/-- Run a sub-evaluation; continue if it finished, propagate `loop`/`fuel` otherwise. -/
@[inline] def bind {σ : Type} (call : Call σ) (k : Key) (s : σ)
    (cont : Option Nat → σ → Out × σ) : Out × σ :=
  match call k s with
  | (.done r, s') => cont r s'
  | (.loop, s') => (.loop, s')
  | (.fuel, s') => (.fuel, s')

/-- Winner of a longest-match choice: `false` = first alternative, `true` = second.
    Ties go to the first alternative (pyparsing sorts stably by match length). -/
def pickLongest : Option Nat → Option Nat → Option Bool
  | none, none => none
  | some _, none => some false
  | none, some _ => some true
  | some x, some y => some (decide (x < y))

/-- pyparsing `preParse`: skip whitespace. -/
def skipWs (inp : List Char) (p : Nat) : Nat :=
  p + ((inp.drop p).takeWhile Char.isWhitespace).length

/-- Position at which matching starts for key `k`. -/
def startPos (inp : List Char) (k : Key) : Nat :=
  if k.cp then skipWs inp k.pos else k.pos

/-- The meaning of one expression `e` (which has index `self` in the table), at the already
    pre-parsed position `p`, with `doActions = da`; sub-expressions are evaluated with `call`.
    The flag propagation follows pyparsing 3.1.1: `And` passes `callPreParse=False` to its first
    element only; `Or` tries with `doActions=False` and re-parses the winner; `NotAny` looks ahead
    with `doActions=False`; `Forward` passes `callPreParse=False`.  Repetition stops when an
    iteration makes no progress (pyparsing would spin forever there). -/
def step {σ : Type} (call : Call σ) (e : Expr) (self : Nat) (inp : List Char) (p : Nat)
    (da : Bool) (s : σ) : Out × σ :=
  match e with
  | .lit cs => (.done (if cs.isPrefixOf (inp.drop p) then some (p + cs.length) else none), s)
  | .chr cs =>
    (.done (match inp.drop p with
            | c :: _ => if cs.contains c then some (p + 1) else none
            | [] => none), s)
  | .seq a b =>
    bind call ⟨a, p, da, false⟩ s fun r s1 =>
      match r with
      | some q => call ⟨b, q, da, true⟩ s1
      | none => (.done none, s1)
  | .alt a b =>
    bind call ⟨a, p, da, true⟩ s fun r s1 =>
      match r with
      | some q => (.done (some q), s1)
      | none => call ⟨b, p, da, true⟩ s1
  | .orL a b =>
    bind call ⟨a, p, false, true⟩ s fun ra s1 =>
      bind call ⟨b, p, false, true⟩ s1 fun rb s2 =>
        match pickLongest ra rb with
        | none => (.done none, s2)
        | some w => call ⟨if w then b else a, p, da, true⟩ s2
  | .opt a =>
    bind call ⟨a, p, da, true⟩ s fun r s1 =>
      match r with
      | some q => (.done (some q), s1)
      | none => (.done (some p), s1)
  | .star a =>
    bind call ⟨a, p, da, true⟩ s fun r s1 =>
      match r with
      | some q => if p < q then call ⟨self, q, da, false⟩ s1 else (.done (some p), s1)
      | none => (.done (some p), s1)
  | .plus a =>
    bind call ⟨a, p, da, true⟩ s fun r s1 =>
      match r with
      | some q =>
        if p < q then
          bind call ⟨self, q, da, false⟩ s1 fun r' s2 =>
            match r' with
            | some q' => (.done (some q'), s2)
            | none => (.done (some q), s2)
        else (.done (some q), s1)
      | none => (.done none, s1)
  | .notP a =>
    bind call ⟨a, p, false, true⟩ s fun r s1 =>
      match r with
      | some _ => (.done none, s1)
      | none => (.done (some p), s1)
  | .ref a => call ⟨a, p, da, false⟩ s

/-! ### The plain (un-memoised) engine -/

/-- Un-memoised evaluation (pyparsing `_parseNoCache`); the `Nat` state counts evaluations.
    Keys outside the table / beyond the input fail without being counted. -/
def plain (G : Grammar) (inp : List Char) : Nat → Call Nat
  | 0, _, c => (.fuel, c)
  | f + 1, k, c =>
    match G[k.id]? with
    | none => (.done none, c)
    | some e =>
      if k.pos ≤ inp.length then
        step (plain G inp f) e k.id inp (startPos inp k) k.da (c + 1)
      else (.done none, c)

/-- `Den G inp k r`: un-memoised evaluation of key `k` terminates with result `r`. -/
def Den (G : Grammar) (inp : List Char) (k : Key) (r : Option Nat) : Prop :=
  ∃ f, ∀ c, (plain G inp f k c).1 = .done r

/-- Number of un-memoised evaluations for key `k` with fuel `f`. -/
def plainCalls (G : Grammar) (inp : List Char) (f : Nat) (k : Key) : Nat :=
  (plain G inp f k 0).2

/-! ### The memoising engine, unbounded table -/

/-- Table slot. `inprog` marks a key whose evaluation has started and not finished. -/
inductive Slot where
  | inprog
  | done (r : Option Nat)
  deriving DecidableEq, Repr

/-- Memo state: the table (a functional map), and the miss and hit counters. -/
structure St where
  tbl    : Key → Option Slot
  misses : Nat
  hits   : Nat

def St.init : St := ⟨fun _ => none, 0, 0⟩

/-- Functional update of the table. -/
def St.set (s : St) (k : Key) (v : Slot) : St :=
  { s with tbl := fun k' => if k' = k then some v else s.tbl k' }

def St.miss (s : St) : St := { s with misses := s.misses + 1 }
def St.hit (s : St) : St := { s with hits := s.hits + 1 }

/-- Well-formedness of a memo table: every stored finished result is what un-memoised
    evaluation of that key computes. -/
def St.WF (G : Grammar) (inp : List Char) (s : St) : Prop :=
  ∀ k r, s.tbl k = some (.done r) → Den G inp k r

/-- Memoising evaluation with an unbounded table (NO eviction).  A miss first marks the key
    `inprog` (so the key is present from then on), evaluates with `step`, and stores the result.
    Only misses evaluate anything; `misses` is the model's `_parseNoCache` call count. -/
def memo (G : Grammar) (inp : List Char) : Nat → Call St
  | 0, _, s => (.fuel, s)
  | f + 1, k, s =>
    match G[k.id]? with
    | none => (.done none, s)
    | some e =>
      if k.pos ≤ inp.length then
        match s.tbl k with
        | some (.done r) => (.done r, s.hit)
        | some .inprog => (.loop, s)
        | none =>
          match step (memo G inp f) e k.id inp (startPos inp k) k.da (s.miss.set k .inprog) with
          | (.done r, s') => (.done r, s'.set k (.done r))
          | (.loop, s') => (.loop, s')
          | (.fuel, s') => (.fuel, s')
      else (.done none, s)

/-- Fuel that always suffices for `memo` started on the empty table (see
    `memo_fuel_sufficient`): one more than the size of the key space. -/
def memoFuel (G : Grammar) (inp : List Char) : Nat := 4 * G.size * (inp.length + 1) + 1

/-- Run the memoising engine from the empty table with sufficient fuel. -/
def runMemo (G : Grammar) (inp : List Char) (k : Key) : Out × St :=
  memo G inp (memoFuel G inp) k St.init

/-! ### The memoising engine, bounded FIFO table (pyparsing's real cache) -/

/-- Bounded FIFO cache: a queue of finished results, oldest first. -/
structure Fifo where
  q      : List (Key × Option Nat)
  cap    : Nat
  misses : Nat
  hits   : Nat

def Fifo.init (cap : Nat) : Fifo := ⟨[], cap, 0, 0⟩

def Fifo.find (q : List (Key × Option Nat)) (k : Key) : Option (Option Nat) :=
  match q with
  | [] => none
  | (k', r) :: rest => if k' = k then some r else Fifo.find rest k

/-- Append; if over capacity drop the oldest entries. -/
def Fifo.push (s : Fifo) (k : Key) (r : Option Nat) : Fifo :=
  let q' := s.q ++ [(k, r)]
  { s with q := q'.drop (q'.length - s.cap) }

/-- Memoising evaluation with a FIFO table of capacity `cap` (eviction possible, no re-entry
    marker — exactly pyparsing's scheme). -/
def memoFifo (G : Grammar) (inp : List Char) : Nat → Call Fifo
  | 0, _, s => (.fuel, s)
  | f + 1, k, s =>
    match G[k.id]? with
    | none => (.done none, s)
    | some e =>
      if k.pos ≤ inp.length then
        match Fifo.find s.q k with
        | some r => (.done r, { s with hits := s.hits + 1 })
        | none =>
          match step (memoFifo G inp f) e k.id inp (startPos inp k) k.da
                  { s with misses := s.misses + 1 } with
          | (.done r, s') => (.done r, s'.push k r)
          | (.loop, s') => (.loop, s')
          | (.fuel, s') => (.fuel, s')
      else (.done none, s)

/-- Well-formedness of a FIFO cache. -/
def Fifo.WF (G : Grammar) (inp : List Char) (s : Fifo) : Prop :=
  ∀ k r, (k, r) ∈ s.q → Den G inp k r

/-! ### The witness family: nested braces with a longest-match choice

  Modelled on `namespace.py`:
  `ns := "namespace" IDENT "{" (Fwd ^ Include ^ Class ^ … ^ ns)* "}"`, reduced to
  `ns := "{" (leaf ^ ns)* "}"`, `leaf := "x"`. -/

/-- `0: ns = 1·2`, `1: "{"`, `2: 3·4`, `3: (5)*`, `4: "}"`, `5: 6 ^ 0`, `6: "x"`. -/
def nsGrammar : Grammar :=
  #[.seq 1 2, .lit ['{'], .seq 3 4, .star 5, .lit ['}'], .orL 6 0, .lit ['x']]

/-- `nsInput d` = `{`^(d+1) `}`^(d+1): namespaces nested `d` levels below the outermost one. -/
def nsInput : Nat → List Char
  | 0 => ['{', '}']
  | d + 1 => '{' :: (nsInput d ++ ['}'])

/-- The start key of the witness grammar. -/
def nsKey : Key := ⟨0, 0, true, true⟩

/-- Exact number of un-memoised evaluations of `ns` on `nsInput d`. -/
def nsCost : Nat → Nat
  | 0 => 9
  | d + 1 => 2 * nsCost d + 12

/-! ### A demo grammar exercising every constructor -/

/-- A grammar using every constructor: `list := item ("," item)*`, `item := !"-" [ab]+ "?"?`,
    wrapped in a reference and an ordered choice (used by a non-vacuity example in Props/C19). -/
def demoGrammar : Grammar :=
  #[.alt 1 9,        -- 0: start = list | ε
    .seq 2 3,        -- 1: list  = item · tail
    .ref 5,          -- 2: item  (Forward)
    .star 4,         -- 3: tail  = (comma-item)*
    .seq 10 2,       -- 4: "," item
    .seq 6 7,        -- 5: item body = !"-" · rest
    .notP 11,        -- 6: !"-"
    .seq 8 12,       -- 7: [ab]+ · "?"?
    .plus 13,        -- 8: [ab]+
    .lit [],         -- 9: ε
    .lit [','],      -- 10
    .lit ['-'],      -- 11
    .opt 14,         -- 12: "?"?
    .chr ['a', 'b'], -- 13
    .orL 15 15,      -- 14: "?" ^ "?"
    .lit ['?']]      -- 15

end WrapModel.Packrat
