/-
  Canonical text of a parse tree, identical to what `harness/pydump.py` prints for the
  tree built by `gtwrap.interface_parser` (members partitioned by kind, parent links as paths).
-/
import WrapModel.Model.Syntax

namespace WrapModel.Dump
open WrapModel

def q (s : String) : String :=
  "\"" ++ String.join (s.toList.map fun c =>
    if c == '"' then "\\\"" else if c == '\\' then "\\\\" else if c == '\n' then "\\n"
    else String.singleton c) ++ "\""

def L (xs : List String) : String := "[" ++ ",".intercalate xs ++ "]"
def LL (xs : List String) : String := "[" ++ ",\n".intercalate xs ++ "]"

def opt (f : α → String) : Option α → String
  | none => "None"
  | some a => f a

mutual
  def tn : Typename → String
    | ⟨nss, name, is⟩ => "T(" ++ L (nss.map q) ++ "," ++ q name ++ ",[" ++ tns is ++ "])"
  def tns : List Typename → String
    | [] => ""
    | [t] => tn t
    | t :: ts => tn t ++ "," ++ tns ts
end

def quals (qs : Quals) : String :=
  (if qs.isConst then "c" else "-") ++
  (match qs.suffix with | .none => "-" | .shared => "*" | .raw => "@" | .ref => "&")

mutual
  def ty : CType → String
    | .simple t qs basic => "S(" ++ tn t ++ "," ++ quals qs ++ "," ++ (if basic then "b" else "-") ++ ")"
    | .templ nss name ps qs =>
      "X(" ++ tn ⟨nss, name, typenames ps⟩ ++ ",[" ++ tys ps ++ "]," ++ quals qs ++ ")"
  def tys : List CType → String
    | [] => ""
    | [t] => ty t
    | t :: ts => ty t ++ "," ++ tys ts
end

def arg (a : Arg) : String := "A(" ++ ty a.ctype ++ "," ++ q a.name ++ "," ++ opt q a.default ++ ")"
def args (as : List Arg) : String := L (as.map arg)
def ret (r : RetType) : String := "R(" ++ ty r.type1 ++ "," ++ opt ty r.type2 ++ ")"

def tmpl : Option Template → String
  | none => "None"
  | some ps => "TP(" ++ L (ps.map (q ·.name)) ++ "," ++ L (ps.map fun p => L (p.insts.map tn)) ++ ")"

def path : Option (List String) → String
  | none => "None"
  | some p => L (p.map q)

def bflag (b : Bool) (s : String) : String := if b then s else "-"

def enumD (e : EnumDecl) (p : Option (List String)) : String :=
  "Enum(" ++ q e.name ++ "," ++ L (e.enumerators.map q) ++ "," ++ path p ++ ")"

def varD (v : VarDecl) (p : Option (List String)) : String :=
  "Var(" ++ ty v.ctype ++ "," ++ q v.name ++ "," ++ opt q v.default ++ "," ++ path p ++ ")"

/-- one member; `p` is the path of the class (operators and enums keep no parent link) -/
def member (p : List String) : Member → String
  | .ctor t name as => "Ctor(" ++ tmpl t ++ "," ++ q name ++ "," ++ args as ++ "," ++ path (some p) ++ ")"
  | .method t r name as c =>
    "Method(" ++ tmpl t ++ "," ++ ret r ++ "," ++ q name ++ "," ++ args as ++ "," ++ bflag c "c" ++ "," ++ path (some p) ++ ")"
  | .static t r name as =>
    "Static(" ++ tmpl t ++ "," ++ ret r ++ "," ++ q name ++ "," ++ args as ++ "," ++ path (some p) ++ ")"
  | .prop v => varD v (some p)
  | .op r sym as => "Op(" ++ ret r ++ "," ++ q sym ++ "," ++ args as ++ "," ++ path none ++ ")"
  | .enum e => enumD e none
  | .dunder name as => "Dunder(" ++ q name ++ "," ++ args as ++ "," ++ path (some p) ++ ")"

def isCtor : Member → Bool | .ctor .. => true | _ => false
def isMethod : Member → Bool | .method .. => true | _ => false
def isStatic : Member → Bool | .static .. => true | _ => false
def isProp : Member → Bool | .prop .. => true | _ => false
def isOp : Member → Bool | .op .. => true | _ => false
def isEnum : Member → Bool | .enum .. => true | _ => false
def isDunder : Member → Bool | .dunder .. => true | _ => false

def parentD : Option CType → String
  | none => "None"
  | some (.simple t _ _) => "PT(" ++ tn t ++ ")"
  | some t => ty t

def classD (c : ClassDecl) (p : List String) : String :=
  let cp := p ++ [c.name]
  let part (f : Member → Bool) := L ((c.members.filter f).map (member cp))
  "Class(" ++ tmpl c.tmpl ++ "," ++ bflag c.isVirtual "v" ++ "," ++ q c.name ++ "," ++ parentD c.parent ++ ","
    ++ part isCtor ++ "," ++ part isMethod ++ "," ++ part isStatic ++ "," ++ part isDunder ++ ","
    ++ part isProp ++ "," ++ part isOp ++ "," ++ part isEnum ++ "," ++ path (some p) ++ ")"

mutual
  def decl (p : List String) : Decl → String
    | .fwd v t par => "Fwd(" ++ bflag v "v" ++ "," ++ tn t ++ "," ++ opt tn par ++ "," ++ path (some p) ++ ")"
    | .incl h => "Include(" ++ q h ++ "," ++ path (some p) ++ ")"
    | .cls c => classD c p
    | .typedef t n => "Typedef(" ++ tn t ++ "," ++ q n ++ "," ++ path (some p) ++ ")"
    | .func t r name as => "Func(" ++ tmpl t ++ "," ++ ret r ++ "," ++ q name ++ "," ++ args as ++ "," ++ path (some p) ++ ")"
    | .enum e => enumD e (some p)
    | .var v => varD v (some p)
    | .ns name ds => "Ns(" ++ q name ++ ",[" ++ decls (p ++ [name]) ds ++ "]," ++ path (some p) ++ ")"
  def decls (p : List String) : List Decl → String
    | [] => ""
    | [d] => decl p d
    | d :: ds => decl p d ++ ",\n" ++ decls p ds
end

def module (m : Module) : String := "Ns(\"\",[" ++ decls [""] m ++ "],None)"

end WrapModel.Dump
