/-
  pybind11 generator: `gtwrap/pybind_wrapper.py`.

  `emit*` build a small IR (one item per binding), `print*` turn the IR into the exact text
  the Python code produces.  Theorems (Props/C03, C04, C09, C15, C16) are about the IR, the
  correspondence is about the text.
-/
import WrapModel.Model.Inst
import WrapModel.Gen.Tables

namespace WrapModel.Pybind
open WrapModel WrapModel.Inst

/-! ### configuration and IR -/

structure Cfg where
  moduleName : String
  /-- `top_module_namespaces`, e.g. `["", "gtsam"]`; `[""]` for the global namespace -/
  top : List String
  useBoost : Bool
  ignore : List String
  /-- docstring for (cpp class, cpp method, argument names); `none` = no XML source given -/
  docs : Option (String → String → List String → String) := none

structure PyArg where
  name : String
  default : Option String
deriving Repr, BEq, Inhabited

/-- a `.def` / `.def_static` / module-level `.def` with a forwarding lambda -/
structure LambdaDef where
  pyName : String
  isStatic : Bool            -- `def_static`
  selfClass : Option String  -- `Cls* self` first parameter
  params : List (String × String)   -- (C++ type, name) in declared order
  returns : Bool
  caller : String            -- `self->` | `Cls::` | `ns::`
  cppName : String           -- callee incl. explicit template arguments
  pyArgs : List PyArg
  doc : Option String        -- escaped literal body
  isPrint : Bool             -- method named `print`: ostream redirect + extra `__repr__`
deriving Repr, BEq, Inhabited

inductive ClassItem where
  | init (argTypes : List String) (pyArgs : List PyArg)
  | lam (d : LambdaDef)
  | serialization (cppClass : String)
  | dunder (name : String) (cppClass : String) (params : List (String × String)) (pyArgs : List PyArg)
  | prop (readonly : Bool) (name : String) (cppClass : String)
  | opGetitem (cppClass : String)
  | opCall (cppClass : String)
  | opUnary (sym : String)
  | opBinary (sym : String)
deriving Repr, BEq, Inhabited

inductive PyStmt where
  | submodule (var parentVar name : String)
  | cls (cppClass : String) (parent : Option String) (moduleVar : String) (pyName : String)
      (instanceVar : Option String) (items : List ClassItem)
  | fwdCls (cppClass moduleVar pyName : String)
  | enum (cppClass moduleVar name : String) (values : List String) (inClass : Bool)
  | var (moduleVar name ns value : String)
  | func (moduleVar : String) (d : LambdaDef)
deriving Repr, BEq, Inhabited

/-! ### emitters -/

def pyArgsOf (args : List Arg) : List PyArg := args.map fun a => ⟨a.name, a.default⟩

def sigOf (args : List Arg) : List (String × String) := args.map fun a => (tyToCpp a.ctype, a.name)

def escapeKeyword (kws : List String) (n : String) : String := if kws.contains n then n ++ "_" else n

/-- Python name of a method binding: ipython specials, then keyword escaping -/
def methodPyName (m : IMethod) (methodSuffix : String) : String :=
  let cppMethod := m.toCpp
  let py1 := if Gen.ipythonSpecialMethods.contains cppMethod then "_repr_" ++ cppMethod ++ "_" else m.name ++ methodSuffix
  escapeKeyword Gen.pythonKeywords py1

/-- the forwarding lambda `_wrap_method` emits for an ordinary method / static method -/
def methodLambda (cfg : Cfg) (m : IMethod) (cppClass : String) (methodSuffix : String) : LambdaDef :=
  { pyName := methodPyName m methodSuffix, isStatic := m.isStatic,
    selfClass := if m.isStatic then none else some cppClass,
    params := sigOf m.args, returns := !isVoid m.ret,
    caller := if m.isStatic then cppClass ++ "::" else "self->", cppName := m.toCpp,
    pyArgs := pyArgsOf m.args,
    doc := cfg.docs.map fun f => f cppClass m.toCpp (m.args.map (·.name)),
    isPrint := m.name == "print" && !m.isStatic }

/-- `_wrap_method` (methods and static methods of a class) -/
def emitMethod (cfg : Cfg) (m : IMethod) (cppClass : String) (methodSuffix : String) : List ClassItem :=
  if m.toCpp == "serialize" || m.toCpp == "serializable" then
    if cfg.useBoost then [.serialization cppClass] else []
  else [.lam (methodLambda cfg m cppClass methodSuffix)]

def stripStr (s : String) : String := s.trimAscii.toString

/-- `wrap_methods` -/
def emitMethods (cfg : Cfg) (ms : List IMethod) (cppClass : String) : List ClassItem :=
  ms.flatMap fun m =>
    let extra :=
      if m.name == "insert" && cppClass == "gtsam::Values" then
        match m.args with
        | a0 :: a1 :: _ =>
          if stripStr (tyToCpp a0.ctype) == "size_t" then emitMethod cfg m cppClass ("_" ++ stripStr a1.name) else []
        | _ => []
      else []
    extra ++ emitMethod cfg m cppClass ""

def emitOps (ops : List IOp) (cppClass : String) : List ClassItem :=
  ops.map fun o =>
    if o.sym == "[]" then .opGetitem cppClass
    else if o.sym == "()" then .opCall cppClass
    else if o.args.isEmpty then .opUnary o.sym
    else .opBinary o.sym

/-- `_gen_module_var` -/
def moduleVar (cfg : Cfg) (namespaces : List String) : String :=
  "m_" ++ joinWith "_" (namespaces.drop cfg.top.length)

/-- `Enum.cpp_typename().to_cpp()` for an enum declared in namespace path `p` (`[""] ++ …`) -/
def enumCpp (p : List String) (name : String) : String := tnToCpp (typenameOfPath (p ++ [name]))

def lowerStr (s : String) : String := String.ofList (s.toList.map fun c => if 'A' ≤ c && c ≤ 'Z' then Char.ofNat (c.toNat + 32) else c)

/-- the bindings registered on a class, in emission order -/
def classItems (cfg : Cfg) (c : IClass) : List ClassItem :=
  let cppClass := c.toCpp
  (c.ctors.map fun k => ClassItem.init (k.args.map fun a => tyToCpp a.ctype) (pyArgsOf k.args))
  ++ emitMethods cfg c.methods cppClass
  ++ emitMethods cfg c.statics cppClass
  ++ (c.dunders.map fun d => ClassItem.dunder d.1 cppClass (sigOf d.2) (pyArgsOf d.2))
  ++ (c.props.map fun p => ClassItem.prop p.ctype.quals.isConst p.name cppClass)
  ++ emitOps c.ops cppClass

/-- the `py::class_` statement of a class -/
def classStmt (cfg : Cfg) (c : IClass) : PyStmt :=
  PyStmt.cls c.toCpp (c.parentClass.map tnToCpp) (moduleVar cfg c.nsPath) c.name
    (if c.enums.isEmpty then none else some (lowerStr c.name)) (classItems cfg c)

/-- the enums of a class (emitted after the class statement, on the class instance variable);
    class-scoped enums have no parent link: `enum.namespaces()` is `['']` -/
def classEnums (c : IClass) : List PyStmt :=
  c.enums.map fun e => PyStmt.enum (c.toCpp ++ "::" ++ enumCpp [""] e.name) (lowerStr c.name) e.name e.enumerators true

/-- `wrap_instantiated_class` + `wrap_enums` (an ignored class contributes nothing, its enums included) -/
def emitClass (cfg : Cfg) (c : IClass) : List PyStmt :=
  if cfg.ignore.contains c.toCpp then [] else classStmt cfg c :: classEnums c

/-- `_add_namespaces('', namespaces)` -/
def addNamespacesEmpty (namespaces : List String) : String :=
  match namespaces with
  | [] => ""
  | n :: rest => joinWith "::" ((if n.isEmpty then rest else n :: rest) ++ [""])

/-- `wrap_functions` for one function -/
def emitFunc (cfg : Cfg) (f : IFunc) (nsCaller : String) : LambdaDef :=
  { pyName := escapeKeyword (Gen.pythonKeywords ++ ["print"]) f.name, isStatic := false, selfClass := none,
    params := sigOf f.args, returns := !isVoid f.ret, caller := nsCaller ++ "::", cppName := f.toCpp,
    pyArgs := pyArgsOf f.args, doc := none, isPrint := false }

def partialMatch : List String → List String → Bool
  | a :: as, b :: bs => a == b && partialMatch as bs
  | _, _ => true

def includeLine (h : String) : String :=
  pyReplace (pyReplace ("#include <" ++ h ++ ">\n") "<" "\"") ">" "\""

mutual
  /-- `wrap_namespace`: statements and include text for namespace `name` at path `p` (= full_namespaces) -/
  def emitNs (cfg : Cfg) (name : String) (p : List String) (content : List IDecl) : List PyStmt × String :=
    if !partialMatch p cfg.top then ([], "")
    else if p.length < cfg.top.length then emitOuter cfg p content
    else
      let mv := moduleVar cfg p
      let sub := if p.length > cfg.top.length then [PyStmt.submodule mv (moduleVar cfg p.dropLast) name] else []
      let (stmts, incs) := emitInner cfg p mv content
      let caller := (addNamespacesEmpty p).dropEnd 2 |>.toString
      let funcs := content.filterMap fun d => match d with
        | .func f => some (PyStmt.func mv (emitFunc cfg f caller))
        | _ => none
      (sub ++ stmts ++ funcs, incs)
  /-- above the top namespace: only includes and nested namespaces -/
  def emitOuter (cfg : Cfg) (p : List String) : List IDecl → List PyStmt × String
    | [] => ([], "")
    | .incl h :: r => let (s, i) := emitOuter cfg p r; (s, includeLine h ++ i)
    | .ns n c :: r =>
      let (s1, i1) := emitNs cfg n (p ++ [n]) c
      let (s2, i2) := emitOuter cfg p r
      (s1 ++ s2, i1 ++ i2)
    | _ :: r => emitOuter cfg p r
  def emitInner (cfg : Cfg) (p : List String) (mv : String) : List IDecl → List PyStmt × String
    | [] => ([], "")
    | d :: r =>
      let (s2, i2) := emitInner cfg p mv r
      match d with
      | .incl h => (s2, includeLine h ++ i2)
      | .ns n c => let (s1, i1) := emitNs cfg n (p ++ [n]) c; (s1 ++ s2, i1 ++ i2)
      | .cls c => (emitClass cfg c ++ s2, i2)
      | .decl fd =>
        let cpp := fd.toCpp
        ((if cfg.ignore.contains cpp then [] else [PyStmt.fwdCls cpp (moduleVar cfg fd.nsPath) fd.name]) ++ s2, i2)
      | .var v => (PyStmt.var mv v.name (addNamespacesEmpty p) v.name :: s2, i2)   -- bound to the variable itself (fix da698f3)
      | .enum e => (PyStmt.enum (enumCpp p e.name) (moduleVar cfg p) e.name e.enumerators false :: s2, i2)
      | .func _ => (s2, i2)
      | .fwd .. => (s2, i2)
end

/-! ### printers -/

def indent8 : String := "\n        "

/-- `_py_args_names` -/
def printPyArgs (as : List PyArg) : String :=
  if as.isEmpty then ""
  else ", " ++ joinWith ", " (as.map fun a =>
    "py::arg(\"" ++ a.name ++ "\")" ++ (match a.default with | some d => " = " ++ d | none => ""))

/-- `_method_args_signature` -/
def printSig (ps : List (String × String)) : String := joinWith ", " (ps.map fun p => p.1 ++ " " ++ p.2)

def printSerialization (cppClass : String) : String :=
  indent8 ++ ".def(\"serialize\", [](" ++ cppClass ++ "* self){ return gtsam::serialize(*self); })"
  ++ indent8 ++ ".def(\"deserialize\", [](" ++ cppClass ++ "* self, string serialized){ gtsam::deserialize(serialized, *self); }, py::arg(\"serialized\"))"
  ++ indent8 ++ ".def(py::pickle(" ++ indent8 ++ "    [](const " ++ cppClass
  ++ " &a){ /* __getstate__: Returns a string that encodes the state of the object */ return py::make_tuple(gtsam::serialize(a)); },"
  ++ indent8 ++ "    [](py::tuple t){ /* __setstate__ */ " ++ cppClass
  ++ " obj; gtsam::deserialize(t[0].cast<std::string>(), obj); return obj; }))"

def printLambda (d : LambdaDef) (pfx sfx : String) : String :=
  let names := d.params.map (·.2)
  let call := (if d.returns then "return" else "") ++ " " ++ d.caller ++ d.cppName ++ "(" ++ joinWith ", " names ++ ");"
  let ret := pfx ++ "." ++ (if d.isStatic then "def_static" else "def") ++ "(\"" ++ d.pyName ++ "\","
    ++ "[](" ++ (match d.selfClass with | some c => c ++ "* self" | none => "")
    ++ (if d.selfClass.isSome && !names.isEmpty then ", " else "") ++ printSig d.params ++ "){"
    ++ call ++ "}" ++ printPyArgs d.pyArgs
    ++ (match d.doc with | some s => ", \"" ++ s ++ "\"" | none => "") ++ ")" ++ sfx
  if d.isPrint then
    let cls := match d.selfClass with | some c => c | none => (d.caller.dropEnd 2).toString
    pyReplace ret "self->print" "py::scoped_ostream_redirect output; self->print"
    ++ pfx ++ ".def(\"__repr__\",\n                    [](const " ++ cls ++ "& self"
    ++ (if names.isEmpty then "" else ", ") ++ printSig d.params ++ "){\n"
    ++ "                        gtsam::RedirectCout redirect;\n"
    ++ "                        self.print(" ++ joinWith ", " names ++ ");\n"
    ++ "                        return redirect.str();\n"
    ++ "                    }" ++ printPyArgs d.pyArgs ++ ")" ++ sfx
  else ret

def printDunder (name cppClass : String) (ps : List (String × String)) (pas : List PyArg) : String :=
  let call :=
    if name == "len" then "return std::distance(self->begin(), self->end());"
    else if name == "contains" then
      "return std::find(self->begin(), self->end(), " ++ ((ps.head?.map (·.2)).getD "") ++ ") != self->end();"
    else "return py::make_iterator(self->begin(), self->end());"
  indent8 ++ ".def(\"__" ++ name ++ "__\",[](" ++ cppClass ++ "* self" ++ (if ps.isEmpty then "" else ", ")
    ++ printSig ps ++ "){" ++ call ++ "}" ++ printPyArgs pas ++ ")"

def printItem : ClassItem → String
  | .init ts pas => indent8 ++ ".def(py::init<" ++ joinWith ", " ts ++ ">()" ++ printPyArgs pas ++ ")"
  | .lam d => printLambda d indent8 ""
  | .serialization c => printSerialization c
  | .dunder n c ps pas => printDunder n c ps pas
  | .prop ro n c => indent8 ++ ".def_" ++ (if ro then "readonly" else "readwrite") ++ "(\"" ++ n ++ "\", &" ++ c ++ "::" ++ n ++ ")"
  | .opGetitem c => indent8 ++ ".def(\"__getitem__\", &" ++ c ++ "::operator[])"
  | .opCall c => indent8 ++ ".def(\"__call__\", &" ++ c ++ "::operator())"
  | .opUnary s => indent8 ++ ".def(" ++ s ++ "py::self)"
  | .opBinary s => indent8 ++ ".def(py::self " ++ s ++ " py::self)"

def printEnum (cppClass mv name : String) (values : List String) : String :=
  "    py::enum_<" ++ cppClass ++ ">(" ++ mv ++ ", \"" ++ name ++ "\", py::arithmetic())"
  ++ String.join (values.map fun v => "\n        .value(\"" ++ v ++ "\", " ++ cppClass ++ "::" ++ v ++ ")")
  ++ ";\n\n"

def printStmt : PyStmt → String
  | .submodule v pv n =>
    "    pybind11::module " ++ v ++ " = " ++ pv ++ ".def_submodule(\"" ++ n ++ "\", \"" ++ n ++ " submodule\");\n"
  | .cls cpp parent mv pyName inst items =>
    let par := match parent with | some p => p ++ ", " | none => ""
    let head := match inst with
      | some i => "\n    py::class_<" ++ cpp ++ ", " ++ par ++ "std::shared_ptr<" ++ cpp ++ ">> " ++ i ++ "(" ++ mv ++ ", \"" ++ pyName ++ "\");\n    " ++ i
      | none => "\n    py::class_<" ++ cpp ++ ", " ++ par ++ "std::shared_ptr<" ++ cpp ++ ">>(" ++ mv ++ ", \"" ++ pyName ++ "\")"
    head ++ String.join (items.map printItem) ++ ";\n"
  | .fwdCls cpp mv n => "\n    py::class_<" ++ cpp ++ ", std::shared_ptr<" ++ cpp ++ ">>(" ++ mv ++ ", \"" ++ n ++ "\");"
  | .enum cpp mv n vs inClass => (if inClass then "\n" else "") ++ printEnum cpp mv n vs
  | .var mv n ns v => "\n    " ++ mv ++ ".attr(\"" ++ n ++ "\") = " ++ ns ++ v ++ ";"
  | .func mv d => printLambda d ("\n    " ++ mv) ";"

def printStmts (ss : List PyStmt) : String := String.join (ss.map printStmt)

/-! ### `wrap_file` -/

/-- classes that get `BOOST_CLASS_EXPORT`: `_serializing_classes`, first occurrence order -/
def serializingClasses : List PyStmt → List String
  | [] => []
  | .cls _ _ _ _ _ items :: r =>
    let here := items.filterMap fun i => match i with | .serialization c => some c | _ => none
    let rest := serializingClasses r
    (here ++ rest).eraseDups
  | _ :: r => serializingClasses r

def boostExport (classes : List String) : String :=
  String.join (classes.map fun c =>
    if c.toList.contains ',' then
      let nn := String.ofList (c.toList.filter fun ch => !(",:<> ".toList.contains ch))
      "typedef " ++ c ++ " " ++ nn ++ ";\n" ++ "BOOST_CLASS_EXPORT(" ++ nn ++ ")\n"
    else "BOOST_CLASS_EXPORT(" ++ c ++ ")\n")

/-- Python `str.format` with named fields only (`{name}`, `{{`, `}}`) -/
def pyFormat (env : List (String × String)) : Nat → List Char → Except Err String
  | 0, _ => .error .fuel
  | _, [] => .ok ""
  | n+1, '{' :: '{' :: r => do let s ← pyFormat env n r; pure ("{" ++ s)
  | n+1, '}' :: '}' :: r => do let s ← pyFormat env n r; pure ("}" ++ s)
  | n+1, '{' :: r =>
    let name := r.takeWhile (· != '}')
    match r.dropWhile (· != '}') with
    | '}' :: r' =>
      match env.lookup (String.ofList name) with
      | some v => do let s ← pyFormat env n r'; pure (v ++ s)
      | none => .error .validation
    | _ => .error .validation
  | _+1, '}' :: _ => .error .validation
  | n+1, c :: r => do let s ← pyFormat env n r; pure (String.singleton c ++ s)

/-- `wrap_file` on an instantiated module.
    `submodules = none`: a sub-module file (`void name(py::module_ &m_)`); `some names`: the main file -/
def wrapInstantiated (cfg : Cfg) (tpl : String) (moduleName : String) (submodules : Option (List String))
    (im : List IDecl) : Except Err String :=
  let (stmts, incs) := emitNs cfg "" [""] im
  let wrapped := printStmts stmts
  let includes := if cfg.useBoost then incs ++ "#include <boost/serialization/export.hpp>" else incs
  let boost := if cfg.useBoost then boostExport (serializingClasses stmts) else ""
  let (moduleDef, subs, subsInit) := match submodules with
    | some names => ("PYBIND11_MODULE(" ++ moduleName ++ ", m_)",
        names.map (fun s => "void " ++ s ++ "(py::module_ &);"), names.map (fun s => s ++ "(m_);"))
    | none => ("void " ++ moduleName ++ "(py::module_ &m_)", [], [])
  pyFormat [("module_def", moduleDef), ("module_name", moduleName), ("includes", includes),
            ("wrapped_namespace", wrapped), ("boost_class_export", boost),
            ("submodules", joinWith "\n" subs), ("submodules_init", joinWith "\n" subsInit)]
    (tpl.length + 1) tpl.toList

end WrapModel.Pybind
