/-
  The mutable state of a `PybindWrapper` OBJECT across `wrap_file` calls (pybind_wrapper.py:66, 129-130, 731, 745).

  `Model/Pybind.lean` computes the `BOOST_CLASS_EXPORT` block from the statements of the file being wrapped
  (`serializingClasses`).  The Python code does it with an accumulator on the object: every `_wrap_serialization` appends
  the class to `self._serializing_classes` unless it is there already, `wrap_file` prints the export block from that list
  and then resets it.  This file models that accumulator explicitly, as a state machine over `wrap_file` calls; the
  theorems of `Props/C14.lean` show that it computes what the pure model computes, for every history of calls.
-/
import WrapModel.Model.Pybind

namespace WrapModel.Pybind
open WrapModel WrapModel.Inst

/-- `if not cpp_class in self._serializing_classes: self._serializing_classes.append(cpp_class)` -/
def pushNew (acc : List String) (c : String) : List String := if acc.contains c then acc else acc ++ [c]

/-- the serialization items of one class statement, in emission order -/
def serItems (items : List ClassItem) : List String :=
  items.filterMap fun i => match i with | .serialization c => some c | _ => none

/-- every `_wrap_serialization` call made while the statements of a file are emitted, in order -/
def allSer : List PyStmt → List String
  | [] => []
  | .cls _ _ _ _ _ items :: r => serItems items ++ allSer r
  | _ :: r => allSer r

/-- the accumulator after emitting `stmts`, starting from `acc` -/
def accumulate (acc : List String) (stmts : List PyStmt) : List String := (allSer stmts).foldl pushNew acc

/-- the state of a wrapper object between `wrap_file` calls -/
structure WState where
  serializing : List String := []
deriving Repr, DecidableEq

/-- one `wrap_file` call on a wrapper object in state `s`: the new state and the output -/
def wrapFileStep (cfg : Cfg) (tpl : String) (s : WState) (moduleName : String) (submodules : Option (List String))
    (im : List IDecl) : WState × Except Err String :=
  let (stmts, incs) := emitNs cfg "" [""] im
  let wrapped := printStmts stmts
  let acc := accumulate s.serializing stmts
  let includes := if cfg.useBoost then incs ++ "#include <boost/serialization/export.hpp>" else incs
  let boost := if cfg.useBoost then boostExport acc else ""
  let (moduleDef, subs, subsInit) := match submodules with
    | some names => ("PYBIND11_MODULE(" ++ moduleName ++ ", m_)",
        names.map (fun s => "void " ++ s ++ "(py::module_ &);"), names.map (fun s => s ++ "(m_);"))
    | none => ("void " ++ moduleName ++ "(py::module_ &m_)", [], [])
  -- `self._serializing_classes = []` comes before the template is filled in
  ({ serializing := [] },
   pyFormat [("module_def", moduleDef), ("module_name", moduleName), ("includes", includes),
             ("wrapped_namespace", wrapped), ("boost_class_export", boost),
             ("submodules", joinWith "\n" subs), ("submodules_init", joinWith "\n" subsInit)]
     (tpl.length + 1) tpl.toList)

/-- a history of `wrap_file` calls on one object: the outputs, in order -/
def runHistory (cfg : Cfg) (tpl : String) : WState → List (String × Option (List String) × List IDecl) → List (Except Err String)
  | _, [] => []
  | s, (n, subs, im) :: r =>
    let (s', out) := wrapFileStep cfg tpl s n subs im
    out :: runHistory cfg tpl s' r

end WrapModel.Pybind
