/- hex transport encoding of UTF-8 text for the line protocol -/
namespace WrapModel.Hex

def hexDigit (n : Nat) : Char :=
  if n < 10 then Char.ofNat (48 + n) else Char.ofNat (87 + n)

def encodeBytes (b : ByteArray) : String :=
  String.ofList (b.toList.flatMap fun x => [hexDigit (x.toNat / 16), hexDigit (x.toNat % 16)])

def encode (s : String) : String := encodeBytes s.toUTF8

def hexVal (c : Char) : Option Nat :=
  if '0' ≤ c && c ≤ '9' then some (c.toNat - 48)
  else if 'a' ≤ c && c ≤ 'f' then some (c.toNat - 87)
  else if 'A' ≤ c && c ≤ 'F' then some (c.toNat - 55)
  else none

def decodeBytes : List Char → Option (List UInt8)
  | [] => some []
  | [_] => none
  | a :: b :: r =>
    match hexVal a, hexVal b, decodeBytes r with
    | some x, some y, some rest => some (UInt8.ofNat (x * 16 + y) :: rest)
    | _, _, _ => none

def decode (h : String) : Option String :=
  match decodeBytes h.toList with
  | some bs => String.fromUTF8? (ByteArray.mk bs.toArray)
  | none => none

end WrapModel.Hex
