/- pure request handlers of the line-protocol driver -/
import WrapModel.Model.Hex
import WrapModel.Model.Parse
import WrapModel.Model.Dump
import WrapModel.Model.IDump

namespace WrapModel.Driver
open WrapModel

def okLine (s : String) : String := "ok\t" ++ Hex.encode s
def errLine (e : Err) : String := "err\t" ++ e.toString

def handle (fields : List String) : String :=
  match fields with
  | ["parse", h] =>
    match Hex.decode h with
    | none => "bad\thex"
    | some text =>
      match Parse.parseModule text with
      | .ok m => okLine (Dump.module m)
      | .error e => errLine e
  | ["inst", h] =>
    match Hex.decode h with
    | none => "bad\thex"
    | some text =>
      match Parse.parseModule text with
      | .error e => errLine e
      | .ok m =>
        match Inst.instModule m with
        | .ok im => okLine (IDump.imodule im)
        | .error e => errLine e
  | _ => "bad\top"

end WrapModel.Driver
