/- pure request handlers of the line-protocol driver -/
import WrapModel.Model.Hex
import WrapModel.Model.Parse
import WrapModel.Model.Dump
import WrapModel.Model.IDump
import WrapModel.Model.Pybind
import WrapModel.Model.PybindState
import WrapModel.Model.Matlab.Cpp
import WrapModel.Model.Runtime.Mx
import WrapModel.Model.Runtime.Gateway
import WrapModel.Model.XmlDriver
import WrapModel.Spec.Subst
import WrapModel.Spec.C02Guard
import WrapModel.Spec.Lexemes

namespace WrapModel.Driver
open WrapModel

def okLine (s : String) : String := "ok\t" ++ Hex.encode s
def errLine (e : Err) : String := "err\t" ++ e.toString

/-- lists travel as elements each preceded by U+001F -/
def decodeList (s : String) : List String :=
  if s.isEmpty then [] else (s.drop 1).toString.splitOn "\x1f"

def decodeAll : List String → Option (List String)
  | [] => some []
  | h :: t =>
    match Hex.decode h, decodeAll t with
    | some a, some r => some (a :: r)
    | _, _ => none

def parseInst (text : String) : Except Err (List Inst.IDecl) :=
  match Parse.parseModule text with
  | .error e => .error e
  | .ok m => Inst.instModule m

def handlePybind (args : List String) : String :=
  match args with
  | [text, tpl, moduleName, top, boost, ignore, subs] =>
    let cfg : Pybind.Cfg := { moduleName := moduleName, top := decodeList top, useBoost := boost == "1",
                              ignore := decodeList ignore }
    let submodules := if subs == "-" then none else some (decodeList subs)
    match parseInst text with
    | .error e => errLine e
    | .ok im =>
      match Pybind.wrapInstantiated cfg tpl moduleName submodules im with
      | .ok out => okLine out
      | .error e => errLine e
  | _ => "bad\targs"

/-- a history of `wrap_file` calls on ONE wrapper object (`Model/PybindState.lean`): the texts travel U+001E-separated,
    the answers come back the same way, each `ok:<output>` or `err:<kind>`; a text that does not parse or instantiate
    raises before anything is emitted and leaves the object as it was -/
def handlePyHist (args : List String) : String :=
  match args with
  | [texts, tpl, moduleName, top, boost, ignore] =>
    let cfg : Pybind.Cfg := { moduleName := moduleName, top := decodeList top, useBoost := boost == "1",
                              ignore := decodeList ignore }
    let rec go (s : Pybind.WState) : List String → List String
      | [] => []
      | t :: r =>
        match parseInst t with
        | .error e => ("err:" ++ e.toString) :: go s r
        | .ok im =>
          let (s', out) := Pybind.wrapFileStep cfg tpl s moduleName none im
          (match out with | .ok o => "ok:" ++ o | .error e => "err:" ++ e.toString) :: go s' r
    okLine ("\x1e".intercalate (go {} (texts.splitOn "\x1e")))
  | _ => "bad\targs"

def handleMatlab (args : List String) : String :=
  match args with
  | [text, moduleName, ignore, boost] =>
    let cfg : Matlab.MCfg := { moduleName := moduleName, ignore := decodeList ignore, useBoost := boost == "1" }
    match parseInst text with
    | .error e => errLine e
    | .ok im =>
      match Matlab.wrapModule cfg im with
      | .ok files => okLine ("\x1e".intercalate (files.map fun (p, t) => p ++ "\x1f" ++ t))
      | .error e => errLine e
  | _ => "bad\targs"

def handle (fields : List String) : String :=
  match fields with
  | ["parse", h] =>
    match Hex.decode h with
    | none => "bad\thex"
    | some text =>
      match Parse.parseModule text with
      | .ok m => okLine (Dump.module m)
      | .error e => errLine e
  | ["inst", h] =>
    match Hex.decode h with
    | none => "bad\thex"
    | some text =>
      match Parse.parseModule text with
      | .error e => errLine e
      | .ok m =>
        match Inst.instModule m with
        | .ok im => okLine (IDump.imodule im)
        | .error e => errLine e
  | ["icpp", h] =>
    match Hex.decode h with
    | none => "bad\thex"
    | some text =>
      match parseInst text with
      | .ok im => okLine (IDump.cppModule im)
      | .error e => errLine e
  | ["spec-icpp", h] =>
    match Hex.decode h with
    | none => "bad\thex"
    | some text =>
      match Parse.parseModule text with
      | .error e => errLine e
      | .ok m =>
        match Spec.specInstModule m with
        | .ok im => okLine (IDump.cppModule im)
        | .error e => errLine e
  | ["c02guard", h] =>
    -- how many type-level instantiation calls of this module are inside the proved agreement region (Props/C02.lean)
    match Hex.decode h with
    | none => "bad\thex"
    | some text =>
      match Parse.parseModule text with
      | .error e => errLine e
      | .ok m => okLine (Spec.guardLine m)
  | ["lexrt", h] =>
    -- the canonical lexemes of the parsed tree (C01: `Spec.lexemes`), and whether reading them back gives the tree
    match Hex.decode h with
    | none => "bad\thex"
    | some text =>
      match Parse.parseModule text with
      | .error e => errLine e
      | .ok m =>
        let ls := Spec.lexemes m
        let back := match Tok.runL (Parse.pmodule (4 * ls.length + 16)) ls with
          | .ok m' [] => if m' == m then "1" else "0"
          | _ => "0"
        let toks := ls.map fun l => match l with
          | .word w => "w" ++ w
          | .sym t => "s" ++ t
          | .atom _ tx _ _ => "a" ++ tx
        okLine (back ++ "\x1e" ++ "\x1f".intercalate toks)
  | "pybind" :: rest =>
    match decodeAll rest with
    | some args => handlePybind args
    | none => "bad\thex"
  | "pyhist" :: rest =>
    match decodeAll rest with
    | some args => handlePyHist args
    | none => "bad\thex"
  | "matlab" :: rest =>
    match decodeAll rest with
    | some args => handleMatlab args
    | none => "bad\thex"
  | "mx" :: rest => Mx.handleLine rest
  | "gw" :: rest => Gateway.handleLine rest
  | "xml" :: rest => Xml.handleLine rest
  | _ => "bad\top"

end WrapModel.Driver
