/- pure request handlers of the line-protocol driver -/
import WrapModel.Model.Hex
import WrapModel.Model.Parse
import WrapModel.Model.Dump

namespace WrapModel.Driver
open WrapModel

def okLine (s : String) : String := "ok\t" ++ Hex.encode s
def errLine (e : Err) : String := "err\t" ++ e.toString

def handle (fields : List String) : String :=
  match fields with
  | ["parse", h] =>
    match Hex.decode h with
    | none => "bad\thex"
    | some text =>
      match Parse.parseModule text with
      | .ok m => okLine (Dump.module m)
      | .error e => errLine e
  | _ => "bad\top"

end WrapModel.Driver
