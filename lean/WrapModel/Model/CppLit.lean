/-
C17 — decoding of a C++ narrow ordinary string literal.

`decode body` is what a conforming C++17 compiler (UTF-8 source character set,
UTF-8 execution character set, no trigraphs) stores for the ordinary string
literal `"body"`, per [lex.ccon] / [lex.string] / [lex.charset]:

* simple escapes  \' \" \? \\ \a \b \f \n \r \t \v
* octal escapes   \o \oo \ooo   (1–3 digits; value must fit in a byte)
* hex escapes     \xh…          (GREEDY: all following hex digits; value must fit
                                 in a byte, otherwise the program is ill-formed)
* universal character names \uXXXX \UXXXXXXXX (exactly 4 / 8 digits; must be a
                                 Unicode scalar value; encoded as UTF-8)
* a raw new-line, an unescaped `"`, an unknown escape, a dangling `\` are ill-formed
* every other character stands for its own UTF-8 encoding.

Ill-formed → `none`.  The terminating NUL is not part of the result.

The decoder is a Mealy machine (`step`) folded over the characters; this makes
`decode (xs ++ ys)` compositional, which the round-trip proof needs.

TRUSTED: that this function describes the compiler.  It is checked against
`g++ -std=c++17 -pedantic-errors` by harness/c17_cpp_decode.py on every run.
-/
namespace WrapModel.CppLit

abbrev Bytes := List UInt8

/-- UTF-8 encoding of a text. -/
def utf8 (cs : List Char) : Bytes := cs.flatMap String.utf8EncodeChar

/-- Value of a hexadecimal digit. -/
def hexVal? (c : Char) : Option Nat :=
  let n := c.toNat
  if 48 ≤ n ∧ n ≤ 57 then some (n - 48)
  else if 97 ≤ n ∧ n ≤ 102 then some (n - 87)
  else if 65 ≤ n ∧ n ≤ 70 then some (n - 55)
  else none

/-- Value of an octal digit. -/
def octVal? (c : Char) : Option Nat :=
  let n := c.toNat
  if 48 ≤ n ∧ n ≤ 55 then some (n - 48) else none

/-- simple-escape-sequence: the character after the backslash ↦ the byte. -/
def simpleEsc? (c : Char) : Option UInt8 :=
  if c = '\'' then some 39 else if c = '"' then some 34 else if c = '?' then some 63
  else if c = '\\' then some 92 else if c = 'a' then some 7 else if c = 'b' then some 8
  else if c = 'f' then some 12 else if c = 'n' then some 10 else if c = 'r' then some 13
  else if c = 't' then some 9 else if c = 'v' then some 11 else none

/-- Is `v` a Unicode scalar value (what a universal-character-name may denote)? -/
def isScalar (v : Nat) : Bool := v < 0xD800 || (0xDFFF < v && v < 0x110000)

/-- Decoder state. -/
inductive St where
  | normal
  | esc                       -- just read a backslash
  | oct (n : Nat) (v : Nat)   -- read `n` (1 or 2) octal digits with value `v`
  | hex0                      -- read `\x`, no digit yet
  | hex (v : Nat)             -- read `\x` and ≥ 1 digits with value `v` (≤ 255)
  | ucn (k : Nat) (v : Nat)   -- inside \u / \U: `k` digits still to read
  deriving DecidableEq, Repr

/-- One character read outside any escape sequence. -/
def stepNormal (c : Char) : Option (Bytes × St) :=
  if c = '\\' then some ([], .esc)
  else if c = '"' ∨ c = '\n' ∨ c = '\r' then none
  else some (String.utf8EncodeChar c, .normal)

/-- Prefix emitted bytes to the result of a step. -/
def withPending (b : UInt8) (r : Option (Bytes × St)) : Option (Bytes × St) :=
  match r with
  | none => none
  | some (o, s) => some (b :: o, s)

/-- Transition function: state, next character ↦ emitted bytes and next state
    (`none`: ill-formed). -/
def step : St → Char → Option (Bytes × St)
  | .normal, c => stepNormal c
  | .esc, c =>
    match simpleEsc? c with
    | some b => some ([b], .normal)
    | none =>
      if c = 'x' then some ([], .hex0)
      else if c = 'u' then some ([], .ucn 4 0)
      else if c = 'U' then some ([], .ucn 8 0)
      else match octVal? c with
        | some d => some ([], .oct 1 d)
        | none => none
  | .oct n v, c =>
    match octVal? c with
    | some d =>
      if n = 1 then some ([], .oct 2 (v * 8 + d))
      else if v * 8 + d ≤ 255 then some ([UInt8.ofNat (v * 8 + d)], .normal)
      else none
    | none => withPending (UInt8.ofNat v) (stepNormal c)
  | .hex0, c =>
    match hexVal? c with
    | some d => some ([], .hex d)
    | none => none
  | .hex v, c =>
    match hexVal? c with
    | some d => if v * 16 + d ≤ 255 then some ([], .hex (v * 16 + d)) else none
    | none => withPending (UInt8.ofNat v) (stepNormal c)
  | .ucn k v, c =>
    match hexVal? c with
    | some d =>
      if k = 1 then
        (if isScalar (v * 16 + d) then
          some (String.utf8EncodeChar (Char.ofNat (v * 16 + d)), .normal) else none)
      else some ([], .ucn (k - 1) (v * 16 + d))
    | none => none

/-- What is emitted when the literal ends in state `s` (`none`: ill-formed). -/
def finish : St → Option Bytes
  | .normal => some []
  | .esc => none
  | .oct _ v => some [UInt8.ofNat v]
  | .hex0 => none
  | .hex v => some [UInt8.ofNat v]
  | .ucn _ _ => none

/-- Fold `step` over the characters. -/
def runSt : St → List Char → Option (Bytes × St)
  | st, [] => some ([], st)
  | st, c :: cs =>
    match step st c with
    | none => none
    | some (o, st') =>
      match runSt st' cs with
      | none => none
      | some (o', st'') => some (o ++ o', st'')

/-- Run from state `st` to the end of the literal. -/
def run (st : St) (cs : List Char) : Option Bytes :=
  match runSt st cs with
  | none => none
  | some (o, st') =>
    match finish st' with
    | none => none
    | some o' => some (o ++ o')

/-- Decode the body (the text between the quotes) of an ordinary string literal. -/
def decode (body : List Char) : Option Bytes := run .normal body

/-- `decode` on `String`s. -/
def decodeS (body : String) : Option Bytes := decode body.toList

end WrapModel.CppLit
