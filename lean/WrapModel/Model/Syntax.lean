/-
  Abstract syntax of the gtwrap interface dialect.

  The tree is *finer* than the Python parse tree in three places so that the
  canonical printer `lexemes` is a function and `parse ∘ render = id` can be
  stated exactly:
    * class members are kept in source order (Python partitions them by kind),
    * an enum remembers which keyword introduced it (`enum`/`enum class`/`enum struct`),
    * a pair return type remembers whether it was written `std::pair`.
  `Dump.lean` forgets these again when it prints the tree the way the Python
  walker prints the implementation's tree.
-/
namespace WrapModel

/-- `gtwrap.interface_parser.type.Typename`: namespaces, name, template instantiations. -/
structure Typename where
  namespaces : List String
  name : String
  insts : List Typename
deriving Repr, BEq, Inhabited

/-- pointer / reference marker: `*` shared pointer, `@` raw pointer, `&` reference. -/
inductive Suffix where
  | none | shared | raw | ref
deriving Repr, BEq, DecidableEq, Inhabited

structure Quals where
  isConst : Bool
  suffix : Suffix
deriving Repr, BEq, DecidableEq, Inhabited

def Quals.plain : Quals := ⟨false, .none⟩

/-- `Type` (simple) or `TemplatedType`.  For `templ` the Python object's
    `typename.instantiations` are *the same objects* as the parameters' typenames,
    so only namespaces and name are stored and the instantiations are derived. -/
inductive CType where
  | simple (tn : Typename) (q : Quals) (basic : Bool)
  | templ (namespaces : List String) (name : String) (params : List CType) (q : Quals)
deriving Repr, BEq, Inhabited

mutual
  def CType.typename : CType → Typename
    | .simple tn _ _ => tn
    | .templ ns n ps _ => ⟨ns, n, typenames ps⟩
  def typenames : List CType → List Typename
    | [] => []
    | p :: ps => p.typename :: typenames ps
end

def CType.quals : CType → Quals
  | .simple _ q _ => q
  | .templ _ _ _ q => q

def CType.isTempl : CType → Bool
  | .simple .. => false
  | .templ .. => true

structure Arg where
  ctype : CType
  name : String
  default : Option String
deriving Repr, BEq, Inhabited

/-- `ReturnType`: `type2 = none` for a single type; `stdPrefix` records `std::pair` vs `pair`. -/
structure RetType where
  type1 : CType
  type2 : Option CType
  stdPrefix : Bool := false
deriving Repr, BEq, Inhabited

/-- one template parameter with its (possibly empty = absent) instantiation list -/
structure TParam where
  name : String
  insts : List Typename
deriving Repr, BEq, Inhabited

abbrev Template := List TParam

inductive EnumKw where
  | enum | enumClass | enumStruct
deriving Repr, BEq, DecidableEq, Inhabited

structure EnumDecl where
  kw : EnumKw
  name : String
  enumerators : List String
deriving Repr, BEq, Inhabited

structure VarDecl where
  ctype : CType
  name : String
  default : Option String
deriving Repr, BEq, Inhabited

inductive Member where
  | ctor (tmpl : Option Template) (name : String) (args : List Arg)
  | method (tmpl : Option Template) (ret : RetType) (name : String) (args : List Arg) (isConst : Bool)
  | static (tmpl : Option Template) (ret : RetType) (name : String) (args : List Arg)
  | prop (v : VarDecl)
  | op (ret : RetType) (sym : String) (args : List Arg)
  | enum (e : EnumDecl)
  | dunder (name : String) (args : List Arg)
deriving Repr, BEq, Inhabited

structure ClassDecl where
  tmpl : Option Template
  isVirtual : Bool
  name : String
  /-- `none`, a plain typename (`simple tn plain false`) or a templated type -/
  parent : Option CType
  members : List Member
deriving Repr, BEq, Inhabited

inductive Decl where
  | fwd (isVirtual : Bool) (tn : Typename) (parent : Option Typename)
  | incl (header : String)
  | cls (c : ClassDecl)
  | typedef (tn : Typename) (newName : String)
  | func (tmpl : Option Template) (ret : RetType) (name : String) (args : List Arg)
  | enum (e : EnumDecl)
  | var (v : VarDecl)
  | ns (name : String) (content : List Decl)
deriving Repr, BEq, Inhabited

abbrev Module := List Decl

/-- errors are mapped to this small enum on both sides before comparison -/
inductive Err where
  | parse          -- pyparsing.ParseException
  | validation     -- ValueError / AssertionError raised by a node constructor
  | lookup         -- instantiator: typedef target missing / ambiguous
  | fuel           -- the model ran out of fuel (never on fuel ≥ input length, see Props)
deriving Repr, BEq, DecidableEq, Inhabited

def Err.toString : Err → String
  | .parse => "ParseError" | .validation => "ValidationError"
  | .lookup => "LookupError" | .fuel => "OutOfFuel"

end WrapModel
