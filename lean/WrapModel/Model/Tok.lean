/-
  The formal dialect at the lexical level (DESIGN.md §3): typed lexemes, gaps, `Spells`, and the second
  interpretation of parser programs `P`: on lexeme lists.

  A lexeme-level answer is three-valued: `yes`, `no` (both transfer to every spelling) or `stuck` (the request does
  not fit the kind of the next lexeme, so different layouts of the same lexemes could answer differently — e.g. a
  default-value request on two words separated by a comment).  Theorems are about runs that never get stuck.
-/
import WrapModel.Model.P

namespace WrapModel.Tok
open WrapModel WrapModel.Lex

/-- the punctuation literals of the grammar -/
def symbols : List String := ["(", ")", "{", "}", "<", ">", ",", ";", ":", "=", "*", "@", "&", "::", "__"]

inductive Lexeme where
  /-- identifier or digit string (keywords are words too: pyparsing reserves nothing) -/
  | word (w : String)
  /-- punctuation literal -/
  | sym (t : String)
  /-- a token only request `q` reads: verbatim characters `text`, answer `tok`
      (default value, include path, operator symbol, dunder name, `std::pair`, `unsigned char`, `enum class`, `#include`) -/
  | atom (q : Q) (text : String) (tok : String) (lead : String := "")
deriving Repr

def Lexeme.chars : Lexeme → List Char
  | .word w => w.toList
  | .sym t => t.toList
  | .atom _ text _ _ => text.toList

/-- whitespace and comments between tokens -/
inductive Gap : Src → Prop where
  | nil : Gap []
  | ws (c : Char) (g : Src) : isWs c = true → Gap g → Gap (c :: g)
  /-- `/* body */` where the body does not contain the terminator -/
  | block (body g : Src) : blockEnd (body ++ ['*']) = none → Gap g → Gap ('/' :: '*' :: (body ++ '*' :: '/' :: g))
  /-- `// body` up to and including the newline -/
  | line (body g : Src) : (∀ c ∈ body, c ≠ '\n') → (∀ c ∈ body, c ≠ '\\') → Gap g → Gap ('/' :: '/' :: (body ++ '\n' :: g))

/-- `x` cannot be mistaken for the beginning of a gap -/
def TokStart (x : Src) : Prop := (∀ c r, x = c :: r → isWs c = false) ∧ comment x = none

def isWordLike (w : List Char) : Prop :=
  w ≠ [] ∧ ((∃ c r, w = c :: r ∧ isWordStart c = true ∧ ∀ d ∈ w, isWordChar d = true) ∨ (∀ d ∈ w, isDigit d = true))

/-- what may follow a word: nothing that could extend it or confuse a keyword test -/
def AfterWord (r : Src) : Prop := ∀ c t, r = c :: t → isKwChar c = false

/-- well-formedness of one lexeme in front of the remaining characters `r` -/
def LexOK (l : Lexeme) (r : Src) : Prop :=
  match l with
  | .word w => isWordLike w.toList ∧ AfterWord r
  | .sym t => t ∈ symbols ∧ (t = ":" → ∀ c x, r = c :: x → c ≠ ':')
  | .atom q text tok lead =>
    q ≠ .eof ∧ TokStart (text.toList ++ r) ∧ text.toList ≠ [] ∧
      answerC q (text.toList ++ r) = some (tok, r) ∧
      -- atoms that can stand where a type or declaration starts (`unsigned char`, `enum class`, `std::pair`) begin
      -- with a word, which decides foreign keyword / literal requests
      (lead = "" ∨ ∃ tail, text.toList = lead.toList ++ tail ∧ isWordLike lead.toList ∧ AfterWord (tail ++ r))

/-- the character string `s` spells the lexeme list (DESIGN.md §3) -/
inductive Spells : List Lexeme → Src → Prop where
  | nil (g : Src) : Gap g → Spells [] g
  | cons (g : Src) (l : Lexeme) (ls : List Lexeme) (r : Src) :
      Gap g → (∀ text tok lead, l = .atom .header text tok lead → g = []) → LexOK l r → Spells ls r → Spells (l :: ls) (g ++ l.chars ++ r)

inductive Ans where
  | yes (tok : String) (rest : List Lexeme)
  | no
  | stuck

def allWordChars (k : String) : Bool := k.toList.all isWordChar

def isPrefixOfS (a b : String) : Bool := a.toList.isPrefixOf b.toList

/-- a keyword request the lexeme level can decide outright: a non-empty keyword made of word characters -/
def okKw (k : String) : Bool := allWordChars k && k != ""

/-- the leading word of a keyword (`unsigned` of `unsigned char`, empty for `#include`) -/
def kwHead (k : String) : List Char := (spanP isWordChar k.toList).1

/-- `k = head ++ " " ++ tail` with a non-empty tail of word characters (`enum class`, `unsigned char`): the tail -/
def kwTail (k : String) : Option (List Char) :=
  match (spanP isWordChar k.toList).2 with
  | ' ' :: tail => if tail != [] && tail.all isWordChar then some tail else none
  | _ => none

/-- a two-word keyword whose first word stands here is excluded by the NEXT lexeme being another word than its tail -/
def twoWordNo (k : String) (r : List Lexeme) : Bool :=
  match kwTail k, r with
  | some tail, .word w2 :: _ => tail != w2.toList
  | _, _ => false

/-- `std::pair` in front of the word `std`: excluded when `::` and another word than `pair` follow -/
def stdPairNo (r : List Lexeme) : Bool :=
  match r with
  | .sym t :: .word w2 :: _ => t == "::" && w2 != "pair"
  | _ => false

/-- the word begins with `__` (then `Literal("__")` matches its beginning) -/
def startsDunder (w : String) : Bool := w.toList.take 2 == ['_', '_']

/-- two keywords neither of which is a prefix of the other: reading one where the other stands fails outright -/
def kwIncomparable : Q → Q → Bool
  | .kw k, .kw k' => !(k.toList.isPrefixOf k'.toList) && !(k'.toList.isPrefixOf k.toList)
  | .lit x, .kw k' => !(x.toList.isPrefixOf k'.toList) && !(k'.toList.isPrefixOf x.toList)   -- `}` where `#include` stands
  | _, _ => false

def ansNil (q : Q) : Ans :=
  match q with
  | .eof => .yes "" []
  | .word => .no
  | .kw k => if okKw k then .no else .stuck
  | _ => .stuck

def ansWord (q : Q) (w : String) (r : List Lexeme) : Ans :=
  match q with
  | .word => .yes w r
  | .kw k =>
    if okKw k then (if w == k then .yes k r else .no)
    else if k != "" && kwHead k != w.toList then .no    -- `#include`, `unsigned char`, `enum class` in front of another word
    else if twoWordNo k r then .no                      -- `enum class` in front of `enum E`
    else .stuck
  | .lit t =>
    if t ∈ symbols && t != "__" then .no
    else if t == "__" && !startsDunder w then .no     -- the dunder marker in front of a word that does not begin with `__`
    else .stuck
  | .stdPair => if w != "std" then .no else if stdPairNo r then .no else .stuck
  | .eof => .no
  | _ => .stuck

/-- in front of the dunder marker `__` (which starts like a word) -/
def ansDunder (q : Q) (r : List Lexeme) : Ans :=
  match q with
  | .lit t' => if t' == "__" then .yes t' r else if t' ∈ symbols then .no else .stuck
  | .eof => .no
  | _ => .stuck

def ansSym (q : Q) (t : String) (r : List Lexeme) : Ans :=
  match q with
  | .word => .no
  | .kw k => if okKw k then .no else .stuck
  | .lit t' =>
    if t' == t then .yes t' r
    else if t' == "::" && t == ":" then .no     -- a single colon is never followed by another one (`LexOK`)
    else if isPrefixOfS t' t || isPrefixOfS t t' then .stuck
    else if t' ∈ symbols then .no else .stuck
  | .eof => .no
  | _ => .stuck

def ansAtom (q q' : Q) (tok lead : String) (r : List Lexeme) : Ans :=
  if q = q' then .yes tok r
  else if kwIncomparable q q' then .no       -- `enum class` where `enum struct` stands
  else match q with
    | .eof => .no
    | _ =>
      if lead != "" then
        match ansWord q lead [] with    -- no look-ahead inside an atom: what follows its leading word is its own text
        | .no => .no
        | _ => .stuck
      else .stuck

/-- what a lexeme list answers to a request -/
def answerL (q : Q) (ls : List Lexeme) : Ans :=
  match ls with
  | [] => ansNil q
  | .word w :: r => ansWord q w r
  | .sym t :: r => if t == "__" then ansDunder q r else ansSym q t r
  | .atom q' _ tok lead :: r => ansAtom q q' tok lead r

inductive Outcome (α : Type) where
  | ok (a : α) (rest : List Lexeme)
  | err (e : Err)
  | stuck

/-- run a parser program on a lexeme list -/
def runL : P α → List Lexeme → Outcome α
  | .ret a, ls => .ok a ls
  | .fail e, _ => .err e
  | .ask q k, ls =>
    match answerL q ls with
    | .yes t r => runL (k (some t)) r
    | .no => runL (k none) ls
    | .stuck => .stuck

end WrapModel.Tok
