/-
  The interface parser as a predictive recursive-descent program in `P`.

  It follows `gtwrap/interface_parser/*.py` rule by rule.  pyparsing's `^` (try all, longest
  wins) is resolved by left-factoring: a generic type is read once and classified afterwards
  (pair return type / templated / plain typename), a class member is classified by what
  follows the type.  On the documented dialect this yields the tree pyparsing yields; on other
  text the model may reject where pyparsing accepts (never the converse with a different
  tree — that is what the correspondence checks).
-/
import WrapModel.Model.P

namespace WrapModel.Parse
open P (probe need expect tok failParse failValidation)

def hasSpace (s : String) : Bool := s.toList.contains ' '

/-- keywords sorted so that the longest candidate is probed first -/
def longestFirst (ks : List String) : List String :=
  (ks.filter hasSpace) ++ (ks.filter (fun k => !hasSpace k))

def firstKw : List String → P (Option String)
  | [] => pure none
  | k :: ks => do
    if (← probe (.kw k)) then pure (some k) else firstKw ks

/-- `("::" IDENT)*` -/
def moreIdents : Nat → P (List String)
  | 0 => .fail .fuel
  | n+1 => do
    if (← probe (.lit "::")) then
      let w ← need .word
      let ws ← moreIdents n
      pure (w :: ws)
    else pure []

/-- `Optional(SHARED_POINTER | RAW_POINTER | REF)` -/
def psuffix : P Suffix := do
  if (← probe (.lit "*")) then pure .shared
  else if (← probe (.lit "@")) then pure .raw
  else if (← probe (.lit "&")) then pure .ref
  else pure .none

/-- result of the generic type reader: the type, and how a leading `pair` was spelled
    (`some false` = `pair`, `some true` = atomic `std::pair`) -/
structure TypeRes where
  ty : CType
  pairStd : Option Bool

def splitLast : List String → List String × String
  | [] => ([], "")
  | [x] => ([], x)
  | x :: xs => let (a, b) := splitLast xs; (x :: a, b)

mutual
  /-- `Type.rule ^ TemplatedType.rule` -/
  def ptype : Nat → P TypeRes
    | 0 => .fail .fuel
    | n+1 => do
      let isConst ← probe (.kw "const")
      let basic ← firstKw (longestFirst Gen.basicTypes)
      match basic with
      | some b =>
        if hasSpace b then
          -- `unsigned char`: a `Type`; a templated reading is impossible
          let sfx ← psuffix
          pure ⟨.simple ⟨[], b, []⟩ ⟨isConst, sfx⟩ true, none⟩
        else if (← probe (.lit "<")) then
          let ps ← ptypes n
          expect (.lit ">")
          let sfx ← psuffix
          pure ⟨.templ [] b ps ⟨isConst, sfx⟩, none⟩
        else
          let sfx ← psuffix
          pure ⟨.simple ⟨[], b, []⟩ ⟨isConst, sfx⟩ true, none⟩
      | none =>
        let std ← probe .stdPair
        let (names, pstd) ← (do
          if std then
            let more ← moreIdents n
            pure (["std", "pair"] ++ more, if more.isEmpty then some true else none)
          else
            let w ← need .word
            let more ← moreIdents n
            pure (w :: more, if w == "pair" && more.isEmpty then some false else none)
          : P (List String × Option Bool))
        let (nss, name) := splitLast names
        if (← probe (.lit "<")) then
          let ps ← ptypes n
          expect (.lit ">")
          let sfx ← psuffix
          pure ⟨.templ nss name ps ⟨isConst, sfx⟩, pstd⟩
        else
          let sfx ← psuffix
          pure ⟨.simple ⟨nss, name, []⟩ ⟨isConst, sfx⟩ false, none⟩
  /-- `delimitedList(Type.rule ^ rule, ",")` -/
  def ptypes : Nat → P (List CType)
    | 0 => .fail .fuel
    | n+1 => do
      let t ← ptype n
      if (← probe (.lit ",")) then
        let ts ← ptypes n
        pure (t.ty :: ts)
      else pure [t.ty]
end

/-- `ReturnType.rule`: the `pair<Type,Type>` form wins a tie against `TemplatedType` -/
def toRet (r : TypeRes) : RetType :=
  match r.pairStd, r.ty with
  | some std, .templ _ _ [a, b] q =>
    if !q.isConst && q.suffix == .none && !a.isTempl && !b.isTempl then ⟨a, some b, std⟩
    else ⟨r.ty, none, false⟩
  | _, _ => ⟨r.ty, none, false⟩

mutual
  /-- the `.typename` of a `TemplatedType`, refusing qualifiers the tree would silently drop -/
  def strictTypename (top : Bool) : CType → Option Typename
    | .simple tn q _ =>
      if q.isConst || q.suffix != .none then none
      else if top && hasSpace tn.name then none
      else some tn
    | .templ ns n ps q =>
      if q.isConst || q.suffix != .none then none
      else match strictTypenames ps with
        | some is => some ⟨ns, n, is⟩
        | none => none
  def strictTypenames : List CType → Option (List Typename)
    | [] => some []
    | p :: ps =>
      match strictTypename false p, strictTypenames ps with
      | some t, some ts => some (t :: ts)
      | _, _ => none
end

def liftOpt : Option α → P α
  | some a => pure a
  | none => failParse

/-- `Argument.rule` -/
def parg (n : Nat) : P Arg := do
  let t ← ptype n
  let name ← need .word
  if (← probe (.lit "=")) then
    let d ← need .dflt
    pure ⟨t.ty, name, some d⟩
  else pure ⟨t.ty, name, none⟩

def pargsMore : Nat → P (List Arg)
  | 0 => .fail .fuel
  | n+1 => do
    let a ← parg n
    if (← probe (.lit ",")) then
      let as ← pargsMore n
      pure (a :: as)
    else pure [a]

/-- `LPAREN` already read: `ArgumentList.rule + RPAREN` -/
def pargs (n : Nat) : P (List Arg) := do
  if (← probe (.lit ")")) then pure []
  else
    let as ← pargsMore n
    expect (.lit ")")
    pure as

/-- instantiation list `{ (TemplatedType ^ Typename), … }` after the `{` -/
def pinsts : Nat → P (List Typename)
  | 0 => .fail .fuel
  | n+1 => do
    let t ← ptype n
    let tn ← liftOpt (strictTypename true t.ty)
    if (← probe (.lit ",")) then
      let ts ← pinsts n
      pure (tn :: ts)
    else pure [tn]

def ptparams : Nat → P (List TParam)
  | 0 => .fail .fuel
  | n+1 => do
    let name ← need .word
    let insts ← (do
      if (← probe (.lit "=")) then
        expect (.lit "{")
        let is ← pinsts n
        expect (.lit "}")
        pure is
      else pure [] : P (List Typename))
    if (← probe (.lit ",")) then
      let ps ← ptparams n
      pure (⟨name, insts⟩ :: ps)
    else pure [⟨name, insts⟩]

/-- `Optional(Template.rule)` -/
def ptemplate (n : Nat) : P (Option Template) := do
  if (← probe (.kw "template")) then
    expect (.lit "<")
    let ps ← ptparams n
    expect (.lit ">")
    pure (some ps)
  else pure none

def penumerators : Nat → P (List String)
  | 0 => .fail .fuel
  | n+1 => do
    let e ← need .word
    if (← probe (.lit ",")) then
      let es ← penumerators n
      pure (e :: es)
    else pure [e]

/-- `ENUM` keyword, longest alternative -/
def penumKw : P (Option EnumKw) := do
  if (← probe (.kw "enum class")) then pure (some .enumClass)
  else if (← probe (.kw "enum struct")) then pure (some .enumStruct)
  else if (← probe (.kw "enum")) then pure (some .enum)
  else pure none

def penumRest (n : Nat) (k : EnumKw) : P EnumDecl := do
  let name ← need .word
  expect (.lit "{")
  let es ← penumerators n
  expect (.lit "}")
  expect (.lit ";")
  pure ⟨k, name, es⟩

def optDefault : P (Option String) := do
  if (← probe (.lit "=")) then
    let d ← need .dflt
    pure (some d)
  else pure none

/-- `Operator.__init__` checks -/
def validOperator (ret : RetType) (sym : String) (args : List Arg) : Bool :=
  match args with
  | [] => sym == "+" || sym == "-"
  | [a] => sym == "()" || sym == "[]" || a.ctype.typename.name == ret.type1.typename.name
  | _ => false

/-- one class member (`Class.Members`), the closing brace has been excluded by the caller -/
def pmember (n : Nat) : P Member := do
  if (← probe (.lit "__")) then
    let name ← need .alpha
    expect (.lit "__")
    expect (.lit "(")
    let args ← pargs n
    expect (.lit ";")
    pure (.dunder name args)
  else
    let tmpl ← ptemplate n
    if (← probe (.kw "static")) then
      let r ← ptype n
      let name ← need .word
      expect (.lit "(")
      let args ← pargs n
      expect (.lit ";")
      pure (.static tmpl (toRet r) name args)
    else
      let ek ← (if tmpl.isNone then penumKw else pure none : P (Option EnumKw))
      match ek with
      | some k =>
        let e ← penumRest n k
        pure (.enum e)
      | none =>
        let r ← ptype n
        if (← probe (.lit "(")) then
          -- Constructor: `IDENT (`
          match r.ty with
          | .simple ⟨[], name, []⟩ ⟨false, .none⟩ false =>
            let args ← pargs n
            expect (.lit ";")
            pure (.ctor tmpl name args)
          | _ => failParse
        else
          let name ← need .word
          if name == "operator" then
            if tmpl.isSome then failParse
            else
              let sym ← need .opsym
              expect (.lit "(")
              let args ← pargs n
              expect (.kw "const")
              expect (.lit ";")
              let ret := toRet r
              if validOperator ret sym args then pure (.op ret sym args)
              else failValidation
          else if (← probe (.lit "(")) then
            let args ← pargs n
            let isConst ← probe (.kw "const")
            expect (.lit ";")
            pure (.method tmpl (toRet r) name args isConst)
          else
            if tmpl.isSome then failParse
            else
              let d ← optDefault
              expect (.lit ";")
              pure (.prop ⟨r.ty, name, d⟩)

def pmembers : Nat → P (List Member)
  | 0 => .fail .fuel
  | n+1 => do
    if (← probe (.lit "}")) then pure []
    else
      let m ← pmember n
      let ms ← pmembers n
      pure (m :: ms)

def ctorNamesOk (cname : String) : List Member → Bool
  | [] => true
  | .ctor _ name _ :: ms => name == cname && ctorNamesOk cname ms
  | _ :: ms => ctorNamesOk cname ms

/-- `[virtual] class` already read: `ForwardDeclaration` or `Class` -/
def pclassRest (n : Nat) (tmpl : Option Template) (virt : Bool) : P Decl := do
  let w ← need .word
  let more ← moreIdents n
  let parent ← (do
    if (← probe (.lit ":")) then
      let t ← ptype n
      pure (some t.ty)
    else pure none : P (Option CType))
  if (← probe (.lit ";")) then
    if tmpl.isSome then failParse
    else
      let (nss, name) := splitLast (w :: more)
      match parent with
      | none => pure (.fwd virt ⟨nss, name, []⟩ none)
      | some (.simple tn q _) =>
        if q.isConst || q.suffix != .none || hasSpace tn.name then failParse
        else pure (.fwd virt ⟨nss, name, []⟩ (some tn))
      | some _ => failParse
  else
    if !more.isEmpty then failParse
    else
      let par ← (match parent with
        | none => pure none
        | some (.simple tn q _) =>
          if q.isConst || q.suffix != .none || hasSpace tn.name then failParse
          else pure (some (.simple tn .plain false))
        | some t => pure (some t) : P (Option CType))
      expect (.lit "{")
      let ms ← pmembers n
      expect (.lit ";")
      if ctorNamesOk w ms then pure (.cls ⟨tmpl, virt, w, par, ms⟩)
      else failValidation

mutual
  /-- one declaration at module / namespace level -/
  def pdecl : Nat → P Decl
    | 0 => .fail .fuel
    | n+1 => do
      if (← probe (.kw "#include")) then
        expect (.lit "<")
        let h ← need .header
        expect (.lit ">")
        pure (.incl h)
      else if (← probe (.kw "typedef")) then
        let t ← ptype n
        if !t.ty.isTempl then failParse
        else
          let tn ← liftOpt (strictTypename true t.ty)
          let name ← need .word
          expect (.lit ";")
          pure (.typedef tn name)
      else if (← probe (.kw "namespace")) then
        let name ← need .word
        expect (.lit "{")
        let ds ← pdecls n
        pure (.ns name ds)
      else
        match (← penumKw) with
        | some k =>
          let e ← penumRest n k
          pure (.enum e)
        | none =>
          let tmpl ← ptemplate n
          let virt ← probe (.kw "virtual")
          if (← probe (.kw "class")) then pclassRest n tmpl virt
          else if virt then failParse
          else
            let r ← ptype n
            let name ← need .word
            if (← probe (.lit "(")) then
              let args ← pargs n
              expect (.lit ";")
              pure (.func tmpl (toRet r) name args)
            else
              if tmpl.isSome || name == "operator" then failParse    -- `Variable`: the name is not `operator`
              else
                let d ← optDefault
                expect (.lit ";")
                pure (.var ⟨r.ty, name, d⟩)
  /-- namespace content up to and including the closing brace -/
  def pdecls : Nat → P (List Decl)
    | 0 => .fail .fuel
    | n+1 => do
      if (← probe (.lit "}")) then pure []
      else
        let d ← pdecl n
        let ds ← pdecls n
        pure (d :: ds)
end

/-- `Module.rule`: declarations, then `stringEnd` -/
def pmodule : Nat → P Module
  | 0 => .fail .fuel
  | n+1 => do
    if (← probe .eof) then pure []
    else
      let d ← pdecl n
      let ds ← pmodule n
      pure (d :: ds)

/-- the model of `Module.parseString` -/
def parseModule (text : String) : Except Err Module :=
  let s := text.toList
  match (pmodule (4 * s.length + 2)).run s with    -- fuel: never exhausted on a well-formed text (C01_parseModule_roundtrip)
  | .ok (m, _) => .ok m
  | .error e => .error e

end WrapModel.Parse
