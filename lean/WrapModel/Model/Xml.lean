/-
C17 — model of gtwrap/xml_parser/xml_parser.py (`XMLDocParser`) and of the
escaping expression at gtwrap/pybind_wrapper.py:282

    ', "' + repr(extract_docstring(...))[1:-1].replace('"', r'\"') + '"'

The model starts from ELEMENT TREES: what `xml.etree.ElementTree.parse` returns
for every file of the Doxygen XML directory (expat / ElementTree parsing is
outside the model and trusted; a file is `missing`, `bad` (ParseError) or a
tree).  Everything xml_parser.py does with those trees is modelled function by
function, including

* the subset of ElementPath it uses (`find`/`findall` with `tag`, `.//tag`,
  `.//a/b`, `./*[name='v']`, `compounddef/sectiondef//*[name='v']`),
  `itertext`, `.text`, `.attrib[...]`, `list(elem)`;
* the exceptions that escape (`AttributeError`, `KeyError`) —
  xml_parser.py catches only `FileNotFoundError` and `ET.ParseError`, both in
  `parse_xml`;
* the statefulness: `self._memory` is threaded as `DocState`.

Domain restriction (documented, not checked by the model): class and method
names contain no `'` (they are spliced into an ElementPath predicate between
single quotes), `refid`s are plain file-name stems.
-/
import WrapModel.Gen.Printable
import WrapModel.Model.CppLit

namespace WrapModel.Xml

/-! ## Element trees -/

/-- `xml.etree.ElementTree.Element`: tag, attributes, text, tail, children.
    `text`/`tail` are `None` or a string, as in Python. -/
inductive Elem where
  | mk (tag : String) (attrs : List (String × String)) (text : Option String)
       (tail : Option String) (children : List Elem)
  deriving Repr, Inhabited

namespace Elem
def tag : Elem → String | mk t _ _ _ _ => t
def attrs : Elem → List (String × String) | mk _ a _ _ _ => a
def text : Elem → Option String | mk _ _ t _ _ => t
def tail : Elem → Option String | mk _ _ _ t _ => t
def children : Elem → List Elem | mk _ _ _ _ c => c

/-- `elem.attrib[k]` (`none` = `KeyError`).  ElementTree keeps the last of
    duplicate attributes, but expat rejects duplicates, so `lookup` (first) is exact. -/
def attr? (e : Elem) (k : String) : Option String := e.attrs.lookup k

/-- `elem.findall(t)` for a plain tag `t`: the direct children with that tag. -/
def childrenTag (e : Elem) (t : String) : List Elem := e.children.filter (fun c => c.tag == t)

/-- `elem.find(t)` for a plain tag `t`. -/
def findChild (e : Elem) (t : String) : Option Elem := (e.childrenTag t).head?

mutual
/-- `list(elem.iter())`: the element and all its descendants in document order. -/
def iter : Elem → List Elem
  | mk t a x y cs => mk t a x y cs :: iterList cs
/-- document-order descendants-or-self of a list of siblings. -/
def iterList : List Elem → List Elem
  | [] => []
  | c :: cs => iter c ++ iterList cs
end

/-- All proper descendants in document order (`elem.iter()` minus `elem` itself). -/
def descendants (e : Elem) : List Elem := iterList e.children

/-- `elem.findall(".//t")`: proper descendants with tag `t`, document order. -/
def descTag (e : Elem) (t : String) : List Elem := e.descendants.filter (fun c => c.tag == t)

/-- `elem.find(".//t")`. -/
def findDesc (e : Elem) (t : String) : Option Elem := (e.descTag t).head?

/-- Python truthiness of `elem.text` / `elem.tail`: `None` and `""` are falsy. -/
def truthy : Option String → List String
  | some s => if s = "" then [] else [s]
  | none => []

mutual
/-- `list(elem.itertext())`. -/
def itertext : Elem → List String
  | mk _ _ x _ cs => truthy x ++ itertextList cs
/-- inner text of a list of siblings, each followed by its tail. -/
def itertextList : List Elem → List String
  | [] => []
  | c :: cs => itertext c ++ truthy c.tail ++ itertextList cs
end

/-- `"".join(elem.itertext())`. -/
def fullText (e : Elem) : String := String.join e.itertext

/-- ElementPath predicate `[name='v']`: some direct child `name` whose complete
    inner text equals `v`. -/
def hasName (e : Elem) (v : String) : Bool := (e.childrenTag "name").any (fun n => n.fullText == v)

end Elem

/-! ## Python string helpers -/

/-- `str.strip()` on a character list (whitespace per the generated `str.isspace` table). -/
def stripL (l : List Char) : List Char :=
  ((l.dropWhile Gen.isSpace).reverse.dropWhile Gen.isSpace).reverse

/-- `str.strip()`. -/
def strip (s : String) : String := String.ofList (stripL s.toList)

/-- `bool(t.strip())`: the string contains a non-whitespace character. -/
def nonBlank (s : String) : Bool := s.toList.any (fun c => !Gen.isSpace c)

/-- `"".join(t for t in elem.itertext() if t.strip())`. -/
def joinNonBlank (e : Elem) : String := String.join (e.itertext.filter nonBlank)

/-! ## Results, directories, state -/

/-- Outcome of a call: a value or the class name of the exception that escapes. -/
inductive Res (α : Type) where
  | ok (a : α)
  | err (exc : String)
  deriving Repr, DecidableEq

instance : Monad Res where
  pure := .ok
  bind r f := match r with | .ok a => f a | .err e => .err e

/-- What `parse_xml` sees for one file. -/
inductive FileSt where
  | missing          -- FileNotFoundError  → warning, `None`
  | bad              -- ET.ParseError      → warning, `None`
  | tree (root : Elem)
  deriving Repr, Inhabited

/-- A Doxygen XML directory: file name ↦ state (unlisted = missing). -/
abbrev Dir := List (String × FileSt)

def Dir.get (d : Dir) (name : String) : FileSt := (d.lookup name).getD .missing

/-- The warnings `parse_xml` prints. -/
inductive Warning where
  | notFound (file : String)
  | parseFail (file : String)
  deriving Repr, DecidableEq

/-- `XMLDocParser._memory`: function key ↦ index of the overload documented last. -/
abbrev DocState := List (String × Nat)

def DocState.empty : DocState := []

/-- `parse_xml`: the tree or `None` + a warning. -/
def parseXml (d : Dir) (name : String) : Option Elem × List Warning :=
  match d.get name with
  | .missing => (none, [.notFound name])
  | .bad => (none, [.parseFail name])
  | .tree r => (some r, [])

/-! ## get_member_defs -/

/-- `index_root.find("./*[name='cls']")`: first child of the root (any tag) that
    has a `name` child with inner text `cls`. -/
def findClassIndex (root : Elem) (cls : String) : Option Elem :=
  root.children.find? (fun c => c.hasName cls)

/-- `class_root.findall("compounddef/sectiondef//*[name='meth']")`. -/
def findMembers (root : Elem) (meth : String) : List Elem :=
  ((root.childrenTag "compounddef").flatMap (fun cd => cd.childrenTag "sectiondef")).flatMap
    (fun sd => sd.descendants.filter (fun e => e.hasName meth))

/-- `get_member_defs` (the `""` it returns on failure behaves as the empty list). -/
def getMemberDefs (d : Dir) (cls meth : String) : Res (List Elem) × List Warning :=
  match parseXml d "index.xml" with
  | (none, w) => (.ok [], w)
  | (some indexRoot, w) =>
    match findClassIndex indexRoot cls with
    | none => (.ok [], w)
    | some ci =>
      match ci.attr? "refid" with
      | none => (.err "KeyError", w)
      | some refid =>
        match parseXml d (refid ++ ".xml") with
        | (none, w') => (.ok [], w ++ w')
        | (some classRoot, w') => (.ok (findMembers classRoot meth), w ++ w')

/-! ## filter_member_defs -/

/-- Name element of a `<param>`: `declname`, else `defname`. -/
def paramNameElem (p : Elem) : Option Elem :=
  match p.findChild "declname" with
  | some e => some e
  | none => p.findChild "defname"

/-- Does the `i`-th argument name clash with the `i`-th `<param>`?  (`eliminate = True`) -/
def argMismatch (arg : String) (p : Elem) : Bool :=
  match paramNameElem p with
  | none => true
  | some e => e.text != some arg

/-- `params[i].find("declname").text` for the optional parameters beyond the
    supplied names (`AttributeError` when a `declname` is absent). -/
def ignoredOf : List Elem → Res (List (Option String))
  | [] => .ok []
  | p :: ps =>
    match p.findChild "declname" with
    | none => .err "AttributeError"
    | some e => do let r ← ignoredOf ps; pure (e.text :: r)

/-- Verdict of the filter on one candidate. -/
inductive Verdict where
  | reject
  | accept (ignored : List (Option String))

/-- One iteration of the loop in `filter_member_defs`. -/
def judgeMember (m : Elem) (args : List String) : Res Verdict :=
  -- the f-string passed to print_if_verbose is evaluated even when not verbose
  match m.findChild "argsstring" with
  | none => .err "AttributeError"
  | some _ =>
    let params := m.childrenTag "param"
    let tot := params.length
    let req := tot - (params.filter (fun p => (p.findChild "defval").isSome)).length
    let n := args.length
    if n ≠ req ∧ n ≠ tot then .ok .reject
    else if (List.zipWith argMismatch args params).any id then .ok .reject
    else do
      let ign ← ignoredOf (params.drop n)
      pure (.accept ign)

/-- `filter_member_defs`: the accepted candidates and the ACCUMULATED ignored
    parameter names (of all accepted candidates, as in the code). -/
def filterMemberDefs : List Elem → List String → Res (List Elem × List (Option String))
  | [], _ => .ok ([], [])
  | m :: ms, args => do
    let v ← judgeMember m args
    let (ds, ig) ← filterMemberDefs ms args
    match v with
    | .reject => pure (ds, ig)
    | .accept i => pure (m :: ds, i ++ ig)

/-! ## determine_documenting_index -/

/-- `f"{cls}.{meth}({','.join(names) if names else ''})"`. -/
def functionKey (cls meth : String) (args : List String) : String :=
  cls ++ "." ++ meth ++ "(" ++ ",".intercalate args ++ ")"

/-- `_memory[key] = v`.  The memory is only ever read through `lookup`, so the
    newest binding simply shadows older ones. -/
def DocState.set (st : DocState) (key : String) (v : Nat) : DocState := (key, v) :: st

/-- `determine_documenting_index`: index and new memory. -/
def determineIndex (st : DocState) (key : String) (nDefs : Nat) : Nat × DocState :=
  if nDefs > 1 then
    match st.lookup key with
    | some k => (k + 1, st.set key (k + 1))
    | none => (0, st.set key 0)
  else (0, st)

/-! ## get_formatted_docstring -/

/-- Python `x in list` for `Optional[str]` items. -/
def optMem (x : Option String) (l : List (Option String)) : Bool := l.any (fun y => y == x)

/-- brief description: concatenated non-blank text pieces of each `para` child. -/
def briefPart (m : Elem) : String :=
  match m.findDesc "briefdescription" with
  | none => ""
  | some b => String.join ((b.childrenTag "para").map joinNonBlank)

/-- the paragraphs of the detailed description that hold no `parameterlist` child. -/
def detailParas (dd : Elem) : String :=
  String.join ((dd.children.filter
    (fun e => e.tag == "para" && !(e.children.any (fun c => c.tag == "parameterlist")))).map
    (fun e => joinNonBlank e ++ " "))

/-- One `parameteritem` (index `i`): the line it contributes. -/
def paramLine (ignored : List (Option String)) (i : Nat) (item : Elem) : Res String :=
  match item.findDesc "parametername" with
  | none => .err "AttributeError"
  | some nm =>
    match ((item.descTag "parameterdescription").flatMap (fun pd => pd.childrenTag "para")).head? with
    | none => .err "AttributeError"
    | some dp =>
      let name := nm.text
      let desc := dp.text
      if optMem name ignored then .ok ""
      else
        let n := match Elem.truthy name with
          | [s] => strip s
          | _ => "[Parameter " ++ toString i ++ "]"
        let d := match Elem.truthy desc with
          | [s] => strip s
          | _ => "No description provided"
        .ok (n ++ ": " ++ d ++ "\n")

/-- the loop over `enumerate(parameter_list.findall(".//parameteritem"))`. -/
def paramLines (ignored : List (Option String)) : Nat → List Elem → Res String
  | _, [] => .ok ""
  | i, it :: its => do
    let l ← paramLine ignored i it
    let r ← paramLines ignored (i + 1) its
    pure (l ++ r)

/-- parameter documentation. -/
def paramPart (dd : Elem) (ignored : List (Option String)) : Res String :=
  match dd.findDesc "parameterlist" with
  | none => .ok ""
  | some pl => paramLines ignored 0 (pl.descTag "parameteritem")

/-- return value documentation: only the FIRST `simplesect` is looked at. -/
def returnPart (dd : Elem) : Res String :=
  match dd.findDesc "simplesect" with
  | none => .ok ""
  | some rs =>
    match rs.attr? "kind" with
    | none => .err "KeyError"
    | some k =>
      if k ≠ "return" then .ok ""
      else match rs.findChild "para" with
        | none => .err "AttributeError"
        | some p =>
          match p.text with
          | none => .ok ""
          | some t => .ok ("Returns: " ++ strip t)

/-- The text before the final `.strip()`. -/
def rawDocstring (m : Elem) (ignored : List (Option String)) : Res String :=
  match m.findDesc "detaileddescription" with
  | none => .ok (briefPart m)
  | some dd => do
    let ps ← paramPart dd ignored
    let rt ← returnPart dd
    pure (briefPart m ++ "\n" ++ detailParas dd ++ ps ++ rt)

/-- `get_formatted_docstring`. -/
def formatDocstring (m : Elem) (ignored : List (Option String)) : Res String := do
  let r ← rawDocstring m ignored
  pure (strip r)

/-! ## extract_docstring -/

/-- Result of one lookup: value/exception, warnings printed, new memory. -/
structure Lookup where
  res : Res String
  warnings : List Warning
  state : DocState
  deriving Repr, DecidableEq

/-- `extract_docstring(xml_folder, cls, meth, args)` with `self._memory = st`. -/
def extractDocstring (d : Dir) (st : DocState) (cls meth : String) (args : List String) : Lookup :=
  match getMemberDefs d cls meth with
  | (.err e, w) => ⟨.err e, w, st⟩
  | (.ok maybe, w) =>
    match filterMemberDefs maybe args with
    | .err e => ⟨.err e, w, st⟩
    | .ok (defs, ignored) =>
      let (idx, st') := determineIndex st (functionKey cls meth args) defs.length
      if defs.isEmpty then ⟨.ok "", w, st'⟩
      else match defs[idx]? with
        | none => ⟨.ok "", w, st'⟩        -- more lookups than documented overloads: no documentation
        | some m => ⟨formatDocstring m ignored, w, st'⟩

/-- A sequence of lookups on one parser object. -/
def extractAll (d : Dir) : DocState → List (String × String × List String) → List Lookup
  | _, [] => []
  | st, (c, m, a) :: qs =>
    let r := extractDocstring d st c m a
    r :: extractAll d r.state qs

/-! ## `repr(str)` and the escaping expression -/

/-- Lower-case hexadecimal digit. -/
def hexDigit (n : Nat) : Char := if n < 10 then Char.ofNat (48 + n) else Char.ofNat (87 + n)

def hex2 (n : Nat) : List Char := [hexDigit (n / 16 % 16), hexDigit (n % 16)]
def hex4 (n : Nat) : List Char := hex2 (n / 256) ++ hex2 n
def hex8 (n : Nat) : List Char := hex4 (n / 65536) ++ hex4 n

/-- CPython `unicode_repr`, one character, for quote character `q`. -/
def reprChar (p : Char → Bool) (q c : Char) : List Char :=
  if c = q ∨ c = '\\' then ['\\', c]
  else if c = '\t' then ['\\', 't']
  else if c = '\n' then ['\\', 'n']
  else if c = '\r' then ['\\', 'r']
  else if c.toNat < 32 ∨ c.toNat = 127 then '\\' :: 'x' :: hex2 c.toNat
  else if c.toNat < 127 then [c]
  else if p c then [c]
  else if c.toNat ≤ 255 then '\\' :: 'x' :: hex2 c.toNat
  else if c.toNat ≤ 65535 then '\\' :: 'u' :: hex4 c.toNat
  else '\\' :: 'U' :: hex8 c.toNat

/-- Quote choice of `repr`: `"` iff the text has a `'` and no `"`. -/
def quoteFor (cs : List Char) : Char :=
  if cs.contains '\'' && !cs.contains '"' then '"' else '\''

/-- `repr(s)` on character lists, for the printability predicate `p`. -/
def pyReprL (p : Char → Bool) (cs : List Char) : List Char :=
  quoteFor cs :: cs.flatMap (reprChar p (quoteFor cs)) ++ [quoteFor cs]

/-- `x[1:-1]`. -/
def dropFirstLast (l : List Char) : List Char := (l.drop 1).dropLast

/-- `x.replace('"', '\\"')`: a one-character pattern is replaced characterwise. -/
def replaceDq (l : List Char) : List Char :=
  l.flatMap (fun c => if c = '"' then ['\\', '"'] else [c])

/-- `repr(t)[1:-1].replace('"', r'\"')` on character lists. -/
def escapeDocL (p : Char → Bool) (cs : List Char) : List Char :=
  replaceDq (dropFirstLast (pyReprL p cs))

/-! ### The guard of C17_escape_roundtrip: for which texts is the escaping right? -/

/-- Is `c` rendered by `repr` as a two-digit `\xNN` escape?  (C0 controls other
    than TAB/LF/CR, DEL, and the non-printable characters of U+0080..U+00FF.) -/
def xEscaped (p : Char → Bool) (c : Char) : Bool :=
  (c.toNat < 32 && c != '\t' && c != '\n' && c != '\r') || c.toNat == 127 ||
    (128 ≤ c.toNat && c.toNat ≤ 255 && !p c)

/-- Does the text continue with an ASCII hexadecimal digit? -/
def startsHex : List Char → Bool
  | [] => false
  | d :: _ => (CppLit.hexVal? d).isSome

/-- The texts for which `escapeDocL` is a correct C++ encoding: no `\xNN` escape
    stands for a character ≥ U+0080 (it would denote ONE byte, not the two UTF-8
    bytes), and no `\xNN` escape is directly followed by a hexadecimal digit
    (a C++ hex escape is greedy). -/
def okTextL (p : Char → Bool) : List Char → Bool
  | [] => true
  | c :: cs => (!xEscaped p c || (decide (c.toNat < 128) && !startsHex cs)) && okTextL p cs

/-- `okTextL` for the running interpreter's table, on strings. -/
def okText (t : String) : Bool := okTextL Gen.isPrintable t.toList

/-! ### A correct escaper (PROPOSED FIX — not in the repository)

Python equivalent (see NOTES.md):

    def cpp_string_literal_body(s):
        out = []
        for ch in s:
            o = ord(ch)
            if ch in '\\"?':            out.append('\\' + ch)
            elif ch == '\n':            out.append('\\n')
            elif ch == '\r':            out.append('\\r')
            elif ch == '\t':            out.append('\\t')
            elif o < 0x20 or o == 0x7f: out.append('\\%03o' % o)   # exactly 3 octal digits: never greedy
            else:                       out.append(ch)             # UTF-8 source file
        return ''.join(out)
-/

/-- Octal digit of `n % 8`. -/
def octDigit (n : Nat) : Char := Char.ofNat (48 + n % 8)

/-- One character of the proposed escaper. -/
def cppEscapeChar (c : Char) : List Char :=
  if c = '\\' then ['\\', '\\']
  else if c = '"' then ['\\', '"']
  else if c = '?' then ['\\', '?']
  else if c = '\n' then ['\\', 'n']
  else if c = '\r' then ['\\', 'r']
  else if c = '\t' then ['\\', 't']
  else if c.toNat < 32 ∨ c.toNat = 127 then
    ['\\', octDigit (c.toNat / 64), octDigit (c.toNat / 8), octDigit c.toNat]
  else [c]

/-- The proposed escaper: literal body for a text. -/
def cppEscapeL (cs : List Char) : List Char := cs.flatMap cppEscapeChar

/-- The proposed escaper on strings. -/
def cppEscape (t : String) : String := String.ofList (cppEscapeL t.toList)

/-- `repr(s)` for an arbitrary printability predicate. -/
def pyReprWith (p : Char → Bool) (s : String) : String := String.ofList (pyReprL p s.toList)

/-- `repr(s)` of the running interpreter (generated table). -/
def pyRepr (s : String) : String := pyReprWith Gen.isPrintable s

/-- The body of the emitted C++ literal. -/
def escapeDoc (t : String) : String := String.ofList (escapeDocL Gen.isPrintable t.toList)

/-- The `docstring=` argument of `_wrap_method` for a non-empty `xml_source`: the text escaped by
    `cpp_string_literal_body` (= `cppEscape`; before fix 58823a1 it was `escapeDoc`, the `repr()`-based expression). -/
def docstringArg (t : String) : String := ", \"" ++ cppEscape t ++ "\""

end WrapModel.Xml
