/-
  Template instantiator: `gtwrap/template_instantiator/*` function by function, quirks included
  (first-level rewriting of template arguments, `str.replace` on scoped names, typedef lookup on
  the partly rewritten tree, `name.replace(name[0], name[0].capitalize())`).
-/
import WrapModel.Model.Syntax

namespace WrapModel.Inst
open WrapModel

/-! ### strings as Python sees them -/

def joinWith (sep : String) (xs : List String) : String := sep.intercalate xs

/-- Python `str.replace(old, new)` (all non-overlapping occurrences, left to right; `old ≠ ""`) -/
def replaceAllL (old new : List Char) : Nat → List Char → List Char
  | 0, s => s
  | _, [] => []
  | n+1, c :: r =>
    if old.isPrefixOf (c :: r) && !old.isEmpty then new ++ replaceAllL old new n ((c :: r).drop old.length)
    else c :: replaceAllL old new n r

def pyReplace (s old new : String) : String :=
  String.ofList (replaceAllL old.toList new.toList (s.length + 1) s.toList)

/-- Python `str.split(sep)` for a non-empty separator -/
def splitOnL (sep : List Char) : Nat → List Char → List Char → List (List Char)
  | 0, cur, _ => [cur.reverse]
  | _, cur, [] => [cur.reverse]
  | n+1, cur, c :: r =>
    if sep.isPrefixOf (c :: r) && !sep.isEmpty then cur.reverse :: splitOnL sep n [] ((c :: r).drop sep.length)
    else splitOnL sep n (c :: cur) r

def pySplit (s sep : String) : List String :=
  (splitOnL sep.toList (s.length + 1) [] s.toList).map String.ofList

def isSub (pat s : List Char) : Bool :=
  match s with
  | [] => pat.isEmpty
  | c :: r => pat.isPrefixOf (c :: r) || isSub pat r

/-- Python `a in b` on strings -/
def pyIn (a b : String) : Bool := isSub a.toList b.toList

def upperChar (c : Char) : Char := if 'a' ≤ c && c ≤ 'z' then Char.ofNat (c.toNat - 32) else c

def indexOf? (x : String) : List String → Option Nat
  | [] => none
  | y :: ys => if x == y then some 0 else (indexOf? x ys).map (· + 1)

/-! ### `Typename` / `Type` renderings -/

mutual
  /-- `Typename.to_cpp` -/
  def tnToCpp : Typename → String
    | ⟨nss, name, is⟩ =>
      let cppName := if is.isEmpty then name else name ++ "<" ++ tnsToCpp is ++ ">"
      joinWith "::" nss ++ (if nss.isEmpty then "" else "::") ++ cppName
  def tnsToCpp : List Typename → String
    | [] => ""
    | [t] => tnToCpp t
    | t :: ts => tnToCpp t ++ ", " ++ tnsToCpp ts
end

mutual
  /-- `Typename.instantiated_name` -/
  def instantiatedName : Typename → String
    | ⟨_, name, is⟩ => name ++ instantiatedNames is
  def instantiatedNames : List Typename → String
    | [] => ""
    | t :: ts => instantiatedName t ++ instantiatedNames ts
end

/-- `Typename.qualified_name` -/
def qualifiedName (t : Typename) : String := joinWith "::" (t.namespaces ++ [t.name])

def wrapSuffix (q : Quals) (s : String) : String :=
  let s := match q.suffix with
    | .shared => "std::shared_ptr<" ++ s ++ ">"
    | .raw => s ++ "*"
    | .ref => s ++ "&"
    | .none => s
  (if q.isConst then "const " else "") ++ s

mutual
  /-- `Type.to_cpp` / `TemplatedType.to_cpp` -/
  def tyToCpp : CType → String
    | .simple tn q _ => wrapSuffix q (tnToCpp tn)
    | .templ nss name ps q =>
      wrapSuffix q (joinWith "::" (nss ++ [name]) ++ "<" ++ tysToCpp ps ++ ">")
  def tysToCpp : List CType → String
    | [] => ""
    | [t] => tyToCpp t
    | t :: ts => tyToCpp t ++ ", " ++ tysToCpp ts
end

/-- `ReturnType.to_cpp` -/
def retToCpp (r : RetType) : String :=
  match r.type2 with
  | some t2 => "std::pair<" ++ tyToCpp r.type1 ++ "," ++ tyToCpp t2 ++ ">"
  | none => tyToCpp r.type1

/-- `Type.__repr__` (TemplatedType's repr is not used by the generators) -/
def tyRepr : CType → String
  | .simple tn q _ =>
    let sfx := match q.suffix with | .shared => " *" | .raw => " @" | .ref => " &" | .none => ""
    (if q.isConst then "const " else "") ++ tnToCpp tn ++ sfx
  | .templ nss name _ _ => "TemplatedType(" ++ toString nss ++ "::" ++ name ++ ")"

/-- `ReturnType.is_void` -/
def isVoid (r : RetType) : Bool := r.type1.typename.name == "void" && r.type2.isNone

/-! ### `instantiate_name` -/

/-- `name.replace(name[0], name[0].capitalize())` — every occurrence of the first character -/
def capitalizeFirstAll (name : String) : String :=
  match name.toList with
  | [] => ""
  | c :: _ => String.ofList (name.toList.map fun d => if d == c then upperChar c else d)

def instName (orig : String) (insts : List Typename) : String :=
  orig ++ String.join (insts.map fun i => capitalizeFirstAll (instantiatedName i))

/-! ### `instantiate_type` -/

def setTypeName (t : CType) (n : String) : CType :=
  match t with
  | .simple ⟨nss, _, is⟩ q b => .simple ⟨nss, n, is⟩ q b
  | .templ nss _ ps q => .templ nss n ps q

def setTypeNamespaces (t : CType) (nss : List String) : CType :=
  match t with
  | .simple ⟨_, n, is⟩ q b => .simple ⟨nss, n, is⟩ q b
  | .templ _ n ps q => .templ nss n ps q

/-- splice an instantiation into a template argument: namespaces appended, name and
    instantiations replaced (a templated argument keeps its own parameters) -/
def spliceInst (t : CType) (i : Typename) : CType :=
  match t with
  | .simple ⟨nss, _, _⟩ q b => .simple ⟨nss ++ i.namespaces, i.name, i.insts⟩ q b
  | .templ nss _ ps q => .templ (nss ++ i.namespaces) i.name ps q

/-- first-level rewriting of template arguments (`instantiate_type`, first loop) -/
def rewriteParams (tns : List String) (insts : List Typename) : List CType → Except Err (List CType)
  | [] => .ok []
  | p :: ps =>
    match rewriteParams tns insts ps with
    | .error e => .error e
    | .ok ps' =>
      match indexOf? p.typename.name tns with
      | some k =>
        match insts[k]? with
        | some i => .ok (spliceInst p i :: ps')
        | none => .error .validation
      | none => .ok (p :: ps')

/-- `is_scoped_template` -/
def isScopedTemplate (tns : List String) (s : String) : Option (String × Nat) :=
  let parts := pySplit s "::"
  let rec go (ts : List String) (idx : Nat) : Option (String × Nat) :=
    match ts with
    | [] => none
    | t :: rest => if pyIn "::" s && parts.contains t then some (t, idx) else go rest (idx + 1)
  go tns 0

def replaceFirst (xs : List String) (old new : String) : List String :=
  match xs with
  | [] => []
  | x :: r => if x == old then new :: r else x :: replaceFirst r old new

/-- `instantiate_type(ctype, template_typenames, instantiations, cpp_typename, instantiated_class)`.
    `cpp = none` models the `cpp_typename=''` that free functions pass. -/
def instType (tns : List String) (insts : List Typename) (cpp : Option Typename)
    (icls : Option Typename) (t : CType) : Except Err CType := do
  -- first-level template arguments
  let t ← (match t with
    | .templ nss n ps q => do
      let ps' ← rewriteParams tns insts ps
      pure (CType.templ nss n ps' q)
    | s => pure s : Except Err CType)
  let str := tnToCpp t.typename
  match isScopedTemplate tns str with
  | some (tmpl, idx) =>
    match t, insts[idx]? with
    | .simple _ q b, some i => pure (.simple ⟨i.namespaces, pyReplace str tmpl i.name, i.insts⟩ q b)
    | _, _ => throw .validation      -- TemplatedType has no `is_basic`: AttributeError
  | none =>
    match indexOf? str tns with
    | some idx =>
      match t, insts[idx]? with
      | .simple _ q b, some i => pure (.simple i q b)
      | _, _ => throw .validation
    | none =>
      if str == "This" then
        match t with
        | .simple _ q b =>
          match icls, cpp with
          | some c, _ => pure (.simple c q b)
          | none, some c => pure (.simple c q b)
          | none, none => throw .validation
        | _ => throw .validation
      else if pyIn "This" str then
        match cpp with
        | none => throw .validation
        | some c =>
          if t.typename.namespaces.contains "This" then
            pure (setTypeNamespaces t (replaceFirst t.typename.namespaces "This" c.name))
          else
            match t with
            | .templ nss n ps q =>
              pure (.templ nss n (ps.map fun p =>
                if p.typename.namespaces.contains "This" then setTypeNamespaces p (c.namespaces ++ [c.name]) else p) q)
            | s => pure s
      else pure t

/-- the type-level instantiation function; the model uses `instType`, the specification
    (`Spec/Subst.lean`) plugs in capture-free substitution -/
abbrev TyInst := List String → List Typename → Option Typename → Option Typename → CType → Except Err CType

def instArgs (F : TyInst) (tns : List String) (insts : List Typename) (cpp : Option Typename) : List Arg → Except Err (List Arg)
  | [] => .ok []
  | a :: as => do
    let t ← F tns insts cpp none a.ctype
    let rest ← instArgs F tns insts cpp as
    pure (⟨t, a.name, a.default⟩ :: rest)

def instRet (F : TyInst) (tns : List String) (insts : List Typename) (cpp : Option Typename) (icls : Option Typename)
    (r : RetType) : Except Err RetType := do
  let t1 ← F tns insts cpp icls r.type1
  match r.type2 with
  | some t2 =>
    let t2' ← F tns insts cpp icls t2
    pure ⟨t1, some t2', r.stdPrefix⟩
  | none => pure ⟨t1, none, r.stdPrefix⟩

/-! ### `itertools.product` -/

/-- lexicographic product, first list varies slowest; `product [] = [[]]` -/
def product : List (List α) → List (List α)
  | [] => [[]]
  | xs :: rest => xs.flatMap fun x => (product rest).map fun r => x :: r

/-! ### instantiated tree -/

structure ICtor where
  name : String              -- the instantiated class name
  tmpl : Option Template
  insts : List Typename      -- constructor-level instantiations
  args : List Arg
deriving Repr, BEq, Inhabited

/-- method or static method -/
structure IMethod where
  name : String              -- `instantiate_name(original.name, insts)`
  origName : String
  tmpl : Option Template
  insts : List Typename
  ret : RetType
  args : List Arg
  isConst : Bool
  isStatic : Bool
deriving Repr, BEq, Inhabited

structure IOp where
  sym : String
  ret : RetType
  args : List Arg
deriving Repr, BEq, Inhabited

structure IClass where
  name : String
  origName : String
  hasTmpl : Bool
  insts : List Typename
  isVirtual : Bool
  /-- `namespaces()`: `[""]` followed by the namespace path of the *template* -/
  nsPath : List String
  parentClass : Option Typename
  ctors : List ICtor
  statics : List IMethod
  props : List VarDecl
  ops : List IOp
  enums : List EnumDecl
  methods : List IMethod
  dunders : List (String × List Arg)
  /-- names of the enums declared in the namespace of the class template (`class_.parent.content`) -/
  nsEnums : List String := []
deriving Repr, BEq, Inhabited

structure IFunc where
  name : String
  origName : String
  hasTmpl : Bool
  insts : List Typename
  ret : RetType
  args : List Arg
  nsPath : List String
deriving Repr, BEq, Inhabited

/-- `InstantiatedDeclaration` (typedef of a forward declaration) -/
structure IFwd where
  name : String
  origName : String
  insts : List Typename
  isVirtual : Bool
  nsPath : List String
deriving Repr, BEq, Inhabited

inductive IDecl where
  | fwd (isVirtual : Bool) (tn : Typename) (parent : Option Typename)
  | incl (header : String)
  | enum (e : EnumDecl)
  | var (v : VarDecl)
  | cls (c : IClass)
  | func (f : IFunc)
  | decl (d : IFwd)
  | ns (name : String) (content : List IDecl)
deriving Repr, BEq, Inhabited

/-- `to_cpp` of methods / static methods / constructors: `name<a,b>` iff the member has a template -/
def memberToCpp (orig : String) (tmpl : Option Template) (insts : List Typename) : String :=
  if tmpl.isSome then orig ++ "<" ++ joinWith "," (insts.map tnToCpp) ++ ">" else orig

def IMethod.toCpp (m : IMethod) : String := memberToCpp m.origName m.tmpl m.insts
def ICtor.toCpp (c : ICtor) : String := memberToCpp c.name c.tmpl c.insts

/-- `Typename(namespaces_and_name)`: last element is the name, a leading empty namespace is dropped -/
def typenameOfPath (p : List String) : Typename :=
  let rec splitLast : List String → List String × String
    | [] => ([], "")
    | [x] => ([], x)
    | x :: xs => let (a, b) := splitLast xs; (x :: a, b)
  let (nss, n) := splitLast p
  let nss := match nss with | "" :: r => r | l => l
  ⟨nss, n, []⟩

/-- `InstantiatedClass.cpp_typename` -/
def classCppTypename (nsPath : List String) (origName : String) (hasTmpl : Bool) (insts : List Typename) : Typename :=
  let name := if hasTmpl then origName ++ "<" ++ joinWith ", " (insts.map tnToCpp) ++ ">" else origName
  typenameOfPath (nsPath ++ [name])

def IClass.cppTypename (c : IClass) : Typename := classCppTypename c.nsPath c.origName c.hasTmpl c.insts
def IClass.toCpp (c : IClass) : String := tnToCpp c.cppTypename

/-- `InstantiatedGlobalFunction.to_cpp` -/
def IFunc.toCpp (f : IFunc) : String :=
  if f.hasTmpl then
    f.origName ++ "<" ++ joinWith "," (f.insts.map fun i => joinWith "::" (i.namespaces ++ [instantiatedName i])) ++ ">"
  else f.origName

/-- `InstantiatedDeclaration.to_cpp` -/
def IFwd.toCpp (d : IFwd) : String :=
  let name := d.origName ++ "<" ++ joinWith "," (d.insts.map qualifiedName) ++ ">"
  tnToCpp (typenameOfPath (d.nsPath ++ [name]))

/-! ### members -/

def tmplNames (t : Option Template) : List String := (t.getD []).map (·.name)
def tmplInsts (t : Option Template) : List (List Typename) := (t.getD []).map (·.insts)

/-- `multilevel_instantiation`: one instantiation per element of the product of the member-level
    lists (or exactly one when the member has no template) -/
def memberInsts (t : Option Template) : List (List Typename) :=
  match t with
  | some ps => product (ps.map (·.insts))
  | none => [[]]

def mapM' (f : α → Except Err β) : List α → Except Err (List β)
  | [] => .ok []
  | a :: as => do
    let b ← f a
    let bs ← mapM' f as
    pure (b :: bs)

def flatMapM' (f : α → Except Err (List β)) : List α → Except Err (List β)
  | [] => .ok []
  | a :: as => do
    let b ← f a
    let bs ← flatMapM' f as
    pure (b ++ bs)

structure ClsCtx where
  name : String            -- instantiated class name
  tns : List String        -- class template typenames
  insts : List Typename    -- class instantiations
  cpp : Typename           -- `cpp_typename()`
  /-- Typename used for `This` in static return types -/
  thisTn : Typename

def instCtor (F : TyInst) (cx : ClsCtx) (tmpl : Option Template) (args : List Arg) : Except Err (List ICtor) :=
  mapM' (fun mi => do
    let as ← instArgs F (cx.tns ++ tmplNames tmpl) (cx.insts ++ mi) (some cx.cpp) args
    pure (⟨cx.name, tmpl, mi, as⟩ : ICtor)) (memberInsts tmpl)

def instMethod (F : TyInst) (cx : ClsCtx) (isStatic : Bool) (tmpl : Option Template) (ret : RetType) (name : String)
    (args : List Arg) (isConst : Bool) : Except Err (List IMethod) :=
  mapM' (fun mi => do
    let tns := cx.tns ++ tmplNames tmpl
    let is := cx.insts ++ mi
    let as ← instArgs F tns is (some cx.cpp) args
    let r ← instRet F tns is (some cx.cpp) (if isStatic then some cx.thisTn else none) ret
    pure (⟨instName name mi, name, tmpl, mi, r, as, isConst, isStatic⟩ : IMethod)) (memberInsts tmpl)

/-- `InstantiatedClass.__init__` -/
def instClass (F : TyInst) (c : ClassDecl) (nsPath : List String) (insts : List Typename) (newName : String)
    (nsEnums : List String := []) : Except Err IClass := do
  let tns := tmplNames c.tmpl
  if c.tmpl.isSome && tns.length != insts.length then throw .validation
  let name := if newName.isEmpty then instName c.name insts else newName
  let cpp := classCppTypename nsPath c.name c.tmpl.isSome insts
  let thisTn : Typename := let t := typenameOfPath (nsPath ++ [c.name]); ⟨t.namespaces, t.name, insts⟩
  let cx : ClsCtx := ⟨name, tns, insts, cpp, thisTn⟩
  let parent ← (match c.parent with
    | none => pure none
    | some (.simple tn _ _) => pure (some tn)
    | some t => do
      let t' ← F tns insts (some (typenameOfPath nsPath)) none t
      pure (some t'.typename) : Except Err (Option Typename))
  let ctors ← flatMapM' (fun m => match m with
    | .ctor t _ as => instCtor F cx t as
    | _ => pure []) c.members
  let statics ← flatMapM' (fun m => match m with
    | .static t r n as => instMethod F cx true t r n as false
    | _ => pure []) c.members
  let props ← flatMapM' (fun m => match m with
    | .prop v => do
      let t ← F tns insts (some cpp) none v.ctype
      pure [(⟨t, v.name, v.default⟩ : VarDecl)]
    | _ => pure []) c.members
  let ops ← flatMapM' (fun m => match m with
    | .op r sym as => do
      let as' ← instArgs F tns insts (some cpp) as
      let r' ← instRet F tns insts (some cpp) none r
      pure [(⟨sym, r', as'⟩ : IOp)]
    | _ => pure []) c.members
  let enums := c.members.filterMap fun m => match m with | .enum e => some e | _ => none
  let methods ← flatMapM' (fun m => match m with
    | .method t r n as k => instMethod F cx false t r n as k
    | _ => pure []) c.members
  let dunders := c.members.filterMap fun m => match m with | .dunder n as => some (n, as) | _ => none
  pure ⟨name, c.name, c.tmpl.isSome, insts, c.isVirtual, nsPath, parent, ctors, statics, props, ops, enums, methods, dunders, nsEnums⟩

/-- `InstantiatedGlobalFunction.__init__` -/
def instFunc (F : TyInst) (tmpl : Option Template) (ret : RetType) (name : String) (args : List Arg) (nsPath : List String)
    (insts : List Typename) (newName : String) : Except Err IFunc :=
  match tmpl with
  | none => pure ⟨name, name, false, insts, ret, args, nsPath⟩
  | some ps => do
    let tns := ps.map (·.name)
    let r ← instRet F tns insts none none ret
    let as ← instArgs F tns insts none args
    pure ⟨if newName.isEmpty then instName name insts else newName, name, true, insts, r, as, nsPath⟩

/-! ### `instantiate_namespace` on the partly rewritten tree -/

/-- the module while it is being rewritten in place -/
inductive MDecl where
  | leaf (d : Decl)                       -- a declaration that is not a namespace, as parsed
  | ns (name : String) (content : List MDecl)   -- a namespace not yet (or being) processed
  | done (name : String) (content : List IDecl) -- a namespace whose content has been replaced
deriving Inhabited

mutual
  def toM : Decl → MDecl
    | .ns n ds => .ns n (toMs ds)
    | d => .leaf d
  def toMs : List Decl → List MDecl
    | [] => []
    | d :: ds => toM d :: toMs ds
end

/-- what `find_class_or_function` can return -/
inductive Found where
  | cls (c : ClassDecl) (nsPath : List String) (nsEnums : List String)
  | func (tmpl : Option Template) (ret : RetType) (name : String) (args : List Arg) (nsPath : List String)
  | fwd (isVirtual : Bool) (tn : Typename) (nsPath : List String)
  | ifunc (f : IFunc)     -- an already instantiated function (found by its instantiated name)
  | instantiated          -- an already instantiated class/declaration (not supported by the model)

def enumNamesM : List MDecl → List String
  | [] => []
  | .leaf (.enum e) :: r => e.name :: enumNamesM r
  | _ :: r => enumNamesM r

/-- candidates named `name` directly inside one namespace node (`es` = enum names of that node) -/
def candidatesM (name : String) (path : List String) (es : List String) : List MDecl → List Found
  | [] => []
  | .leaf (.cls c) :: r => (if c.name == name then [Found.cls c path es] else []) ++ candidatesM name path es r
  | .leaf (.func t rt n as) :: r => (if n == name then [Found.func t rt n as path] else []) ++ candidatesM name path es r
  | .leaf (.fwd v tn _) :: r => (if tn.name == name then [Found.fwd v tn path] else []) ++ candidatesM name path es r
  | _ :: r => candidatesM name path es r

def candidatesI (name : String) (path : List String) : List IDecl → List Found
  | [] => []
  | .cls c :: r => (if c.name == name then [Found.instantiated] else []) ++ candidatesI name path r
  | .func f :: r => (if f.name == name then [Found.ifunc f] else []) ++ candidatesI name path r
  | .decl d :: r => (if d.name == name then [Found.instantiated] else []) ++ candidatesI name path r
  | .fwd v tn _ :: r => (if tn.name == name then [Found.fwd v tn path] else []) ++ candidatesI name path r
  | _ :: r => candidatesI name path r

mutual
  /-- `find_sub_namespace` + candidate collection inside an already rewritten namespace -/
  def findI (nss : List String) (name : String) (path : List String) (content : List IDecl) : List Found :=
    match nss with
    | [] => candidatesI name path content
    | n :: rest => findIs n rest name path content
  def findIs (n : String) (rest : List String) (name : String) (path : List String) : List IDecl → List Found
    | [] => []
    | .ns m c :: r => (if m == n then findI rest name (path ++ [m]) c else []) ++ findIs n rest name path r
    | _ :: r => findIs n rest name path r
end

mutual
  def findM (nss : List String) (name : String) (path : List String) (content : List MDecl) : List Found :=
    match nss with
    | [] => candidatesM name path (enumNamesM content) content
    | n :: rest => findMs n rest name path content
  def findMs (n : String) (rest : List String) (name : String) (path : List String) : List MDecl → List Found
    | [] => []
    | .ns m c :: r => (if m == n then findM rest name (path ++ [m]) c else []) ++ findMs n rest name path r
    | .done m c :: r => (if m == n then findI rest name (path ++ [m]) c else []) ++ findMs n rest name path r
    | _ :: r => findMs n rest name path r
end

/-- `Namespace.find_class_or_function` on the current state of the whole tree -/
def findClassOrFunction (root : List MDecl) (tn : Typename) : Except Err Found :=
  match findM tn.namespaces tn.name [""] root with
  | [f] => .ok f
  | _ => .error .lookup

/-- replace the `i`-th element -/
def setAt (xs : List α) (i : Nat) (a : α) : List α := xs.set i a

/-- the tree with the namespace at index path `ip` (from the root) replaced -/
def replaceAtPath : List MDecl → List Nat → MDecl → List MDecl
  | root, [], _ => root
  | root, [i], d => setAt root i d
  | root, i :: rest, d =>
    match root[i]? with
    | some (.ns n c) => setAt root i (.ns n (replaceAtPath c rest d))
    | _ => root

def contentAtPath : List MDecl → List Nat → List MDecl
  | root, [] => root
  | root, i :: rest =>
    match root[i]? with
    | some (.ns _ c) => contentAtPath c rest
    | _ => []

/-- one non-namespace, non-typedef element -/
def instLeaf (F : TyInst) (d : Decl) (nsPath : List String) (es : List String) : Except Err (List IDecl) :=
  match d with
  | .cls c =>
    match c.tmpl with
    | none => do let ic ← instClass F c nsPath [] "" es; pure [.cls ic]
    | some ps => mapM' (fun is => do let ic ← instClass F c nsPath is "" es; pure (IDecl.cls ic)) (product (ps.map (·.insts)))
  | .func t r n as =>
    match t with
    | none => do let f ← instFunc F none r n as nsPath [] ""; pure [.func f]
    | some ps => mapM' (fun is => do let f ← instFunc F t r n as nsPath is ""; pure (IDecl.func f)) (product (ps.map (·.insts)))
  | .fwd v tn p => pure [.fwd v tn p]
  | .incl h => pure [.incl h]
  | .enum e => pure [.enum e]
  | .var v => pure [.var v]
  | .typedef .. => pure []
  | .ns .. => pure []

def instTypedef (F : TyInst) (root : List MDecl) (tn : Typename) (newName : String) : Except Err (List IDecl) := do
  match ← findClassOrFunction root tn with
  | .cls c p es => do let ic ← instClass F c p tn.insts newName es; pure [.cls ic]
  | .func t r n as p => do let f ← instFunc F t r n as p tn.insts newName; pure [.func f]
  | .fwd v ftn p =>
    pure [.decl ⟨if newName.isEmpty then instName ftn.name tn.insts else newName, ftn.name, tn.insts, v, p⟩]
  | .ifunc f =>
    -- `InstantiatedGlobalFunction(original=<instantiated function>, …)`: `original.template` is '' there, so the
    -- original's name, return type and arguments are taken over unchanged
    pure [.func { f with origName := f.name, hasTmpl := false, insts := tn.insts }]
  | .instantiated => throw .lookup

/-- `instantiate_namespace` for the namespace at index path `ip` (names `nsPath`), threading the
    whole tree; returns the updated tree and the instantiated content of that namespace -/
def instNs (F : TyInst) : Nat → List MDecl → List Nat → List String → Except Err (List MDecl × List IDecl)
  | 0, _, _, _ => .error .fuel
  | fuel+1, root, ip, nsPath =>
    let content := contentAtPath root ip
    let rec loop (root : List MDecl) (i : Nat) (elems : List MDecl) (acc tds : List IDecl) :
        Except Err (List MDecl × List IDecl) :=
      match elems with
      | [] => .ok (root, acc ++ tds)
      | .leaf (.typedef tn nn) :: r => do
        let t ← instTypedef F root tn nn
        loop root (i + 1) r acc (tds ++ t)
      | .leaf d :: r => do
        let x ← instLeaf F d nsPath (enumNamesM content)
        loop root (i + 1) r (acc ++ x) tds
      | .ns n _ :: r => do
        let (root', c) ← instNs F fuel root (ip ++ [i]) (nsPath ++ [n])
        let root'' := replaceAtPath root' (ip ++ [i]) (.done n c)
        loop root'' (i + 1) r (acc ++ [.ns n c]) tds
      | .done n c :: r => loop root (i + 1) r (acc ++ [.ns n c]) tds
    loop root 0 content [] []

mutual
  def depth : Decl → Nat
    | .ns _ ds => depths ds + 1
    | _ => 0
  def depths : List Decl → Nat
    | [] => 0
    | d :: ds => max (depth d) (depths ds)
end

/-- the model of `instantiate_namespace(Module.parseString(text))` -/
def instModuleWith (F : TyInst) (m : Module) : Except Err (List IDecl) :=
  match instNs F (depths m + 2) (toMs m) [] [""] with
  | .ok (_, c) => .ok c
  | .error e => .error e

/-- the model of `instantiate_namespace(Module.parseString(text))` -/
def instModule (m : Module) : Except Err (List IDecl) := instModuleWith instType m

end WrapModel.Inst
