/-
  MATLAB generator, part 1: Python text helpers, the tables of `mixins.py` / `wrapper.py`,
  `_format_type_name` and friends, `_expand_default_arguments`, `_group_methods`.
-/
import WrapModel.Model.Inst
import WrapModel.Gen.MatlabTables

namespace WrapModel.Matlab
open WrapModel WrapModel.Inst

/-! ### Python text helpers -/

/-- `str.splitlines()` (only `\n` occurs in generated text) -/
def splitLines (s : String) : List String :=
  match (s.splitOn "\n").reverse with
  | "" :: r => r.reverse
  | l => l.reverse

def isBlank (s : String) : Bool := s.toList.all fun c => c == ' ' || c == '\n' || c == '\t' || c == '\r'

/-- `textwrap.indent(text, prefix)`: prefix every line that is not whitespace-only -/
def indentText (pfx : String) (s : String) : String :=
  let parts := s.splitOn "\n"
  let n := parts.length
  let rec go (i : Nat) : List String → String
    | [] => ""
    | [last] => if isBlank last then last else pfx ++ last
    | l :: r => (if isBlank l then l else pfx ++ l) ++ "\n" ++ go (i + 1) r
  if n == 0 then "" else go 0 parts

/-- `'  ' + reduce(_insert_spaces, text.splitlines()) + '\n'` with a configurable prefix -/
def reindent (pfx : String) (text : String) : String :=
  match splitLines text with
  | [] => pfx ++ "\n"
  | l :: r => pfx ++ l ++ String.join (r.map fun y => "\n" ++ (if y == "" then "" else pfx) ++ y) ++ "\n"

def upperStr (s : String) : String := String.ofList (s.toList.map upperChar)

/-! ### tables (regenerated from `mixins.py` / `wrapper.py` on every run) -/

def notPtrType : List String := Gen.Matlab.notPtrType
def ignoreNamespace : List String := Gen.Matlab.ignoreNamespace
def ignoreMethods : List String := Gen.Matlab.ignoreMethods
def whitelist : List String := Gen.Matlab.whitelist
def dataType : List (String × String) := Gen.Matlab.dataType
def dataTypeParam : List (String × String) := Gen.Matlab.dataTypeParam

/-! ### `CheckMixin` -/

def canBePointer (t : CType) : Bool :=
  let n := t.typename.name
  !notPtrType.contains n && !ignoreNamespace.contains n && n != "string"

def isSharedPtr (t : CType) : Bool := t.quals.suffix == .shared
def isPtr (t : CType) : Bool := t.quals.suffix == .raw
def isRef (t : CType) : Bool :=
  let n := t.typename.name
  !ignoreNamespace.contains n && !notPtrType.contains n && t.quals.suffix == .ref

def isClassEnum (t : CType) (c : Option IClass) : Bool :=
  match c with
  | some c => (c.enums.map (·.name)).contains t.typename.name
  | none => false

def isGlobalEnum (t : CType) (c : Option IClass) : Bool :=
  match c with
  | some c => c.nsEnums.contains t.typename.name
  | none => false

def isEnum (t : CType) (c : Option IClass) : Bool := isClassEnum t c || isGlobalEnum t c

/-! ### `FormatMixin` -/

inductive FmtMode where | plain | ctor | method
deriving BEq

mutual
  /-- `_format_type_name` -/
  def fmtTypeName (tn : Typename) (sep : String := "::") (inclNs : Bool := true) (mode : FmtMode := .plain) : String :=
    match tn with
    | ⟨nss, name, is⟩ =>
      let nsPart := if inclNs then
          String.join (nss.map fun n => if !ignoreNamespace.contains name && n != "" then n ++ sep else "")
        else ""
      let base := match mode with
        | .ctor => (dataType.lookup name).getD name
        | .method => (dataTypeParam.lookup name).getD name
        | .plain => name
      if sep == "::" then
        let ts := fmtTypeNamesCpp is inclNs mode
        nsPart ++ base ++ (if ts.isEmpty then "" else "<" ++ joinWith "," ts ++ ">")
      else nsPart ++ base ++ fmtTypeNamesCat is sep mode
  def fmtTypeNamesCpp (is : List Typename) (inclNs : Bool) (mode : FmtMode) : List String :=
    match is with
    | [] => []
    | t :: r => fmtTypeName t "::" inclNs mode :: fmtTypeNamesCpp r inclNs mode
  def fmtTypeNamesCat (is : List Typename) (sep : String) (mode : FmtMode) : String :=
    match is with
    | [] => ""
    | t :: r => fmtTypeName t sep false mode ++ fmtTypeNamesCat r sep mode
end

/-- `_return_count` -/
def returnCount (r : RetType) : Nat := if r.type2.isNone then 1 else 2

/-- `_format_return_type` -/
def fmtReturnType (r : RetType) (inclNs : Bool := false) (sep : String := "::") : String :=
  match r.type2 with
  | none => fmtTypeName r.type1.typename sep inclNs
  | some t2 => "pair< " ++ fmtTypeName r.type1.typename sep inclNs ++ ", " ++ fmtTypeName t2.typename sep inclNs ++ " >"

/-- `"".join([sep + x for x in full_ns]) + sep` with the first `2*len(sep)` characters removed -/
def nsPrefix (fullNs : List String) (sep : String) : String :=
  ((String.join (fullNs.map fun x => sep ++ x) ++ sep).drop (2 * sep.length)).toString

/-- `_format_class_name` -/
def fmtClassName (c : IClass) (sep : String := "") : String := nsPrefix c.nsPath sep ++ c.name

/-! ### default-argument expansion and grouping -/

/-- one overload produced by `_expand_default_arguments`: explicit arguments and `args.backup` -/
structure Ovl (α : Type) where
  base : α
  args : List Arg
  backup : List Arg
deriving Repr, Inhabited

def clearLastDefault : List Arg → List Arg
  | [] => []
  | [a] => [{ a with default := none }]
  | a :: r => a :: clearLastDefault r

/-- explicit argument lists n, n-1, …; `none` = the assertion on non-trailing defaults fails -/
def expandArgs : Nat → List Arg → Option (List (List Arg))
  | 0, _ => none
  | n+1, as =>
    match as.getLast? with
    | some l =>
      if l.default.isSome then
        match expandArgs n as.dropLast with
        | some rest => some (clearLastDefault as :: rest)
        | none => none
      else if as.all (·.default.isNone) then some [as] else none
    | none => some [[]]

def expandDefaults (base : α) (args : List Arg) : Except Err (List (Ovl α)) :=
  match expandArgs (args.length + 1) args with
  | some ls => .ok (ls.map fun l => ⟨base, l, args⟩)
  | none => .error .validation

/-- `_group_methods`: groups by name in first-occurrence order, overloads concatenated -/
def groupBy (name : α → String) (args : α → List Arg) (ms : List α) : Except Err (List (String × List (Ovl α))) := do
  let rec ins (acc : List (String × List (Ovl α))) (n : String) (os : List (Ovl α)) : List (String × List (Ovl α)) :=
    match acc with
    | [] => [(n, os)]
    | (m, l) :: r => if m == n then (m, l ++ os) :: r else (m, l) :: ins r n os
  let rec go (acc : List (String × List (Ovl α))) : List α → Except Err (List (String × List (Ovl α)))
    | [] => .ok acc
    | m :: r => do
      let os ← expandDefaults m (args m)
      go (ins acc (name m) os) r
  go [] ms

/-- stable sort by name (Python `sorted(key=name)`) -/
def insertSorted (name : α → String) (x : α) : List α → List α
  | [] => [x]
  | y :: r => if name x < name y then x :: y :: r else y :: insertSorted name x r

def sortByName (name : α → String) (xs : List α) : List α :=
  xs.foldl (fun acc x => insertSorted name x acc) []

/-! ### argument formatting -/

/-- `_wrap_args` -/
def wrapArgs (as : List Arg) : String :=
  joinWith ", " (as.map fun a => fmtTypeName a.ctype.typename "::" false ++ " " ++ a.name)

def checkType (tn : Typename) (mode : FmtMode) : String :=
  match dataTypeParam.lookup tn.name with
  | some ct => (dataType.lookup ct).getD ct
  | none => fmtTypeName tn "." true mode

def sizeChecks (name : String) (i : Nat) : String :=
  let v := "varargin{" ++ toString i ++ "}"
  if name == "Vector" then " && size(" ++ v ++ ",2)==1"
  else if name == "Point2" then " && size(" ++ v ++ ",1)==2 && size(" ++ v ++ ",2)==1"
  else if name == "Point3" then " && size(" ++ v ++ ",1)==3 && size(" ++ v ++ ",2)==1"
  else ""

def isaChecks (as : List Arg) (mode : FmtMode) : String :=
  let rec go (i : Nat) : List Arg → String
    | [] => ""
    | a :: r =>
      " && isa(varargin{" ++ toString i ++ "},'" ++ checkType a.ctype.typename mode ++ "')"
        ++ sizeChecks a.ctype.typename.name i ++ go (i + 1) r
  go 1 as

/-- `_wrap_variable_arguments(args, wrap_datatypes)` -/
def wrapVariableArguments (as : List Arg) (wrapDatatypes : Bool) : String :=
  isaChecks as (if wrapDatatypes then .plain else .ctor)

/-- `_wrap_list_variable_arguments` -/
def wrapListVariableArguments (as : List Arg) : String :=
  joinWith ", " ((List.range as.length).map fun i => "varargin{" ++ toString (i + 1) ++ "}")

/-- `_wrap_method_check_statement` -/
def methodCheckStatement (as : List Arg) : String :=
  "if length(varargin) == " ++ toString as.length ++ isaChecks as .plain ++ "\n"

/-- `_format_varargout` -/
def fmtVarargout (r : RetType) (formatted : String) : String :=
  if returnCount r == 1 then (if formatted == "void" then "" else "varargout{1} = ")
  else "[ varargout{1} varargout{2} ] = "

end WrapModel.Matlab
