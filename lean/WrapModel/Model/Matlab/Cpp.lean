/-
  MATLAB generator, part 3: the MEX source `<module>_wrapper.cpp`
  (`generate_collector_function`, `mex_function`, `generate_preamble`, `generate_wrapper`)
  and the file tree (`generate_content`).
-/
import WrapModel.Model.Matlab.MFiles
import WrapModel.Model.Pybind

namespace WrapModel.Matlab
open WrapModel WrapModel.Inst

def fmtE (tpl : String) (env : List (String × String)) : Except Err String :=
  Pybind.pyFormat env (tpl.length + 1) tpl.toList

/-! ### argument unwrapping -/

/-- `_unwrap_argument` → (arg_type, unwrap) -/
def unwrapArgument (t : CType) (argId : Nat) (cls : Option IClass) : String × String :=
  let tn := t.typename
  let camel := fmtTypeName tn ""
  let sep := fmtTypeName tn
  let id := toString argId
  if cls.isSome && isEnum t cls then
    let e := tnToCpp tn
    (e, "unwrap_enum<" ++ e ++ ">(in[" ++ id ++ "]);")
  else if isRef t then
    (sep ++ "&", "*unwrap_shared_ptr< " ++ sep ++ " >(in[" ++ id ++ "], \"ptr_" ++ camel ++ "\");")
  else if isPtr t && !ignoreNamespace.contains tn.name then
    (sep ++ "*", "unwrap_ptr< " ++ sep ++ " >(in[" ++ id ++ "], \"ptr_" ++ camel ++ "\");")
  else if (isSharedPtr t || canBePointer t) && !ignoreNamespace.contains tn.name then
    ("std::shared_ptr<" ++ sep ++ ">", "unwrap_shared_ptr< " ++ sep ++ " >(in[" ++ id ++ "], \"ptr_" ++ camel ++ "\");")
  else
    (tn.name, "unwrap< " ++ tn.name ++ " >(in[" ++ id ++ "]);")

/-- `_wrapper_unwrap_arguments` → (params, body_args) -/
def unwrapArguments (args backup : List Arg) (argId : Nat) (cls : Option IClass) : String × String :=
  let rec body (i : Nat) : List Arg → String
    | [] => ""
    | a :: r =>
      let (ty, uw) := unwrapArgument a.ctype i cls
      "  " ++ ty ++ " " ++ a.name ++ " = " ++ uw ++ "\n" ++ body (i + 1) r
  let explicit := args.map (·.name)
  let params := joinWith "," (backup.map fun a =>
    if a.default.isSome && !explicit.contains a.name then a.default.getD ""
    else
      let t := a.ctype
      let star := !isRef t && (isSharedPtr t || isPtr t || canBePointer t) && !isEnum t cls
        && !ignoreNamespace.contains t.typename.name && t.quals.suffix != .shared && t.quals.suffix != .raw
      (if star then "*" else "") ++ a.name)
  (params, body argId args)

/-! ### return wrapping -/

def sharedReturn (tn : Typename) (sharedObj : String) (id : Nat) (newLine : Bool) : Except Err String :=
  fmtE Gen.Matlab.tpl_collector_function_shared_return
    [("name", fmtTypeName tn "::" false), ("shared_obj", sharedObj), ("id", toString id),
     ("new_line", if newLine then "\n" else "")]

/-- `wrap_collector_function_return_types` -/
def returnTypes (t : CType) (id : Nat) : Except Err String := do
  let pv := if id == 0 then "first" else "second"
  let nl := if id == 0 then "\n" else ""
  let head := "  out[" ++ toString id ++ "] = "
  if isSharedPtr t || isPtr t || canBePointer t then
    let so := if isSharedPtr t || isPtr t then "pairResult." ++ pv
      else "std::make_shared<" ++ fmtTypeName t.typename ++ ">(pairResult." ++ pv ++ ")"
    if ignoreNamespace.contains t.typename.name then sharedReturn t.typename so id (id == 0)
    else pure (head ++ "wrap_shared_ptr(" ++ so ++ ",\"" ++ fmtTypeName t.typename "." ++ "\", false);" ++ nl)
  else pure (head ++ "wrap< " ++ fmtTypeName t.typename "." ++ " >(pairResult." ++ pv ++ ");" ++ nl)

/-- `_collector_return` -/
def collectorReturn (obj : String) (t : CType) (cls : Option IClass) : Except Err String := do
  let name := t.typename.name
  match cls with
  | some c =>
    if isEnum t cls then
      let cn := if isClassEnum t cls then joinWith "." (c.nsPath.drop 1 ++ [c.name]) else joinWith "." (c.nsPath.drop 1)
      let cn := if cn.isEmpty then cn else cn ++ "."
      return "  out[0] = wrap_enum(" ++ obj ++ ",\"" ++ cn ++ name ++ "\");"
  | none => pure ()
  if isSharedPtr t || isPtr t || canBePointer t then
    let pre ← (if ignoreNamespace.contains name then sharedReturn t.typename obj 0 false else pure "" : Except Err String)
    let sharedObj :=
      if isSharedPtr t || isPtr t then obj ++ ",\"" ++ fmtTypeName t.typename "." ++ "\""
      else
        let isOptional := match t with
          | .templ .. => ((tnToCpp t.typename).take 13).toString == "std::optional"
          | _ => false
        let (obj', dot) := match isOptional, t with
          | true, .templ _ _ (p :: _) _ => ("*" ++ obj, joinWith "." p.typename.namespaces ++ "." ++ p.typename.name)
          | _, _ => (obj, fmtTypeName t.typename ".")
        "std::make_shared<" ++ fmtTypeName t.typename ++ ">(" ++ obj' ++ "),\"" ++ dot ++ "\""
    pure (pre ++ (if ignoreNamespace.contains name then "" else "  out[0] = wrap_shared_ptr(" ++ sharedObj ++ ", false);"))
  else pure ("  out[0] = wrap< " ++ name ++ " >(" ++ obj ++ ");")

inductive Callable where
  | meth (o : Ovl IMethod) (clsCpp : String)
  | func (o : Ovl IFunc)

/-- `wrap_collector_function_return` -/
def functionReturn (k : Callable) (cls : Option IClass) : Except Err String := do
  let (args, backup, ret, objStart, mname) := match k with
    | .meth o clsCpp =>
      if o.base.isStatic then (o.args, o.backup, o.base.ret, "", clsCpp ++ "::" ++ o.base.origName)
      else (o.args, o.backup, o.base.ret, "obj->", o.base.toCpp)
    | .func o => (o.args, o.backup, o.base.ret, "", nsPrefix o.base.nsPath "::" ++ o.base.name)
  let params := (unwrapArguments args backup 1 cls).1
  let r1 := ret.type1
  let isV := r1.typename.name == "void"
  let obj := (if isV then "  " else "") ++ objStart ++ mname ++ "(" ++ params ++ ")"
  if isV then pure (obj ++ ";")
  else match ret.type2 with
    | none => collectorReturn obj r1 cls
    | some r2 => do
      let a ← returnTypes r1 0
      let b ← returnTypes r2 1
      pure ("  auto pairResult = " ++ obj ++ ";\n" ++ a ++ b)

/-! ### collector functions -/

def mapJoin (xs : List α) (f : α → Except Err String) : Except Err String :=
  match xs with
  | [] => .ok ""
  | x :: r => do let a ← f x; let b ← mapJoin r f; pure (a ++ b)


def sharedBaseBlock (parent : Typename) (outIdx : String) : String :=
  "\n  typedef std::shared_ptr<" ++ tnToCpp parent ++ "> SharedBase;\n"
  ++ "  out[" ++ outIdx ++ "] = mxCreateNumericMatrix(1, 1, mxUINT32OR64_CLASS, mxREAL);\n"
  ++ "  *reinterpret_cast<SharedBase**>(mxGetData(out[" ++ outIdx ++ "])) = new SharedBase(*self);\n"

/-- `generate_collector_function` for an existing map entry -/
def collectorFunction (useBoost : Bool) (en : Entry) : Except Err String := do
  let e := en.payload
  let head := "void " ++ entryName en ++ "(int nargout, mxArray *out[], int nargin, const mxArray *in[])\n"
  match e.target with
  | .func o =>
    let body := "{\n  checkArguments(\"" ++ o.base.name ++ "\",nargout,nargin," ++ toString o.args.length ++ ");\n"
      ++ (unwrapArguments o.args o.backup 0 none).2
    let r ← functionReturn (.func o) none
    pure (head ++ body ++ r ++ "\n}\n")
  | .cls c =>
    let cn := e.ns ++ c.name
    let sep := c.toCpp
    let mut body := "{\n"
    let isSer := match e.extra with | .serialize | .deserialize => true | _ => false
    if e.kind == "collectorInsertAndMakeBase" then
      body := body ++ "  mexAtExit(&_deleteAllObjects);\n  typedef std::shared_ptr<" ++ sep ++ "> Shared;\n\n"
        ++ "  Shared *self = *reinterpret_cast<Shared**> (mxGetData(in[0]));\n  collector_" ++ cn ++ ".insert(self);\n"
        ++ (match c.parentClass with | some p => sharedBaseBlock p "0" | none => "")
    else if e.kind == "constructor" then
      let (args, backup) := match e.extra with
        | .ctor o => (o.args, o.backup)
        | .meth o => (o.args, o.backup)
        | _ => ([], [])
      let (params, bodyArgs) := unwrapArguments args backup 0 (some c)
      body := body ++ "  mexAtExit(&_deleteAllObjects);\n  typedef std::shared_ptr<" ++ sep ++ "> Shared;\n\n"
        ++ bodyArgs ++ "  Shared *self = new Shared(new " ++ sep ++ "(" ++ params ++ "));\n"
        ++ "  collector_" ++ cn ++ ".insert(self);\n"
        ++ "  out[0] = mxCreateNumericMatrix(1, 1, mxUINT32OR64_CLASS, mxREAL);\n"
        ++ "  *reinterpret_cast<Shared**> (mxGetData(out[0])) = self;\n"
        ++ (match c.parentClass with | some p => sharedBaseBlock p "1" | none => "")
    else if e.kind == "deconstructor" then
      body := body ++ "  typedef std::shared_ptr<" ++ sep ++ "> Shared;\n"
        ++ "  checkArguments(\"delete_" ++ cn ++ "\",nargout,nargin,1);\n"
        ++ "  Shared *self = *reinterpret_cast<Shared**>(mxGetData(in[0]));\n"
        ++ "  Collector_" ++ cn ++ "::iterator item;\n"
        ++ "  item = collector_" ++ cn ++ ".find(self);\n"
        ++ "  if(item != collector_" ++ cn ++ ".end()) {\n"
        ++ "    collector_" ++ cn ++ ".erase(item);\n  }\n  delete self;\n"
    else
      match e.extra with
      | .serialize =>
        if useBoost then
          body := body ++ (← fmtE Gen.Matlab.tpl_collector_function_serialize
            [("class_name", c.name), ("full_name", sep), ("namespace", e.ns)])
      | .deserialize =>
        if useBoost then
          body := body ++ (← fmtE Gen.Matlab.tpl_collector_function_deserialize
            [("class_name", c.name), ("full_name", sep), ("namespace", e.ns)])
      | .meth o =>
        let isMethod := !o.base.isStatic
        let mname := (if isMethod then "" else sep ++ ".") ++ o.base.name
        let bodyArgs := (unwrapArguments o.args o.backup (if isMethod then 1 else 0) (some c)).2
        let rb ← functionReturn (.meth o sep) (some c)
        let so := if isMethod then "  auto obj = unwrap_shared_ptr<" ++ sep ++ ">(in[0], \"ptr_" ++ cn ++ "\");\n" else ""
        body := body ++ "  checkArguments(\"" ++ mname ++ "\",nargout,nargin" ++ (if isMethod then "-1" else "") ++ ","
          ++ toString o.args.length ++ ");\n" ++ so ++ bodyArgs ++ rb ++ "\n"
      | .prop v =>
        let so := "  auto obj = unwrap_shared_ptr<" ++ sep ++ ">(in[0], \"ptr_" ++ cn ++ "\");\n"
        let (pty, uw) := unwrapArgument v.ctype 1 (some c)
        let unpack := "  " ++ pty ++ " " ++ v.name ++ " = " ++ uw ++ "\n"
        if pyIn "_get_" (entryName en) then
          let rb ← collectorReturn ("obj->" ++ v.name) v.ctype (some c)
          body := body ++ "  checkArguments(\"" ++ v.name ++ "\",nargout,nargin-1,0);\n" ++ so ++ rb ++ "\n"
        if pyIn "_set_" (entryName en) then
          let isPtrType := canBePointer v.ctype && !isEnum v.ctype (some c)
          body := body ++ "  checkArguments(\"" ++ v.name ++ "\",nargout,nargin-1,1);\n" ++ so ++ unpack
            ++ "  obj->" ++ v.name ++ " = " ++ (if isPtrType then "*" else "") ++ v.name ++ ";\n"
      | _ => pure ()
    body := body ++ "}\n" ++ (if isSer then "" else "\n")
    pure (head ++ body)

def className (e : Entry) : String := match e.payload.target with | .cls c => c.name | .func o => o.base.name
def classCpp (e : Entry) : String := match e.payload.target with | .cls c => c.toCpp | .func o => o.base.toCpp

/-- the routine a `case` calls -/
def calleeName (id : Nat) (role : Ids.Role) (e : Entry) : String :=
  match role with
  | .routine => entryName e
  | .upcast => className e ++ "_upcastFromVoid_" ++ toString id

/-- `mex_function`: the `case` lines -/
def mexCases (st : Ids.IdState EntryP) : String :=
  String.join ((Ids.caseTable st.entries st.next (st.next + 1) 0 none).map fun (id, role, e) =>
    "    case " ++ toString id ++ ":\n      " ++ calleeName id role e ++ "(nargout, out, nargin-1, in+1);\n      break;\n")

/-- the routines of `generate_wrapper` (`ptr_ctor_frag`), in the order of the same walk: an entry's routine is
    emitted when the walk reaches the id it is stored under, its up-cast routine right after it -/
def routines (useBoost : Bool) (st : Ids.IdState EntryP) : Except Err String :=
  mapJoin ((Ids.caseTable st.entries st.next (st.next + 1) 0 none)) fun (id, role, e) =>
    match role with
    | .routine => if e.key == id then collectorFunction useBoost e else pure ""
    | .upcast => do
      let f ← collectorFunction useBoost e
      let up ← fmtE Gen.Matlab.tpl_collector_function_upcast_from_void
        [("class_name", className e), ("cpp_name", classCpp e), ("id", toString id)]
      pure (f ++ up)

def hasSerialization (c : IClass) : Bool := c.methods.any fun m => whitelist.contains m.name

/-- `generate_preamble` -/
def preamble (cfg : MCfg) (classes : List IClass) : Except Err (String × String × String × String × String) := do
  let mut deleteObjs := ""
  let mut typedefs : List String := []
  let mut boostGuid := ""
  let mut collectors := ""
  let mut rtti := ""
  for c in classes do
    if cfg.ignore.contains (joinWith "::" (c.nsPath.drop 1 ++ [c.name])) then
      continue
    let cn := fmtClassName c
    let sep := if c.insts.isEmpty then c.toCpp else c.name
    if !c.insts.isEmpty then
      typedefs := typedefs ++ ["typedef " ++ c.toCpp ++ " " ++ c.name ++ ";"]
    if cfg.useBoost && hasSerialization c then
      boostGuid := boostGuid ++ "BOOST_CLASS_EXPORT_GUID(" ++ sep ++ ", \"" ++ cn ++ "\");\n"
    collectors := collectors ++ (← fmtE Gen.Matlab.tpl_typdef_collectors [("class_name_sep", sep), ("class_name", cn)])
    deleteObjs := deleteObjs ++ (← fmtE Gen.Matlab.tpl_delete_obj [("class_name", cn)])
    if c.isVirtual then
      rtti := rtti ++ "    types.insert(std::make_pair(typeid(" ++ sep ++ ").name(), \"" ++ cn ++ "\"));\n"
  let delAll ← fmtE Gen.Matlab.tpl_delete_all_objects [("delete_objs", deleteObjs)]
  let reg ← fmtE Gen.Matlab.tpl_rtti_register [("module_name", cfg.moduleName), ("rtti_classes", rtti)]
  pure (joinWith "\n" typedefs, boostGuid, collectors, delAll, reg)

def stripStr (s : String) : String := s.trimAscii.toString

/-- `generate_wrapper`: the text of `<module>_wrapper.cpp` -/
def wrapperFile (cfg : MCfg) (st : St) : Except Err String := do
  let incs := sortByName id st.includes
  let includes := stripStr Gen.Matlab.wrapperFileHeaders ++ "\n"
    ++ (if cfg.useBoost then Gen.Matlab.tpl_boost_headers else "") ++ "\n"
    ++ joinWith "\n" (incs.map fun h => "#include <" ++ h ++ ">") ++ "\n"
  let (tdefs, guid, colls, delAll, reg) ← preamble cfg st.classes
  let frag ← routines cfg.useBoost st.ids
  let mex ← fmtE Gen.Matlab.tpl_mex_function [("module_name", cfg.moduleName), ("cases", mexCases st.ids)]
  pure (includes ++ "\n" ++ tdefs ++ "\n" ++ guid ++ "\n" ++ colls ++ "\n" ++ delAll ++ "\n" ++ reg ++ "\n" ++ frag ++ mex)

/-! ### `generate_content`: writes in order, later writes win -/

def joinPath (a b : String) : String :=
  if a.isEmpty then b else if b.isEmpty then a ++ "/" else if b.startsWith "/" then b else a ++ "/" ++ b

def flatten (c : Content) : List (String × String) :=
  match c with
  | .file n t => [(n, t)]
  | .folder d fs => fs.map fun (n, t) => (joinPath d n, t)
  | .scope [] => []
  | .scope ((d0, fs0) :: rest) =>
    (((d0, fs0) :: rest).flatMap fun (_, fs) => fs.map fun (n, t) => (joinPath d0 n, t))

/-- final file tree: path ↦ content, in first-write order with last-write content -/
def fileTree (writes : List (String × String)) : List (String × String) :=
  let rec go (acc : List (String × String)) : List (String × String) → List (String × String)
    | [] => acc
    | (p, t) :: r =>
      if acc.any (·.1 == p) then go (acc.map fun (q, u) => if q == p then (q, t) else (q, u)) r
      else go (acc ++ [(p, t)]) r
  go [] writes

/-- the model of `MatlabWrapper(...).wrap(files, path)` on an instantiated module -/
def wrapModule (cfg : MCfg) (im : List IDecl) : Except Err (List (String × String)) := do
  let depth := 64
  let ((), st) ← (wrapNamespace cfg depth "" [""] im true Gen.Matlab.wrapperFileHeaders).run {}
  let cpp ← wrapperFile cfg st
  let all := st.content ++ [Content.file (cfg.wrapper ++ ".cpp") cpp]
  pure (fileTree (all.flatMap flatten))

end WrapModel.Matlab
