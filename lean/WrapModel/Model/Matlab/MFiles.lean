/-
  MATLAB generator, part 2: the id allocator (`_update_wrapper_id`), the `.m` files
  (`wrap_instantiated_class`, `wrap_enum`, `wrap_global_function`) and `wrap_namespace`.
-/
import WrapModel.Model.Matlab.Base
import WrapModel.Model.Matlab.Ids

namespace WrapModel.Matlab
open WrapModel WrapModel.Inst

inductive Extra where
  | none
  | ctor (o : Ovl ICtor)
  | meth (o : Ovl IMethod)
  | prop (v : VarDecl)
  | serialize
  | deserialize
deriving Inhabited

inductive Target where
  | cls (c : IClass)
  | func (o : Ovl IFunc)
deriving Inhabited

/-- the payload of one `wrapper_map` value (the id part lives in `Ids.IdEntry`) -/
structure EntryP where
  ns : String
  target : Target
  kind : String
  base : String      -- routine name without the `_<id>` suffix
  extra : Extra
deriving Inhabited

abbrev Entry := Ids.IdEntry EntryP

/-- `function_name + '_' + str(id + id_diff)` -/
def entryName (e : Entry) : String := e.payload.base ++ "_" ++ toString e.shown

/-- elements of `self.content` -/
inductive Content where
  | file (name text : String)
  | folder (dir : String) (files : List (String × String))
  | scope (entries : List (String × List (String × String)))
deriving Inhabited

structure St where
  ids : Ids.IdState EntryP := {}
  includes : List String := []
  classes : List IClass := []
  content : List Content := []

abbrev M := StateT St (Except Err)

structure MCfg where
  moduleName : String
  ignore : List String
  useBoost : Bool

def MCfg.wrapper (cfg : MCfg) : String := cfg.moduleName ++ "_wrapper"

def mkPayload (ns : String) (target : Target) (kind : String) (extra : Extra) (fname : Option String) : EntryP :=
  let base := match fname with
    | some f => f
    | none => match target with
      | .cls c => ns ++ c.name ++ "_" ++ kind
      | .func o => o.base.name
  ⟨ns, target, kind, base, extra⟩

/-- `_update_wrapper_id(collector_function, function_name=…)` -/
def allocId (ns : String) (target : Target) (kind : String) (extra : Extra) (fname : Option String := none) : M Nat := do
  let s ← get
  let (ids, id) := s.ids.alloc (mkPayload ns target kind extra fname)
  set { s with ids := ids }
  pure id

/-- virtual classes: `_update_wrapper_id()` then `_update_wrapper_id(collector_function, id_diff=-1)`;
    returns the reserved id `k` (the collector routine is called as `k`, the up-cast as `k + 1`) -/
def allocVirtualId (ns : String) (target : Target) (kind : String) (extra : Extra) : M Nat := do
  let s ← get
  let (ids, k) := s.ids.allocVirtual (mkPayload ns target kind extra none)
  set { s with ids := ids }
  pure k

def liftE (e : Except Err α) : M α := fun s => match e with | .ok a => .ok (a, s) | .error x => .error x

/-! ### class comment -/

def methodReturnDoc (r : RetType) : String :=
  match r.type2 with
  | none => fmtTypeName r.type1.typename
  | some t2 => "pair< " ++ fmtTypeName r.type1.typename ++ ", " ++ fmtTypeName t2.typename ++ " >"

def classSerializeComment (className : String) (statics : List IMethod) : String :=
  let ss := sortByName (·.name) statics
  (if ss.isEmpty then "" else "%-------Static Methods-------\n")
  ++ String.join (ss.map fun m => "%" ++ m.name ++ "(" ++ wrapArgs m.args ++ ") : returns " ++ fmtReturnType m.ret true ++ "\n")
  ++ "%\n%-------Serialization Interface-------\n%string_serialize() : returns string\n"
  ++ "%string_deserialize(string serialized) : returns " ++ className ++ "\n%\n"

def classComment (c : IClass) : String :=
  "%class " ++ c.name ++ ", see Doxygen page for details\n%at https://gtsam.org/doxygen/\n"
  ++ (if c.ctors.isEmpty then "" else "%\n%-------Constructors-------\n")
  ++ String.join (c.ctors.map fun k => "%" ++ k.name ++ "(" ++ wrapArgs k.args ++ ")\n")
  ++ (if c.props.isEmpty then "" else "%\n%-------Properties-------\n" ++ String.join (c.props.map fun p => "%" ++ p.name ++ "\n"))
  ++ (if c.methods.isEmpty then "" else "%\n%-------Methods-------\n")
  ++ String.join ((sortByName (·.name) c.methods).map fun m =>
      if whitelist.contains m.name || ignoreMethods.contains m.name then ""
      else "%" ++ m.name ++ "(" ++ wrapArgs m.args ++ ") : returns " ++ methodReturnDoc m.ret ++ "\n")
  ++ "%\n"
  ++ (if c.statics.isEmpty then "" else classSerializeComment c.name c.statics)

/-! ### classdef pieces -/

def magic : String := "uint64(5139824614673773682)"

/-- `wrap_class_constructors` -/
def wrapClassConstructors (cfg : MCfg) (ns : String) (c : IClass) : M String := do
  let hasParent := c.parentClass.isSome
  let parentName := match c.parentClass with | some p => fmtTypeName p "." | none => ""
  let ctors ← liftE (flatMapM' (fun k => expandDefaults k k.args) c.ctors)
  let head := "methods\n  function obj = " ++ c.name ++ "(varargin)\n"
    ++ (if c.isVirtual then "    if (nargin == 2 || (nargin == 3 && strcmp(varargin{3}, 'void')))" else "    if nargin == 2")
    ++ " && isa(varargin{1}, 'uint64') && varargin{1} == " ++ magic ++ "\n"
  let (ptrPart, collectId) ← (do
    if c.isVirtual then
      let k ← allocVirtualId ns (.cls c) "collectorInsertAndMakeBase" .none
      pure (indentText "      " ("if nargin == 2\n  my_ptr = varargin{2};\nelse\n  my_ptr = " ++ cfg.wrapper ++ "("
        ++ toString (k + 1) ++ ", varargin{2});\nend\n"), k)
    else
      let cb ← allocId ns (.cls c) "collectorInsertAndMakeBase" .none
      pure ("      my_ptr = varargin{2};\n", cb) : M (String × Nat))
  let collect := "      " ++ (if hasParent then "base_ptr = " else "") ++ cfg.wrapper ++ "("
    ++ toString collectId ++ ", my_ptr);\n"
  let mut body := head ++ ptrPart ++ collect
  for o in ctors do
    let num ← allocId ns (.cls c) "constructor" (.ctor o)
    body := body ++ indentText "    " ("elseif nargin == " ++ toString o.args.length ++ wrapVariableArguments o.args false ++ "\n  "
      ++ (if hasParent then "[ my_ptr, base_ptr ] = " else "my_ptr = ") ++ cfg.wrapper ++ "(" ++ toString num
      ++ (if o.args.isEmpty then "" else ", ") ++ wrapListVariableArguments o.args ++ ");\n")
  let baseObj := if hasParent then "\n  obj = obj@" ++ parentName ++ "(" ++ magic ++ ", base_ptr);" else ""
  pure (body ++ indentText "  " ("  else\n    error('Arguments do not match any overload of " ++ fmtClassName c "."
    ++ " constructor');\n  end" ++ baseObj ++ "\n  obj.ptr_" ++ fmtClassName c "" ++ " = my_ptr;\nend\n\n"))

def wrapPropertiesBlock (className : String) (c : IClass) : String :=
  "properties\n  ptr_" ++ className ++ " = 0"
  ++ String.join (c.props.map fun p => "\n  " ++ p.name) ++ "\nend\n"

def wrapClassDeconstructor (cfg : MCfg) (ns : String) (c : IClass) : M String := do
  let num ← allocId ns (.cls c) "deconstructor" .none
  pure (indentText "  " ("function delete(obj)\n  " ++ cfg.wrapper ++ "(" ++ toString num ++ ", obj.ptr_"
    ++ String.join c.nsPath ++ c.name ++ ");\nend\n\n"))

def wrapClassDisplay : String :=
  "  function display(obj), obj.print(''); end\n  %DISPLAY Calls print on the object\n"
  ++ "  function disp(obj), obj.display; end\n  %DISP Calls print on the object\n"

def classSerializeMethod (cfg : MCfg) (ns : String) (c : IClass) : M String := do
  let id ← allocId ns (.cls c) "string_serialize" .serialize
  let cn := ns ++ "." ++ c.name
  pure ("function varargout = string_serialize(this, varargin)\n"
    ++ "  % STRING_SERIALIZE usage: string_serialize() : returns string\n"
    ++ "  % Doxygen can be found at https://gtsam.org/doxygen/\n"
    ++ "  if length(varargin) == 0\n"
    ++ "    varargout{1} = " ++ cfg.wrapper ++ "(" ++ toString id ++ ", this, varargin{:});\n"
    ++ "  else\n"
    ++ "    error('Arguments do not match any overload of function " ++ cn ++ ".string_serialize');\n"
    ++ "  end\nend\n\n"
    ++ "function sobj = saveobj(obj)\n"
    ++ "  % SAVEOBJ Saves the object to a matlab-readable format\n"
    ++ "  sobj = obj.string_serialize();\nend\n")

/-- `wrap_class_methods`; returns the text and whether `serialize` was wrapped -/
def wrapClassMethods (cfg : MCfg) (ns : String) (c : IClass) (methods : List IMethod) : M (String × Bool) := do
  let groups ← liftE (groupBy (·.name) (·.args) methods)
  let mut text := ""
  let mut ser := false
  for (name, ovls) in groups do
    if (whitelist.contains name && name != "serialize") || ignoreMethods.contains name then
      continue
    if name == "serialize" then
      if cfg.useBoost then
        ser := true
        text := text ++ (← classSerializeMethod cfg ns c)
    else
      text := text ++ "function varargout = " ++ name ++ "(this, varargin)\n"
      let className := ns ++ (if ns.isEmpty then "" else ".") ++ c.name
      for o in ovls do
        let rt := fmtReturnType o.base.ret true "."
        let num ← allocId ns (.cls c) o.base.origName (.meth o)
        text := text ++ "  % " ++ upperStr name ++ " usage: " ++ name ++ "(" ++ wrapArgs o.args ++ ") : returns " ++ rt ++ "\n"
          ++ "  % Doxygen can be found at https://gtsam.org/doxygen/\n"
          ++ "  " ++ methodCheckStatement o.args ++ "    " ++ fmtVarargout o.base.ret rt ++ cfg.wrapper ++ "("
          ++ toString num ++ ", this, varargin{:});\n" ++ "    return\n  end\n"
      text := text ++ "  error('Arguments do not match any overload of function " ++ className ++ "." ++ name ++ "');\n"
        ++ "end\n\n"
  pure (text, ser)

/-- `wrap_class_properties`, already dedented and indented by 4 -/
def wrapClassProperties (cfg : MCfg) (ns : String) (c : IClass) : M String := do
  let mut text := ""
  for p in c.props do
    let g ← allocId ns (.cls c) p.name (.prop p) (fname := some (ns ++ c.name ++ "_get_" ++ p.name))
    let s ← allocId ns (.cls c) p.name (.prop p) (fname := some (ns ++ c.name ++ "_set_" ++ p.name))
    text := text ++ "\n    function varargout = get." ++ p.name ++ "(this)\n"
      ++ "        varargout{1} = " ++ cfg.wrapper ++ "(" ++ toString g ++ ", this);\n"
      ++ "        this." ++ p.name ++ " = varargout{1};\n    end\n"
      ++ "\n    function set." ++ p.name ++ "(this, value)\n"
      ++ "        obj." ++ p.name ++ " = value;\n"
      ++ "        " ++ cfg.wrapper ++ "(" ++ toString s ++ ", this, value);\n    end\n"
  pure text

/-- `wrap_static_methods` -/
def wrapStaticMethods (cfg : MCfg) (ns : String) (c : IClass) (serialize : Bool) : M String := do
  let groups ← liftE (groupBy (·.name) (·.args) (sortByName (·.name) c.statics))
  let mut text := "methods(Static = true)\n"
  for (name, ovls) in groups do
    if ignoreMethods.contains name then
      continue
    text := text ++ "  function varargout = " ++ name ++ "(varargin)\n"
    for o in ovls do
      let id ← allocId ns (.cls c) o.base.name (.meth o)
      text := text ++ indentText "    " ("% " ++ upperStr o.base.name ++ " usage: " ++ o.base.name ++ "(" ++ wrapArgs o.args
        ++ ") : returns " ++ fmtReturnType o.base.ret true "." ++ "\n"
        ++ "% Doxygen can be found at https://gtsam.org/doxygen/\n"
        ++ methodCheckStatement o.args ++ "  varargout{1} = " ++ cfg.wrapper ++ "(" ++ toString id ++ ", varargin{:});"
        ++ "\n  return\nend\n" ++ "\n")
    text := text ++ "    error('Arguments do not match any overload of function " ++ c.name ++ "." ++ name ++ "');\n"
      ++ "  end\n\n"
  if serialize && cfg.useBoost then
    let id ← allocId ns (.cls c) "string_deserialize" .deserialize
    let cn := ns ++ "." ++ c.name
    text := text ++ "  function varargout = string_deserialize(varargin)\n"
      ++ "    % STRING_DESERIALIZE usage: string_deserialize() : returns " ++ cn ++ "\n"
      ++ "    % Doxygen can be found at https://gtsam.org/doxygen/\n"
      ++ "    if length(varargin) == 1\n"
      ++ "      varargout{1} = " ++ cfg.wrapper ++ "(" ++ toString id ++ ", varargin{:});\n"
      ++ "    else\n"
      ++ "      error('Arguments do not match any overload of function " ++ cn ++ ".string_deserialize');\n"
      ++ "    end\n  end\n\n"
      ++ "  function obj = loadobj(sobj)\n"
      ++ "    % LOADOBJ Saves the object to a matlab-readable format\n"
      ++ "    obj = " ++ cn ++ ".string_deserialize(sobj);\n  end\n"
  pure text

/-- `wrap_enum` -/
def wrapEnum (e : EnumDecl) : String × String :=
  let rec go (i : Nat) : List String → List String
    | [] => []
    | x :: r => (x ++ "(" ++ toString i ++ ")") :: go (i + 1) r
  (e.name ++ ".m", "classdef " ++ e.name ++ " < uint32\n    enumeration\n        "
    ++ joinWith "\n        " (go 0 e.enumerators) ++ "\n    end\nend\n")

def pushContent (x : Content) : M Unit := modify fun s => { s with content := s.content ++ [x] }

/-- `wrap_instantiated_class`; `none` when the class is ignored -/
def wrapInstantiatedClass (cfg : MCfg) (c : IClass) (ns : String) : M (Option (String × String)) := do
  let fileName := c.name
  let key := joinWith "::" (c.nsPath.drop 1 ++ [c.name])
  if cfg.ignore.contains key then return none
  let mut text := classComment c
  -- `wrap_methods(instantiated_class.methods)`: only the default-argument expansion can fail
  let _ ← liftE (groupBy (·.name) (·.args) c.methods)
  let parent := match c.parentClass with | some p => pyReplace (tnToCpp p) "::" "." | none => "handle"
  text := text ++ "classdef " ++ fileName ++ " < " ++ parent ++ "\n"
  text := text ++ reindent "  " (wrapPropertiesBlock (ns ++ fileName) c)
  text := text ++ reindent "  " (← wrapClassConstructors cfg ns c)
  text := text ++ reindent "  " (← wrapClassDeconstructor cfg ns c)
  text := text ++ reindent "  " wrapClassDisplay
  let mut ser := false
  if !c.methods.isEmpty then
    let (mt, s) ← wrapClassMethods cfg ns c (sortByName (·.name) c.methods)
    ser := s
    if !(splitLines mt).isEmpty then
      text := text ++ reindent "    " mt
  if !c.props.isEmpty then
    text := text ++ (← wrapClassProperties cfg ns c)
  text := text ++ "  end"
  text := text ++ "\n\n" ++ reindent "  " (← wrapStaticMethods cfg ns c ser) ++ "  end\n" ++ "end\n"
  for e in c.enums do
    let sub := String.join ((c.nsPath.drop 1).map fun x => "+" ++ x ++ "/") ++ "+" ++ c.name   -- one folder per namespace
    pushContent (.folder sub [wrapEnum e])
  pure (some (fileName ++ ".m", text))

/-- `wrap_global_function` for one group of overloads -/
def wrapGlobalFunction (cfg : MCfg) (nsName : String) (name : String) (ovls : List (Ovl IFunc)) : M String := do
  let mut pw := ""
  let mut first := true
  for o in ovls do
    pw := pw ++ (if first then "      if" else "      elseif") ++ " length(varargin) == "
      ++ (if o.args.isEmpty then "0\n" else toString o.args.length ++ wrapVariableArguments o.args false ++ "\n")
    first := false
    let rt := fmtReturnType o.base.ret true "."
    let num ← allocId nsName (.func o) "global_function" .none
    pw := pw ++ "        " ++ fmtVarargout o.base.ret rt ++ cfg.moduleName ++ "_wrapper(" ++ toString num ++ ", varargin{:});\n"
  pw := pw ++ "      else\n        error('Arguments do not match any overload of function " ++ name ++ "');\n      end"
  pure ("function varargout = " ++ name ++ "(varargin)\n" ++ pw ++ "\nend\n")

def packagePath (fullNs : List String) : String :=
  (String.join ((fullNs.drop 1).map fun x => "+" ++ x ++ "/")).dropEnd 1 |>.toString

/-- `wrap_namespace` for the namespace `name` with `full_namespaces() = p` -/
def wrapNamespace (cfg : MCfg) (fuel : Nat) (name : String) (p : List String) (content : List IDecl) (addMex : Bool)
    (headers : String) : M Unit :=
  match fuel with
  | 0 => liftE (.error .fuel)
  | fuel+1 => do
    let inner := !name.isEmpty
    let mut top : List Content := []
    let mut scope : List (String × List (String × String)) := []
    for d in content do
      match d with
      | .incl h => modify fun s => { s with includes := s.includes ++ [h] }
      | .ns n c => wrapNamespace cfg fuel n (p ++ [n]) c false headers
      | .enum e =>
        let (f, t) := wrapEnum e
        if inner then scope := scope ++ [(packagePath p, [(f, t)])] else top := top ++ [.file f t]
      | .cls c =>
        modify fun s => { s with classes := s.classes ++ [c] }
        if inner then
          match ← wrapInstantiatedClass cfg c (String.join p) with
          | some (f, t) => scope := scope ++ [(packagePath p, [(f, t)])]
          | none => pure ()
        else
          match ← wrapInstantiatedClass cfg c "" with
          | some (f, t) => top := top ++ [.file f t]
          | none => pure ()
      | _ => pure ()
    modify fun s => { s with content := s.content ++ top }
    if inner then pushContent (.scope scope)
    if addMex then pushContent (.file (cfg.wrapper ++ ".cpp") headers)
    let funcs := content.filterMap fun d => match d with | .func f => some f | _ => none
    let groups ← liftE (groupBy (·.name) (·.args) funcs)
    for (n, ovls) in groups do
      let parentNs := match ovls.head? with | some o => o.base.nsPath.getLast?.getD "" | none => name
      let t ← wrapGlobalFunction cfg parentNs n ovls
      pushContent (.folder (packagePath p) [(n ++ ".m", t)])

end WrapModel.Matlab
