/-
  The gateway-id allocator of the MATLAB generator as a pure state machine.

  `_update_wrapper_id` hands out consecutive ids; a virtual class first *reserves* an id (no map entry) and then
  registers its `collectorInsertAndMakeBase` routine under the next id but *named* with the reserved one.
  `mex_function` / `generate_wrapper` later re-walk `0 .. n-1`: an id without entry borrows the entry of its
  successor and queues that class's `upcastFromVoid` routine for the successor id.
-/
namespace WrapModel.Matlab.Ids

/-- one `wrapper_map` entry: the id it is stored under, the id its routine name carries, the payload -/
structure IdEntry (α : Type) where
  key : Nat
  shown : Nat
  payload : α
deriving Repr, Inhabited

structure IdState (α : Type) where
  next : Nat := 0
  entries : List (IdEntry α) := []
deriving Inhabited

/-- `_update_wrapper_id(collector_function)`: returns the id handed to the `.m` call site -/
def IdState.alloc (s : IdState α) (a : α) : IdState α × Nat :=
  ({ next := s.next + 1, entries := s.entries ++ [⟨s.next, s.next, a⟩] }, s.next)

/-- `_update_wrapper_id()` followed by `_update_wrapper_id(collector_function, id_diff=-1)` (virtual classes):
    returns the reserved id `k`; the `.m` file calls `k` for collector registration and `k+1` for the up-cast -/
def IdState.allocVirtual (s : IdState α) (a : α) : IdState α × Nat :=
  ({ next := s.next + 2, entries := s.entries ++ [⟨s.next + 1, s.next, a⟩] }, s.next)

def lookup (es : List (IdEntry α)) (i : Nat) : Option (IdEntry α) := es.find? (·.key == i)

/-- what a `case` of the gateway switch calls -/
inductive Role where
  | routine   -- the routine generated for the entry (named `<base>_<shown>`)
  | upcast    -- `<Class>_upcastFromVoid_<id>` of the entry's class
deriving Repr, DecidableEq

/-- `mex_function`: the dispatch table for ids `i .. n-1` -/
def caseTable (es : List (IdEntry α)) (n : Nat) : Nat → Nat → Option (IdEntry α) → List (Nat × Role × IdEntry α)
  | 0, _, _ => []
  | fuel+1, i, queued =>
    if i ≥ n then [] else
    match lookup es i with
    | some e =>
      (match queued with
        | some q => (i, Role.upcast, q)
        | none => (i, Role.routine, e)) :: caseTable es n fuel (i + 1) none
    | none =>
      match lookup es (i + 1) with
      | none => caseTable es n fuel (i + 1) none
      | some e =>
        (match queued with
          | some q => (i, Role.upcast, q)
          | none => (i, Role.routine, e)) :: caseTable es n fuel (i + 1) (some e)

/-! ### the allocation history and the call sites it issues -/

inductive Op (α : Type) where
  | plain (a : α)
  | virt (a : α)

def step (s : IdState α) : Op α → IdState α
  | .plain a => (s.alloc a).1
  | .virt a => (s.allocVirtual a).1

def run (s : IdState α) (ops : List (Op α)) : IdState α := ops.foldl step s

/-- the ids the generated `.m` files pass to the gateway, with what they expect to reach -/
def sites : Nat → List (Op α) → List (Nat × Role × α)
  | _, [] => []
  | n, .plain a :: r => (n, .routine, a) :: sites (n + 1) r
  | n, .virt a :: r => (n, .routine, a) :: (n + 1, .upcast, a) :: sites (n + 2) r

def entriesFrom : Nat → List (Op α) → List (IdEntry α)
  | _, [] => []
  | n, .plain a :: r => ⟨n, n, a⟩ :: entriesFrom (n + 1) r
  | n, .virt a :: r => ⟨n + 1, n, a⟩ :: entriesFrom (n + 2) r

def total : Nat → List (Op α) → Nat
  | n, [] => n
  | n, .plain _ :: r => total (n + 1) r
  | n, .virt _ :: r => total (n + 2) r

end WrapModel.Matlab.Ids
