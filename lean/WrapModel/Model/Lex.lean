/-
  Character-level primitives of the scannerless parser: what pyparsing 3.1.1 does
  for the token definitions of `gtwrap/interface_parser/tokens.py`.

  Every primitive first skips a *gap* (`preParse`): `(ws* comment)* ws*`, where
  comment is pyparsing's `cpp_style_comment`.  The one exception is the include
  header (`CharsNotIn('>')` has `skipWhitespace = False`).
-/
import WrapModel.Gen.Tables

namespace WrapModel.Lex

abbrev Src := List Char

def isWs (c : Char) : Bool := c == ' ' || c == '\n' || c == '\t' || c == '\r'
def isAlpha (c : Char) : Bool := ('a' ≤ c && c ≤ 'z') || ('A' ≤ c && c ≤ 'Z')
def isDigit (c : Char) : Bool := '0' ≤ c && c ≤ '9'
def isWordStart (c : Char) : Bool := isAlpha c || c == '_'
def isWordChar (c : Char) : Bool := isAlpha c || isDigit c || c == '_'
/-- `Keyword.DEFAULT_KEYWORD_CHARS` = alphanums + "_$" -/
def isKwChar (c : Char) : Bool := isWordChar c || c == '$'
def isHex (c : Char) : Bool := isDigit c || ('a' ≤ c && c ≤ 'f') || ('A' ≤ c && c ≤ 'F')
/-- `Word(printables, excludeChars="(){}[]<>,;")` -/
def isDefaultWordChar (c : Char) : Bool :=
  (33 ≤ c.toNat && c.toNat ≤ 126) && !("(){}[]<>,;".toList.contains c)

def skipWs : Src → Src
  | [] => []
  | c :: r => if isWs c then skipWs r else c :: r

/-- after `/*`: the rest after the first `*/`, if any -/
def blockEnd : Src → Option Src
  | [] => none
  | c :: r => if c == '*' && r.head? == some '/' then some r.tail else blockEnd r

mutual
  /-- after `//`: `(?:\\\n|[^\n])*` -/
  def lineEnd : Src → Src
    | [] => []
    | c :: r => if c == '\n' then c :: r else if c == '\\' then lineEndBs r else lineEnd r
  /-- `lineEnd` right after a backslash: a newline here is a continuation -/
  def lineEndBs : Src → Src
    | [] => []
    | c :: r => if c == '\n' then lineEnd r else if c == '\\' then lineEndBs r else lineEnd r
end

/-- a comment starting exactly here -/
def comment : Src → Option Src
  | c :: d :: r =>
    if c == '/' && d == '*' then blockEnd r
    else if c == '/' && d == '/' then some (lineEnd r)
    else none
  | _ => none

theorem skipWs_length_le (s : Src) : (skipWs s).length ≤ s.length := by
  induction s with
  | nil => simp [skipWs]
  | cons c r ih => unfold skipWs; split <;> simp <;> omega

theorem blockEnd_length_lt {s r : Src} (h : blockEnd s = some r) : r.length < s.length := by
  induction s with
  | nil => simp [blockEnd] at h
  | cons c t ih =>
    unfold blockEnd at h
    split at h
    · simp at h; subst h; cases t <;> simp <;> omega
    · have := ih h; simp; omega

theorem lineEnd_length_le (s : Src) : (lineEnd s).length ≤ s.length ∧ (lineEndBs s).length ≤ s.length := by
  induction s with
  | nil => simp [lineEnd, lineEndBs]
  | cons c r ih =>
    constructor
    · unfold lineEnd; split <;> (try split) <;> simp <;> omega
    · unfold lineEndBs; split <;> (try split) <;> simp <;> omega

theorem comment_length_lt {s r : Src} (h : comment s = some r) : r.length < s.length := by
  unfold comment at h
  split at h
  · split at h
    · have := blockEnd_length_lt h; simp; omega
    · split at h
      · simp at h; subst h; rename_i t _ _; have := (lineEnd_length_le t).1; simp; omega
      · simp at h
  · simp at h

/-- `preParse`: skip `(ws* comment)* ws*` (fuel = number of comments that can still be skipped) -/
def skipGapF : Nat → Src → Src
  | 0, s => skipWs s
  | n+1, s =>
    match comment (skipWs s) with
    | some r => skipGapF n r
    | none => skipWs s

def skipGap (s : Src) : Src := skipGapF s.length s

/-- `_skipIgnorables` only (an element with `skipWhitespace = False`): comments with their
    leading whitespace are skipped, trailing whitespace is not -/
def skipIgnorablesF : Nat → Src → Src
  | 0, s => s
  | n+1, s =>
    match comment (skipWs s) with
    | some r => skipIgnorablesF n r
    | none => s

def skipIgnorables (s : Src) : Src := skipIgnorablesF s.length s

def stripPrefix : List Char → Src → Option Src
  | [], s => some s
  | _ :: _, [] => none
  | p :: ps, c :: r => if p == c then stripPrefix ps r else none

def spanP (p : Char → Bool) : Src → List Char × Src
  | [] => ([], [])
  | c :: r => if p c then let (a, b) := spanP p r; (c :: a, b) else ([], c :: r)

/-- `IDENT = Word(alphas+'_', alphanums+'_') ^ Word(nums)`.  A digit word glued to a letter
    (`3abc`) is rejected by the model (pyparsing would split it; no dialect text contains it). -/
def word (s : Src) : Option (String × Src) :=
  match skipGap s with
  | [] => none
  | c :: r =>
    if isWordStart c then
      let (w, r') := spanP isWordChar (c :: r)
      some (String.ofList w, r')
    else if isDigit c then
      let (w, r') := spanP isDigit (c :: r)
      match r' with
      | d :: _ => if isWordStart d then none else some (String.ofList w, r')
      | [] => some (String.ofList w, r')
    else none

/-- `Word(alphas)` (dunder method name) -/
def alphaWord (s : Src) : Option (String × Src) :=
  match spanP isAlpha (skipGap s) with
  | ([], _) => none
  | (w, r) => some (String.ofList w, r)

/-- `Keyword(k)`: literal text followed by a non-identifier character -/
def kw (k : String) (s : Src) : Option Src :=
  match stripPrefix k.toList (skipGap s) with
  | some (c :: r) => if isKwChar c then none else some (c :: r)
  | some [] => some []
  | none => none

/-- `Literal(t)` / `Suppress(t)` -/
def lit (t : String) (s : Src) : Option Src :=
  stripPrefix t.toList (skipGap s)

/-- `Optional(Literal('std::')).suppress() + PAIR`, the `std::` present -/
def stdPair (s : Src) : Option Src :=
  match lit "std::" s with
  | some r => kw "pair" r
  | none => none

/-- `OPERATOR = Or(map(Literal, …))`: longest literal of the regenerated table -/
def opsymFrom (tbl : List String) (s : Src) : Option (String × Src) :=
  tbl.foldl (fun best o =>
    match stripPrefix o.toList s with
    | some r =>
      match best with
      | some (b, _) => if o.length > b.length then some (o, r) else best
      | none => some (o, r)
    | none => best) none

def opsym (s : Src) : Option (String × Src) := opsymFrom Gen.operatorSymbols (skipGap s)

def eof (s : Src) : Bool := (skipGap s).isEmpty

/-- `CharsNotIn('>')` after `#include <` -/
def header (s : Src) : Option (String × Src) :=
  match spanP (· != '>') (skipIgnorables s) with
  | ([], _) => none
  | (h, r) => some (String.ofList h, r)

/-! ### `DEFAULT_ARG` -/

/-- `QuotedString(q)`: `q(?:[^q\n\r])*q`, `s` starts after the opening quote -/
def qsBody (q : Char) : Src → Option Src
  | [] => none
  | c :: r => if c == q then some r else if c == '\n' || c == '\r' then none else qsBody q r

def quotedString (q : Char) : Src → Option Src
  | c :: r => if c == q then qsBody q r else none
  | [] => none

/-- body of pyparsing's builtin `quoted_string` regex after the opening quote:
    `(?:[^q\n\r\\]|(?:qq)|(?:\\(?:[^x]|x[0-9a-fA-F]+)))*` then the closing quote -/
def bqBody (q : Char) : Nat → Src → Option Src
  | 0, _ => none
  | _, [] => none
  | n+1, c :: r =>
    if c == '\\' then
      match r with
      | [] => none
      | 'x' :: r' =>
        match spanP isHex r' with
        | ([], _) => none
        | (_, r'') => bqBody q n r''
      | _ :: r' => bqBody q n r'
    else if c == q then
      match r with
      | c' :: r' => if c' == q then bqBody q n r' else some r
      | [] => some r
    else if c == '\n' || c == '\r' then none
    else bqBody q n r

/-- builtin `quoted_string` (double or single quoted) exactly here -/
def builtinQuoted : Src → Option Src
  | '"' :: r => bqBody '"' (r.length + 1) r
  | '\'' :: r => bqBody '\'' (r.length + 1) r
  | _ => none

/-- one content run of `nestedExpr`: `Combine(OneOrMore(~quoted_string + CharsNotIn(o+c+ws, exact=1)))`;
    the first character has already been checked -/
def contentRun (o c : Char) : Src → Src
  | [] => []
  | y :: r =>
    if isWs y || y == o || y == c then y :: r
    else if (builtinQuoted (skipGap (y :: r))).isSome then y :: r
    else contentRun o c r

/-- `nestedExpr(o, c)` after the opener: `ZeroOrMore(quoted_string | nested | content) + closer` -/
def nestedBody (o c : Char) : Nat → Src → Option Src
  | 0, _ => none
  | n+1, s =>
    match skipGap s with
    | [] => none
    | x :: r =>
      if x == c then some r
      else match builtinQuoted (x :: r) with
        | some r' => nestedBody o c n r'
        | none =>
          if x == o then
            match nestedBody o c n r with
            | some r' => nestedBody o c n r'
            | none => none
          else nestedBody o c n (contentRun o c r)

def closerOf (o : Char) : Option Char :=
  if o == '(' then some ')' else if o == '[' then some ']'
  else if o == '{' then some '}' else if o == '<' then some '>' else none

/-- one element of the `OneOrMore` of `DEFAULT_ARG`, longest alternative (`^`), exactly here -/
def defaultElem : Src → Option Src
  | [] => none
  | x :: r =>
    match closerOf x with
    | some c => nestedBody x c (r.length + 1) r
    | none =>
      let w : Option Src :=
        if isDefaultWordChar x then some (spanP isDefaultWordChar (x :: r)).2 else none
      if x == '"' || x == '\'' then
        match quotedString x (x :: r), w with
        | some rq, some rw => if rw.length < rq.length then some rw else some rq
        | some rq, none => some rq
        | none, w => w
      else w

/-- more elements: returns the position after the last element (gaps after it not consumed) -/
def defaultMore : Nat → Src → Src
  | 0, s => s
  | n+1, s =>
    match defaultElem (skipGap s) with
    | some r => defaultMore n r
    | none => s

/-- `DEFAULT_ARG = originalTextFor(OneOrMore(…))`: verbatim text from the first element to
    the end of the last one -/
def dflt (s : Src) : Option (String × Src) :=
  let s0 := skipGap s
  match defaultElem s0 with
  | none => none
  | some r =>
    let e := defaultMore (r.length + 1) r
    some (String.ofList (s0.take (s0.length - e.length)), e)

end WrapModel.Lex
