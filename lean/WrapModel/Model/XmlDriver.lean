/-
C17 — line protocol of the model, for the differential correspondence check.

One request per line, fields separated by TAB.  Arbitrary text travels as
`h` ++ lower-case hex of its UTF-8 bytes (`h` alone = empty string).

  repr   hTEXT                 → hREPR              (`repr(text)`)
  escape hTEXT                 → hBODY              (`repr(text)[1:-1].replace('"','\\"')`)
  literal hTEXT                → hLITERAL           (`, "` ++ escape ++ `"`: the emitted argument)
  fixescape hTEXT              → hBODY              (the PROPOSED escaper `cppEscape`, not the code's)
  decode hBODY                 → `some:` ++ hexbytes | `none`   (C++ decoding of `"BODY"`)
  oktext hTEXT                 → `true` | `false`   (the guard `okText` of C17_escape_roundtrip_exact)
  doc    NFILES file* NLOOKUPS lookup*
         file   := hNAME `M` | hNAME `B` | hNAME `T` elem        (missing / ParseError / tree)
         elem   := `E` hTAG NATTRS (hKEY hVALUE)* opt opt NCHILDREN elem*   (text, tail)
         opt    := `-` (None) | hSTRING
         lookup := hCLASS hMETHOD NARGS hARG*
       → one item per lookup, TAB separated, all lookups on ONE parser object:
         `ok:` hDOC `:` hLITERAL warn*   |   `err:` ExceptionClass warn*
         warn := `:nf=` hFILE | `:pf=` hFILE
         (hLITERAL = the `docstring=` argument `, "…"` of pybind_wrapper.py:282)

Malformed requests answer `bad request`.
-/
import WrapModel.Model.Xml
import WrapModel.Model.CppLit

namespace WrapModel.Xml

def hexNib (n : Nat) : Char := hexDigit n

def hexOfBytes (bs : List UInt8) : String :=
  String.ofList (bs.flatMap (fun b => [hexNib (b.toNat / 16), hexNib (b.toNat % 16)]))

def hexOfString (s : String) : String := "h" ++ hexOfBytes s.toUTF8.toList

def unhexBytes : List Char → Option (List UInt8)
  | [] => some []
  | a :: b :: rest => do
    let x ← CppLit.hexVal? a
    let y ← CppLit.hexVal? b
    let r ← unhexBytes rest
    pure (UInt8.ofNat (x * 16 + y) :: r)
  | _ => none

/-- decode an `h…` field. -/
def unhexString (f : String) : Option String :=
  match f.toList with
  | 'h' :: rest => do
    let bs ← unhexBytes rest
    String.fromUTF8? (ByteArray.mk bs.toArray)
  | _ => none

/-- token-stream parser state: remaining fields. -/
abbrev P (α : Type) := List String → Option (α × List String)

def pNat : P Nat
  | f :: fs => f.toNat?.map (fun n => (n, fs))
  | [] => none

def pStr : P String
  | f :: fs => (unhexString f).map (fun s => (s, fs))
  | [] => none

def pOpt : P (Option String)
  | f :: fs => if f = "-" then some (none, fs) else (unhexString f).map (fun s => (some s, fs))
  | [] => none

def pAttrs : Nat → P (List (String × String))
  | 0, fs => some ([], fs)
  | n + 1, fs => do
    let (k, fs) ← pStr fs
    let (v, fs) ← pStr fs
    let (r, fs) ← pAttrs n fs
    pure ((k, v) :: r, fs)

mutual
/-- `fuel` bounds the nesting depth + siblings (the number of fields suffices). -/
def pElem : Nat → P Elem
  | 0, _ => none
  | fuel + 1, fs =>
    match fs with
    | "E" :: fs => do
      let (tag, fs) ← pStr fs
      let (na, fs) ← pNat fs
      let (attrs, fs) ← pAttrs na fs
      let (text, fs) ← pOpt fs
      let (tail, fs) ← pOpt fs
      let (nc, fs) ← pNat fs
      let (cs, fs) ← pElems fuel nc fs
      pure (Elem.mk tag attrs text tail cs, fs)
    | _ => none
def pElems : Nat → Nat → P (List Elem)
  | 0, _, _ => none
  | _ + 1, 0, fs => some ([], fs)
  | fuel + 1, n + 1, fs => do
    let (e, fs) ← pElem fuel fs
    let (r, fs) ← pElems fuel n fs
    pure (e :: r, fs)
end

def pFiles : Nat → P Dir
  | 0, fs => some ([], fs)
  | n + 1, fs => do
    let (name, fs) ← pStr fs
    match fs with
    | "M" :: fs => do
      let (r, fs) ← pFiles n fs
      pure ((name, FileSt.missing) :: r, fs)
    | "B" :: fs => do
      let (r, fs) ← pFiles n fs
      pure ((name, FileSt.bad) :: r, fs)
    | "T" :: fs => do
      let (e, fs) ← pElem (fs.length + 1) fs
      let (r, fs) ← pFiles n fs
      pure ((name, FileSt.tree e) :: r, fs)
    | _ => none

def pArgs : Nat → P (List String)
  | 0, fs => some ([], fs)
  | n + 1, fs => do
    let (a, fs) ← pStr fs
    let (r, fs) ← pArgs n fs
    pure (a :: r, fs)

def pLookups : Nat → P (List (String × String × List String))
  | 0, fs => some ([], fs)
  | n + 1, fs => do
    let (c, fs) ← pStr fs
    let (m, fs) ← pStr fs
    let (k, fs) ← pNat fs
    let (a, fs) ← pArgs k fs
    let (r, fs) ← pLookups n fs
    pure ((c, m, a) :: r, fs)

def showWarning : Warning → String
  | .notFound f => ":nf=" ++ hexOfString f
  | .parseFail f => ":pf=" ++ hexOfString f

def showLookup (l : Lookup) : String :=
  (match l.res with
   | .ok s => "ok:" ++ hexOfString s ++ ":" ++ hexOfString (docstringArg s)
   | .err e => "err:" ++ e) ++ String.join (l.warnings.map showWarning)

def handleDoc (fs : List String) : Option String := do
  let (nf, fs) ← pNat fs
  let (dir, fs) ← pFiles nf fs
  let (nl, fs) ← pNat fs
  let (qs, fs) ← pLookups nl fs
  if fs ≠ [] then none
  else pure ("\t".intercalate ((extractAll dir DocState.empty qs).map showLookup))

/-- The driver entry point: one request (already split at TABs) ↦ one answer line. -/
def handleLine (fields : List String) : String :=
  match fields with
  | ["repr", h] =>
    match unhexString h with
    | some s => hexOfString (pyRepr s)
    | none => "bad request"
  | ["escape", h] =>
    match unhexString h with
    | some s => hexOfString (escapeDoc s)
    | none => "bad request"
  | ["literal", h] =>
    match unhexString h with
    | some s => hexOfString (docstringArg s)
    | none => "bad request"
  | ["fixescape", h] =>
    match unhexString h with
    | some s => hexOfString (cppEscape s)
    | none => "bad request"
  | ["decode", h] =>
    match unhexString h with
    | some s =>
      match CppLit.decodeS s with
      | some bs => "some:" ++ hexOfBytes bs
      | none => "none"
    | none => "bad request"
  | ["oktext", h] =>
    match unhexString h with
    | some s => if okText s then "true" else "false"
    | none => "bad request"
  | "doc" :: rest => (handleDoc rest).getD "bad request"
  | _ => "bad request"

end WrapModel.Xml
