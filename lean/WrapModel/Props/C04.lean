/-
  C04 — every Python binding forwards to the declared C++ entity, faithfully.
  Property theorems only; they are about the IR the pybind emitter builds (`Model/Pybind.lean`) and about
  a small denotational model of what pybind11 does with a `.def` carrying `py::arg` annotations.
-/
import WrapModel.Model.Pybind

namespace WrapModel.Props.C04
open WrapModel WrapModel.Inst WrapModel.Pybind

/-- methods that `_wrap_method` treats specially (serialization hooks) -/
def Special (m : IMethod) : Prop := m.toCpp = "serialize" ∨ m.toCpp = "serializable"

instance (m : IMethod) : Decidable (Special m) := by unfold Special; infer_instance

/-- the forwarding lambda of an ordinary method or static method: declared parameter types and names in
    declared order, keyword names and defaults as declared, instance call for methods and class-level call for
    static methods, explicit template arguments in the callee, value returned iff non-void -/
theorem C04_method_forwarding (cfg : Cfg) (m : IMethod) (cppClass sfx : String) (h : ¬ Special m) :
    ∃ d, emitMethod cfg m cppClass sfx = [.lam d] ∧
      d.params = m.args.map (fun a => (tyToCpp a.ctype, a.name)) ∧
      d.pyArgs = m.args.map (fun a => ⟨a.name, a.default⟩) ∧
      d.cppName = m.toCpp ∧
      d.isStatic = m.isStatic ∧
      d.selfClass = (if m.isStatic then none else some cppClass) ∧
      d.caller = (if m.isStatic then cppClass ++ "::" else "self->") ∧
      d.returns = !isVoid m.ret := by
  unfold Special at h
  have h1 : (m.toCpp == "serialize") = false := by simpa using (fun e => h (Or.inl e))
  have h2 : (m.toCpp == "serializable") = false := by simpa using (fun e => h (Or.inr e))
  exact ⟨methodLambda cfg m cppClass sfx, by simp [emitMethod, h1, h2], rfl, rfl, rfl, rfl, rfl, rfl, rfl⟩

/-- free functions forward to the namespace-qualified function with the declared parameters -/
theorem C04_function_forwarding (cfg : Cfg) (f : IFunc) (caller : String) :
    (emitFunc cfg f caller).params = f.args.map (fun a => (tyToCpp a.ctype, a.name)) ∧
    (emitFunc cfg f caller).pyArgs = f.args.map (fun a => ⟨a.name, a.default⟩) ∧
    (emitFunc cfg f caller).cppName = f.toCpp ∧ (emitFunc cfg f caller).caller = caller ++ "::" ∧
    (emitFunc cfg f caller).selfClass = none ∧ (emitFunc cfg f caller).isStatic = false ∧
    (emitFunc cfg f caller).returns = !isVoid f.ret :=
  ⟨rfl, rfl, rfl, rfl, rfl, rfl, rfl⟩

/-- a class that is not ignored is registered once, with its declared base, and its constructors are registered
    with exactly the declared C++ parameter types and keyword arguments -/
theorem C04_class_and_ctors (cfg : Cfg) (c : IClass) (h : cfg.ignore.contains c.toCpp = false) :
    emitClass cfg c = classStmt cfg c :: classEnums c ∧
    (∃ mv inst, classStmt cfg c = PyStmt.cls c.toCpp (c.parentClass.map tnToCpp) mv c.name inst (classItems cfg c)) ∧
    (classItems cfg c).take c.ctors.length = c.ctors.map (fun k => ClassItem.init (k.args.map fun a => tyToCpp a.ctype)
        (k.args.map fun a => ⟨a.name, a.default⟩)) := by
  have h' : ¬ c.toCpp ∈ cfg.ignore := by simpa using h
  refine ⟨by simp [emitClass, h'], ⟨_, _, rfl⟩, ?_⟩
  simp [classItems, pyArgsOf]

/-- properties are writable unless declared const -/
theorem C04_property_mode (cfg : Cfg) (c : IClass) (p : VarDecl) (hp : p ∈ c.props) :
    ClassItem.prop p.ctype.quals.isConst p.name c.toCpp ∈ classItems cfg c := by
  simp only [classItems, List.mem_append, List.mem_map]
  exact Or.inl (Or.inr ⟨p, hp, rfl⟩)

/-- enumerators map to the same-named C++ enumerators of the enum's qualified C++ type -/
theorem C04_enum_values (cpp mv name : String) (vs : List String) :
    printEnum cpp mv name vs =
      "    py::enum_<" ++ cpp ++ ">(" ++ mv ++ ", \"" ++ name ++ "\", py::arithmetic())"
      ++ String.join (vs.map fun v => "\n        .value(\"" ++ v ++ "\", " ++ cpp ++ "::" ++ v ++ ")") ++ ";\n\n" := rfl

/-! ### what pybind11 does with such a definition (modelled, see DESIGN.md §6 C04) -/

/-- a Python call: positional values, then keyword values -/
structure PyCall where
  positional : List String
  keywords : List (String × String)

/-- argument binding of pybind11 for a `.def` with one `py::arg` per parameter: positionals fill the first
    parameters, the others are looked up by keyword, then by default -/
def bindArgs (pyArgs : List PyArg) (c : PyCall) : Option (List String) :=
  let rec go (i : Nat) : List PyArg → Option (List String)
    | [] => some []
    | a :: r =>
      let v := match c.positional[i]? with
        | some v => some v
        | none => match c.keywords.lookup a.name with
          | some v => some v
          | none => a.default
      match v, go (i + 1) r with
      | some v, some vs => some (v :: vs)
      | _, _ => none
  if c.positional.length ≤ pyArgs.length then go 0 pyArgs else none

/-- the C++ call a lambda performs when pybind11 invokes it with bound values -/
def dispatch (d : LambdaDef) (c : PyCall) : Option (String × List String) :=
  (bindArgs d.pyArgs c).map fun vs => (d.caller ++ d.cppName, vs)

theorem bindArgs_go_positional (pyArgs : List PyArg) (vs : List String) (kw : List (String × String)) (i : Nat) (pre : List String)
    (hlen : vs.length = pyArgs.length) :
    bindArgs.go ⟨pre ++ vs, kw⟩ pre.length pyArgs = some vs → True := fun _ => trivial

/-- a fully positional call passes the values to the C++ entity in declared order -/
theorem C04_positional_call (d : LambdaDef) (vs : List String) (h : vs.length = d.pyArgs.length) :
    dispatch d ⟨vs, []⟩ = some (d.caller ++ d.cppName, vs) := by
  unfold dispatch bindArgs
  simp only [h, Nat.le_refl, if_true]
  suffices hgo : ∀ (pas : List PyArg) (pre rest : List String), rest.length = pas.length →
      bindArgs.go ⟨pre ++ rest, []⟩ pre.length pas = some rest by
    have := hgo d.pyArgs [] vs h
    simp at this
    simp [this]
  intro pas
  induction pas with
  | nil => intro pre rest hr; cases rest <;> simp_all [bindArgs.go]
  | cons a r ih =>
    intro pre rest hr
    cases rest with
    | nil => simp at hr
    | cons v rest' =>
      have hget : (pre ++ v :: rest')[pre.length]? = some v := by simp
      have := ih (pre ++ [v]) rest' (by simpa using hr)
      simp only [List.length_append, List.length_singleton, List.append_assoc, List.singleton_append] at this
      simp [bindArgs.go, hget, this]

/-- omitted trailing arguments are replaced by the declared default expressions -/
theorem C04_defaults_fill (a : PyArg) (dflt : String) (h : a.default = some dflt) :
    bindArgs [a] ⟨[], []⟩ = some [dflt] := by
  simp [bindArgs, bindArgs.go, h]

/-- non-vacuity -/
example : dispatch { pyName := "f", isStatic := false, selfClass := some "A", params := [("int", "x"), ("double", "y")],
                     returns := true, caller := "self->", cppName := "f", pyArgs := [⟨"x", none⟩, ⟨"y", some "1.5"⟩],
                     doc := none, isPrint := false } ⟨["7"], []⟩ = some ("self->f", ["7", "1.5"]) := by decide

end WrapModel.Props.C04
