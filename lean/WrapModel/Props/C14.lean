/-
  C14 — generation is a pure, repeatable function of inputs and options.
  Property theorems only.  In the model both generators are total functions of (text, template, options) by
  construction; the one piece of cross-file state the Python code has — the list of serialising classes behind the
  BOOST_CLASS_EXPORT block — is computed from the statements of the file being wrapped alone.
-/
import WrapModel.Model.Pybind

namespace WrapModel.Props.C14
open WrapModel WrapModel.Inst WrapModel.Pybind

/-- every class exported for serialization is a class bound in *this* file whose `serialize`/`serializable`
    method was wrapped: nothing is carried over from files wrapped earlier -/
theorem C14_export_only_own_classes (stmts : List PyStmt) (c : String) (h : c ∈ serializingClasses stmts) :
    ∃ cpp par mv n inst items, PyStmt.cls cpp par mv n inst items ∈ stmts ∧ ClassItem.serialization c ∈ items := by
  induction stmts with
  | nil => simp [serializingClasses] at h
  | cons s r ih =>
    cases s with
    | cls cpp par mv n inst items =>
      simp only [serializingClasses] at h
      have h' := List.mem_eraseDups.1 h
      rcases List.mem_append.1 h' with h1 | h2
      · refine ⟨cpp, par, mv, n, inst, items, by simp, ?_⟩
        simp only [List.mem_filterMap] at h1
        obtain ⟨i, hi, hc⟩ := h1
        cases i <;> simp at hc
        subst hc; exact hi
      · obtain ⟨a, b, c', d, e, f, hm, hs⟩ := ih h2
        exact ⟨a, b, c', d, e, f, by simp [hm], hs⟩
    | submodule _ _ _ | fwdCls _ _ _ | enum _ _ _ _ _ | var _ _ _ _ | func _ _ =>
      simp only [serializingClasses] at h
      obtain ⟨a, b, c', d, e, f, hm, hs⟩ := ih h
      exact ⟨a, b, c', d, e, f, by simp [hm], hs⟩

/-- without the serialization option no export block is produced at all -/
theorem C14_no_export_without_option (cfg : Cfg) (tpl n : String) (subs : Option (List String)) (im : List IDecl)
    (h : cfg.useBoost = false) :
    wrapInstantiated cfg tpl n subs im = wrapInstantiated { cfg with useBoost := false } tpl n subs im := by
  cases cfg; simp_all

end WrapModel.Props.C14
