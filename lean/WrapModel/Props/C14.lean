/-
  C14 — generation is a pure, repeatable function of inputs and options.
  Property theorems only.  In the model both generators are total functions of (text, template, options) by
  construction; the one piece of cross-file state the Python code has — the list of serialising classes behind the
  BOOST_CLASS_EXPORT block — is computed from the statements of the file being wrapped alone.
-/
import WrapModel.Model.Pybind
import WrapModel.Lemmas.PybindStateLemmas

namespace WrapModel.Props.C14
open WrapModel WrapModel.Inst WrapModel.Pybind

/-- every class exported for serialization is a class bound in *this* file whose `serialize`/`serializable`
    method was wrapped: nothing is carried over from files wrapped earlier -/
theorem C14_export_only_own_classes (stmts : List PyStmt) (c : String) (h : c ∈ serializingClasses stmts) :
    ∃ cpp par mv n inst items, PyStmt.cls cpp par mv n inst items ∈ stmts ∧ ClassItem.serialization c ∈ items := by
  induction stmts with
  | nil => simp [serializingClasses] at h
  | cons s r ih =>
    cases s with
    | cls cpp par mv n inst items =>
      simp only [serializingClasses] at h
      have h' := List.mem_eraseDups.1 h
      rcases List.mem_append.1 h' with h1 | h2
      · refine ⟨cpp, par, mv, n, inst, items, by simp, ?_⟩
        simp only [List.mem_filterMap] at h1
        obtain ⟨i, hi, hc⟩ := h1
        cases i <;> simp at hc
        subst hc; exact hi
      · obtain ⟨a, b, c', d, e, f, hm, hs⟩ := ih h2
        exact ⟨a, b, c', d, e, f, by simp [hm], hs⟩
    | submodule _ _ _ | fwdCls _ _ _ | enum _ _ _ _ _ | var _ _ _ _ | func _ _ =>
      simp only [serializingClasses] at h
      obtain ⟨a, b, c', d, e, f, hm, hs⟩ := ih h
      exact ⟨a, b, c', d, e, f, by simp [hm], hs⟩

/-- without the serialization option no export block is produced at all -/
theorem C14_no_export_without_option (cfg : Cfg) (tpl n : String) (subs : Option (List String)) (im : List IDecl)
    (h : cfg.useBoost = false) :
    wrapInstantiated cfg tpl n subs im = wrapInstantiated { cfg with useBoost := false } tpl n subs im := by
  cases cfg; simp_all

/-! ### Re-use of one wrapper object (`Model/PybindState.lean`)

The Python object keeps `_serializing_classes` between calls; `wrap_file` appends to it while it emits the classes and
resets it before it returns. -/

/-- the object's accumulator, started empty, ends as the duplicate-free list the pure model computes from the
    statements of the file alone -/
theorem C14_accumulator_is_pure (stmts : List PyStmt) : accumulate [] stmts = serializingClasses stmts :=
  accumulate_nil stmts

/-- every `wrap_file` call leaves the object in the clean state, whatever state it found -/
theorem C14_step_resets (cfg : Cfg) (tpl : String) (s : WState) (n : String) (subs : Option (List String)) (im : List IDecl) :
    (wrapFileStep cfg tpl s n subs im).1 = {} := rfl

/-- a `wrap_file` call on an object in the clean state is the pure function of (text, template, options) -/
theorem C14_step_from_clean_state (cfg : Cfg) (tpl n : String) (subs : Option (List String)) (im : List IDecl) :
    (wrapFileStep cfg tpl {} n subs im).2 = wrapInstantiated cfg tpl n subs im := by
  cases subs <;> simp only [wrapFileStep, wrapInstantiated, accumulate_nil]

/-- MAIN THEOREM (re-use).  For EVERY history of `wrap_file` calls on one wrapper object — any number of files, any
    texts, with or without submodule lists — the k-th output is the output of a fresh wrapper for the k-th input:
    nothing is carried over from the files wrapped earlier. -/
theorem C14_reuse_history (cfg : Cfg) (tpl : String) (hist : List (String × Option (List String) × List IDecl)) :
    runHistory cfg tpl {} hist = hist.map fun h => wrapInstantiated cfg tpl h.1 h.2.1 h.2.2 := by
  induction hist with
  | nil => rfl
  | cons h r ih =>
    obtain ⟨n, subs, im⟩ := h
    simp only [runHistory, List.map_cons, C14_step_resets, C14_step_from_clean_state, ih]

/-- what the reset is for: on an object whose accumulator is NOT empty the export block also names the stale class
    (this is the state the theorem above shows unreachable between calls) -/
example : accumulate ["Stale"] [PyStmt.cls "A" none "m_" "A" none [ClassItem.serialization "A"]] = ["Stale", "A"] := by decide

/-- non-vacuity: two classes that both serialise, one of them twice -/
example : accumulate [] [PyStmt.cls "A" none "m_" "A" none [ClassItem.serialization "A", ClassItem.serialization "A"],
                         PyStmt.cls "B" none "m_" "B" none [ClassItem.serialization "B"]] = ["A", "B"] := by decide

end WrapModel.Props.C14
