/-
  Property C19 — parsing cost stays polynomial in nesting depth and file size.

  Model half.  What is proved here is about the abstract engine of `Model/Packrat.lean`
  (ANY grammar table with `R` expressions, ANY input of length `n`):

  * with a packrat table that NEVER EVICTS, at most `4·R·(n+1)` un-memoised evaluations happen
    (`C19_packrat_bound`), with fuel `4·R·(n+1)+1` always sufficient
    (`C19_memo_fuel_sufficient`);
  * memoisation does not change the result (`C19_memo_sound`; also for the bounded FIFO table,
    whatever it evicts: `C19_fifo_sound`);
  * without memoisation a namespace-like grammar with one longest-match (`^`) choice costs
    exactly `nsCost d ≥ 9·2^d` evaluations at nesting depth `d`
    (`C19_plain_exponential_witness`), whereas the memoising engine needs at most `56·d + 84`
    on the same inputs (`C19_memo_linear_witness`).

  NOT proved: that pyparsing's real cache (a 128-entry FIFO, which does evict) stays within the
  bound.  That part of C19 is measured by `harness/c19_measure.py`.
-/
import WrapModel.Model.Packrat
import WrapModel.Lemmas.PackratLemmas

namespace WrapModel.Packrat

/-- **C19, cost bound.**  For any grammar `G` (with `R = G.size` expressions), any input, any
    start key and ANY fuel, the memoising engine started on the empty table performs at most
    `4·R·(n+1)` misses (un-memoised evaluations).

    No-eviction premise: `memo` is the engine whose table is never shrunk — a key, once
    inserted (at the moment its evaluation starts), stays present (`Rel`, first component, is
    preserved by every step: `memo_rel`).  Each miss inserts a key that was absent, and keys
    range over `allKeys R n`, a list of length `4·R·(n+1)`. -/
theorem C19_packrat_bound (G : Grammar) (inp : List Char) (f : Nat) (k : Key) :
    (memo G inp f k St.init).2.misses ≤ 4 * G.size * (inp.length + 1) := by
  have h := (memo_rel G inp f k St.init).2
  have h0 := absent_init_le G inp
  have : St.init.misses = 0 := rfl
  omega

/-- **C19, cost bound from an arbitrary table**: the number of new misses is at most the number
    of keys of the key space that were absent at the start. -/
theorem C19_packrat_bound_from (G : Grammar) (inp : List Char) (f : Nat) (k : Key) (s : St) :
    (memo G inp f k s).2.misses ≤ s.misses + absent s.tbl (allKeys G.size inp.length) := by
  have h := (memo_rel G inp f k s).2
  omega

/-- **C19, fuel.**  `memoFuel G inp = 4·R·(n+1) + 1` units of fuel (recursion depth) always
    suffice: `runMemo` never reports `fuel`.  (It reports `loop` only when it re-enters a key
    that is still being evaluated, i.e. on left recursion.) -/
theorem C19_memo_fuel_sufficient (G : Grammar) (inp : List Char) (k : Key) :
    (runMemo G inp k).1 ≠ .fuel := by
  apply memo_no_fuel
  have := absent_init_le G inp
  unfold memoFuel
  omega

/-- **C19, memoisation does not change the language.**  If the memoising engine (any fuel,
    empty table) finishes with result `r`, then the plain engine returns `r` for every
    sufficiently large fuel, and for EVERY fuel it returns `r` or runs out of fuel — never a
    different result.  The final table is well-formed. -/
theorem C19_memo_sound (G : Grammar) (inp : List Char) (f : Nat) (k : Key)
    (r : Option Nat) (s' : St) (h : memo G inp f k St.init = (.done r, s')) :
    (∃ F, ∀ F', F ≤ F' → ∀ c, (plain G inp F' k c).1 = .done r) ∧
    (∀ F c, (plain G inp F k c).1 = .done r ∨ (plain G inp F k c).1 = .fuel) ∧
    s'.WF G inp := by
  obtain ⟨hwf, hd⟩ := memo_sound_aux G inp f k St.init r s' (St.WF_init G inp) h
  refine ⟨?_, plain_eq_or_fuel_of_den hd, hwf⟩
  obtain ⟨F, hF⟩ := hd
  exact ⟨F, fun F' hle => DenAt.mono hF hle⟩

/-- **C19, soundness with eviction.**  The same for the bounded FIFO table of ANY capacity
    (pyparsing's scheme): eviction never changes results.  No cost bound is claimed for it. -/
theorem C19_fifo_sound (G : Grammar) (inp : List Char) (cap f : Nat) (k : Key)
    (r : Option Nat) (s' : Fifo) (h : memoFifo G inp f k (Fifo.init cap) = (.done r, s')) :
    (∃ F, ∀ F', F ≤ F' → ∀ c, (plain G inp F' k c).1 = .done r) ∧
    (∀ F c, (plain G inp F k c).1 = .done r ∨ (plain G inp F k c).1 = .fuel) := by
  obtain ⟨_, hd⟩ := memoFifo_sound_aux G inp f k (Fifo.init cap) r s' (Fifo.WF_init G inp cap) h
  refine ⟨?_, plain_eq_or_fuel_of_den hd⟩
  obtain ⟨F, hF⟩ := hd
  exact ⟨F, fun F' hle => DenAt.mono hF hle⟩

/-- **C19, exponential witness.**  For the grammar `ns := "{" (leaf ^ ns)* "}"` and the inputs
    `nsInput d = {^(d+1) }^(d+1)`, the plain engine (any sufficient fuel) accepts the whole
    input, its evaluation count is exactly `nsCost d`, it at least doubles with every nesting
    level, and it is at least `9·2^d`. -/
theorem C19_plain_exponential_witness (d F F' : Nat)
    (hF : 4 * d + 6 ≤ F) (hF' : 4 * (d + 1) + 6 ≤ F') :
    (plain nsGrammar (nsInput d) F nsKey 0).1 = .done (some (nsInput d).length) ∧
    plainCalls nsGrammar (nsInput d) F nsKey = nsCost d ∧
    2 * plainCalls nsGrammar (nsInput d) F nsKey ≤ plainCalls nsGrammar (nsInput (d + 1)) F' nsKey ∧
    9 * 2 ^ d ≤ plainCalls nsGrammar (nsInput d) F nsKey := by
  have h1 := ns_cost_top d F hF 0
  have h2 := ns_cost_top (d + 1) F' hF' 0
  have h3 := nsCost_ge_pow d
  refine ⟨?_, ?_, ?_, ?_⟩
  · rw [h1, nsInput_length]
  · simp only [plainCalls, h1]; omega
  · simp only [plainCalls, h1, h2, nsCost]; omega
  · simp only [plainCalls, h1]; omega

/-- **C19, the memo is what prevents the blow-up.**  On the same family the memoising engine
    performs at most `56·d + 84` misses (instance of `C19_packrat_bound`: `R = 7`,
    `n = 2·d + 2`), and whenever it finishes its result is the plain engine's: the whole input. -/
theorem C19_memo_linear_witness (d f : Nat) :
    (memo nsGrammar (nsInput d) f nsKey St.init).2.misses ≤ 56 * d + 84 ∧
    ∀ r s', memo nsGrammar (nsInput d) f nsKey St.init = (.done r, s') →
      r = some (nsInput d).length := by
  constructor
  · have := C19_packrat_bound nsGrammar (nsInput d) f nsKey
    rw [nsInput_length] at this
    have hs : nsGrammar.size = 7 := rfl
    rw [hs] at this
    omega
  · intro r s' h
    have h1 := (C19_memo_sound nsGrammar (nsInput d) f nsKey r s' h).2.1 (4 * d + 6) 0
    rw [ns_cost_top d (4 * d + 6) (Nat.le_refl _) 0] at h1
    rw [nsInput_length]
    rcases h1 with h1 | h1
    · simp only [Out.done.injEq] at h1; exact h1.symm
    · simp at h1

/-! ### Non-vacuity examples -/

/-- The memoising engine really finishes on the witness family (here depth 3: 8 characters),
    with 67 misses, where the plain engine needs 156 evaluations. -/
example :
    (runMemo nsGrammar (nsInput 3) nsKey).1 = .done (some 8) ∧
    (runMemo nsGrammar (nsInput 3) nsKey).2.misses = 67 ∧
    plainCalls nsGrammar (nsInput 3) 18 nsKey = 156 := by decide

/-- The hypotheses of `C19_plain_exponential_witness` are satisfiable and its numbers are the
    ones the evaluator produces: 9, 30, 72, 156 evaluations at depths 0..3. -/
example : (List.range 4).map (fun d => plainCalls nsGrammar (nsInput d) (4 * d + 6) nsKey)
    = [9, 30, 72, 156] := by decide

/-- `demoGrammar` (Model/Packrat.lean) uses every constructor.  On `"ab, b?,a"` both engines
    accept all 8 characters; the memoising engine stays below the bound `4·R·(n+1)`. -/
example :
    let inp := "ab, b?,a".toList
    (runMemo demoGrammar inp ⟨0, 0, true, true⟩).1 = .done (some 8) ∧
    (plain demoGrammar inp 40 ⟨0, 0, true, true⟩ 0).1 = .done (some 8) ∧
    (runMemo demoGrammar inp ⟨0, 0, true, true⟩).2.misses
      ≤ 4 * demoGrammar.size * (inp.length + 1) := by decide

/-- Left recursion: the memoising engine reports `loop` (pyparsing: RecursionError); the plain
    engine only ever runs out of fuel.  So `loop`/`fuel` outcomes are real and the `.done`
    hypothesis of `C19_memo_sound` is not automatic. -/
example :
    (runMemo #[.ref 0] [] ⟨0, 0, true, true⟩).1 = .loop ∧
    (plain #[.ref 0] [] 50 ⟨0, 0, true, true⟩ 0).1 = .fuel := by decide

/-- Eviction matters for COST (not for results): with a 0-entry FIFO the witness family at
    depth 3 needs 156 misses — as many as the plain engine — and with 1 or 2 entries 108,
    instead of 67 without eviction.  The bound theorem is therefore specific to the
    no-eviction table. -/
example :
    (memoFifo nsGrammar (nsInput 3) 100 nsKey (Fifo.init 0)).2.misses = 156 ∧
    (memoFifo nsGrammar (nsInput 3) 100 nsKey (Fifo.init 1)).2.misses = 108 ∧
    (memoFifo nsGrammar (nsInput 3) 100 nsKey (Fifo.init 2)).2.misses = 108 ∧
    (memoFifo nsGrammar (nsInput 3) 100 nsKey (Fifo.init 2)).1 = .done (some 8) := by
  set_option maxRecDepth 8000 in decide

end WrapModel.Packrat

