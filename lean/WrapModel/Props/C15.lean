/-
  C15 — ignoring or removing a class affects that class only.
  Property theorems only (pybind emitter IR, `Model/Pybind.lean`).
-/
import WrapModel.Model.Pybind
import WrapModel.Model.Matlab.Cpp

namespace WrapModel.Props.C15
open WrapModel WrapModel.Inst WrapModel.Pybind

/-- configuration with one more ignore entry -/
def withIgnore (cfg : Cfg) (x : String) : Cfg := { cfg with ignore := x :: cfg.ignore }

theorem moduleVar_withIgnore (cfg : Cfg) (x : String) (p : List String) : moduleVar (withIgnore cfg x) p = moduleVar cfg p := rfl

theorem emitMethod_withIgnore (cfg : Cfg) (x : String) (m : IMethod) (cls sfx : String) :
    emitMethod (withIgnore cfg x) m cls sfx = emitMethod cfg m cls sfx := rfl

theorem emitMethods_withIgnore (cfg : Cfg) (x : String) (ms : List IMethod) (cls : String) :
    emitMethods (withIgnore cfg x) ms cls = emitMethods cfg ms cls := by
  unfold emitMethods
  simp only [emitMethod_withIgnore]

/-- an ignore entry leaves every *other* class's binding untouched -/
theorem C15_other_class_unchanged (cfg : Cfg) (x : String) (c : IClass) (h : c.toCpp ≠ x) :
    emitClass (withIgnore cfg x) c = emitClass cfg c := by
  have h1 : (withIgnore cfg x).ignore.contains c.toCpp = cfg.ignore.contains c.toCpp := by
    simp [withIgnore, List.contains_cons, h]
  have h2 : classStmt (withIgnore cfg x) c = classStmt cfg c := by
    simp only [classStmt, classItems, emitMethods_withIgnore, moduleVar_withIgnore]
  simp only [emitClass, h1, h2]

/-- the ignored class itself: its whole block disappears — the `py::class_` statement and the enums declared in it
    (full statement; before fix 7842d82 the enums of an ignored class were still emitted and this theorem carried the
    guard `c.enums = []`) -/
theorem C15_ignored_class_removed (cfg : Cfg) (c : IClass) :
    emitClass (withIgnore cfg c.toCpp) c = [] := by
  simp [emitClass, withIgnore]

/-- ignoring a class is deleting its declaration: the statements of a namespace body with the class on the ignore
    list are those of the body without the declaration (the other declarations are classes other than `c`, or anything
    that is not a class) -/
theorem C15_ignore_is_delete (cfg : Cfg) (p : List String) (mv : String) (xs ys : List IDecl) (c : IClass) :
    (emitInner (withIgnore cfg c.toCpp) p mv (xs ++ .cls c :: ys)).1 =
      (emitInner (withIgnore cfg c.toCpp) p mv (xs ++ ys)).1 := by
  induction xs with
  | nil =>
    have h := C15_ignored_class_removed cfg c
    simp [emitInner, h]
  | cons d r ih =>
    simp only [List.cons_append]
    cases d <;> simp [emitInner, ih]

/-- locality: the statements of a namespace body are the concatenation of per-declaration blocks in order —
    inserting or deleting a declaration inserts or deletes its own block and nothing else -/
theorem C15_locality (cfg : Cfg) (p : List String) (mv : String) (xs ys : List IDecl) :
    emitInner cfg p mv (xs ++ ys) =
      ((emitInner cfg p mv xs).1 ++ (emitInner cfg p mv ys).1, (emitInner cfg p mv xs).2 ++ (emitInner cfg p mv ys).2) := by
  induction xs with
  | nil => simp [emitInner]
  | cons d r ih =>
    simp only [List.cons_append]
    cases d <;> simp [emitInner, ih, List.append_assoc, String.append_assoc]

/-! ### MATLAB side -/

/-- MATLAB generator: wrapping an IGNORED class does nothing at all — no classdef text, no id allocated (so every later call
    site keeps the id it has when the declaration is deleted), no enumeration folder pushed, no include recorded: the state of
    the generator after the class is the state before it.  (The key is the qualified name without a leading `::`, for a
    global class the bare name — fix 0f2adfb.)  That the whole toolbox with the class ignored equals the toolbox with its
    declaration deleted is decided per run by correspondence and the ignore = delete oracle. -/
theorem C15_matlab_ignored_class_no_effect (cfg : Matlab.MCfg) (c : IClass) (ns : String) (s : Matlab.St)
    (h : cfg.ignore.contains (joinWith "::" (c.nsPath.drop 1 ++ [c.name])) = true) :
    (Matlab.wrapInstantiatedClass cfg c ns).run s = .ok (none, s) := by
  have h' : joinWith "::" (c.nsPath.tail ++ [c.name]) ∈ cfg.ignore := by simpa using h
  unfold Matlab.wrapInstantiatedClass
  simp [h']
  rfl

end WrapModel.Props.C15
