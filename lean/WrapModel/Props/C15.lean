/-
  C15 — ignoring or removing a class affects that class only.
  Property theorems only (pybind emitter IR, `Model/Pybind.lean`).
-/
import WrapModel.Model.Pybind
import WrapModel.Model.Matlab.Cpp
import WrapModel.Props.C05

namespace WrapModel.Props.C15
open WrapModel WrapModel.Inst WrapModel.Pybind

/-- configuration with one more ignore entry -/
def withIgnore (cfg : Cfg) (x : String) : Cfg := { cfg with ignore := x :: cfg.ignore }

theorem moduleVar_withIgnore (cfg : Cfg) (x : String) (p : List String) : moduleVar (withIgnore cfg x) p = moduleVar cfg p := rfl

theorem emitMethod_withIgnore (cfg : Cfg) (x : String) (m : IMethod) (cls sfx : String) :
    emitMethod (withIgnore cfg x) m cls sfx = emitMethod cfg m cls sfx := rfl

theorem emitMethods_withIgnore (cfg : Cfg) (x : String) (ms : List IMethod) (cls : String) :
    emitMethods (withIgnore cfg x) ms cls = emitMethods cfg ms cls := by
  unfold emitMethods
  simp only [emitMethod_withIgnore]

/-- an ignore entry leaves every *other* class's binding untouched -/
theorem C15_other_class_unchanged (cfg : Cfg) (x : String) (c : IClass) (h : c.toCpp ≠ x) :
    emitClass (withIgnore cfg x) c = emitClass cfg c := by
  have h1 : (withIgnore cfg x).ignore.contains c.toCpp = cfg.ignore.contains c.toCpp := by
    simp [withIgnore, List.contains_cons, h]
  have h2 : classStmt (withIgnore cfg x) c = classStmt cfg c := by
    simp only [classStmt, classItems, emitMethods_withIgnore, moduleVar_withIgnore]
  simp only [emitClass, h1, h2]

/-- the ignored class itself: its whole block disappears — the `py::class_` statement and the enums declared in it
    (full statement; before fix 7842d82 the enums of an ignored class were still emitted and this theorem carried the
    guard `c.enums = []`) -/
theorem C15_ignored_class_removed (cfg : Cfg) (c : IClass) :
    emitClass (withIgnore cfg c.toCpp) c = [] := by
  simp [emitClass, withIgnore]

/-- ignoring a class is deleting its declaration: the statements of a namespace body with the class on the ignore
    list are those of the body without the declaration (the other declarations are classes other than `c`, or anything
    that is not a class) -/
theorem C15_ignore_is_delete (cfg : Cfg) (p : List String) (mv : String) (xs ys : List IDecl) (c : IClass) :
    (emitInner (withIgnore cfg c.toCpp) p mv (xs ++ .cls c :: ys)).1 =
      (emitInner (withIgnore cfg c.toCpp) p mv (xs ++ ys)).1 := by
  induction xs with
  | nil =>
    have h := C15_ignored_class_removed cfg c
    simp [emitInner, h]
  | cons d r ih =>
    simp only [List.cons_append]
    cases d <;> simp [emitInner, ih]

/-- locality: the statements of a namespace body are the concatenation of per-declaration blocks in order —
    inserting or deleting a declaration inserts or deletes its own block and nothing else -/
theorem C15_locality (cfg : Cfg) (p : List String) (mv : String) (xs ys : List IDecl) :
    emitInner cfg p mv (xs ++ ys) =
      ((emitInner cfg p mv xs).1 ++ (emitInner cfg p mv ys).1, (emitInner cfg p mv xs).2 ++ (emitInner cfg p mv ys).2) := by
  induction xs with
  | nil => simp [emitInner]
  | cons d r ih =>
    simp only [List.cons_append]
    cases d <;> simp [emitInner, ih, List.append_assoc, String.append_assoc]

/-! ### MATLAB side -/

/-- MATLAB generator: wrapping an IGNORED class does nothing at all — no classdef text, no id allocated (so every later call
    site keeps the id it has when the declaration is deleted), no enumeration folder pushed, no include recorded: the state of
    the generator after the class is the state before it.  (The key is the qualified name without a leading `::`, for a
    global class the bare name — fix 0f2adfb.)  That the whole toolbox with the class ignored equals the toolbox with its
    declaration deleted is decided per run by correspondence and the ignore = delete oracle. -/
theorem C15_matlab_ignored_class_no_effect (cfg : Matlab.MCfg) (c : IClass) (ns : String) (s : Matlab.St)
    (h : cfg.ignore.contains (joinWith "::" (c.nsPath.drop 1 ++ [c.name])) = true) :
    (Matlab.wrapInstantiatedClass cfg c ns).run s = .ok (none, s) := by
  have h' : joinWith "::" (c.nsPath.tail ++ [c.name]) ∈ cfg.ignore := by simpa using h
  unfold Matlab.wrapInstantiatedClass
  simp [h']
  rfl

section MatlabIds
open WrapModel.Matlab.Ids

theorem sites_sublist {α : Type} {ops₁ ops₂ : List (Op α)} (h : ops₁.Sublist ops₂) : ∀ (n₁ n₂ : Nat),
    ((sites n₁ ops₁).map (·.2)).Sublist ((sites n₂ ops₂).map (·.2)) := by
  induction h with
  | slnil => intro _ _; simp [sites]
  | cons o _ ih =>
    intro n₁ n₂
    cases o with
    | plain a => simp only [sites, List.map_cons]; exact (ih n₁ (n₂ + 1)).trans (List.sublist_cons_self _ _)
    | virt a =>
      simp only [sites, List.map_cons]
      exact ((ih n₁ (n₂ + 2)).trans (List.sublist_cons_self _ _)).trans (List.sublist_cons_self _ _)
  | cons_cons o _ ih =>
    intro n₁ n₂
    cases o with
    | plain a => simp only [sites, List.map_cons]; exact (ih (n₁ + 1) (n₂ + 1)).cons_cons _
    | virt a => simp only [sites, List.map_cons]; exact ((ih (n₁ + 2) (n₂ + 2)).cons_cons _).cons_cons _

/-- **MATLAB gateway: removing allocations removes their call sites only.**  For every allocation history and every
    sub-history (the allocations of an ignored or deleted class dropped, wherever they stand): the (role, payload)
    sequence the gateway dispatches for the shorter history is a sub-sequence of the one for the longer history — every
    surviving call site still reaches the routine (or up-cast) of its own payload, in the same relative order; only
    the numeric ids shift. -/
theorem C15_matlab_removal_keeps_other_call_sites {α : Type} (ops₁ ops₂ : List (Op α)) (h : ops₁.Sublist ops₂) :
    let s₁ := run {} ops₁
    let s₂ := run {} ops₂
    ((caseTable s₁.entries s₁.next (s₁.next + 1) 0 none).map (fun x => (x.2.1, x.2.2.payload))).Sublist
      ((caseTable s₂.entries s₂.next (s₂.next + 1) 0 none).map (fun x => (x.2.1, x.2.2.payload))) := by
  intro s₁ s₂
  have e : ∀ ops : List (Op α), (caseTable (run {} ops).entries (run {} ops).next ((run {} ops).next + 1) 0 none).map
      (fun x => (x.2.1, x.2.2.payload)) = (sites 0 ops).map (·.2) := by
    intro ops
    have := WrapModel.Props.C05.C05_dispatch_table_is_call_sites ops
    simp only at this
    rw [← this, List.map_map]
    rfl
  show List.Sublist (List.map _ (caseTable (run {} ops₁).entries _ _ 0 none)) (List.map _ (caseTable (run {} ops₂).entries _ _ 0 none))
  rw [e ops₁, e ops₂]
  exact sites_sublist h 0 0

/-- non-vacuity: the virtual class `B` removed from between `a` and `c` -/
example : [Op.plain "a", Op.plain "c"].Sublist [Op.plain "a", Op.virt "B", Op.plain "c"] :=
  .cons_cons _ (.cons _ (.cons_cons _ .slnil))

end MatlabIds

end WrapModel.Props.C15
