import WrapModel.Lemmas.GatewayLemmas

/-!
  # Property C11 — MEX gateway calls never leak or double-free

  Statements are about the model `WrapModel.Gateway` (see `Model/Runtime/Gateway.lean`), whose
  agreement with the generated code and `matlab.h` is checked on random call histories by
  `harness/c11/run_c11.py`.  The part of C11 that says "the call executes the declared entity
  with the supplied argument values" is checked by that correspondence only (call trace and
  result value of every step); the theorems here are about ownership.
-/

namespace WrapModel.Gateway

/-- The ownership invariant of a gateway session, between two operations. -/
structure GwInv (tbl : ClassTable) (s : State) : Prop where
  /-- a cell's `shared_ptr` points to an object that exists -/
  cell_obj : ∀ (a : Nat) (x : Cell), s.cells[a]? = some x → x.obj < s.objs.length
  /-- every live cell is in the collector of its static class … -/
  live_in_own_collector : ∀ (a : Nat) (x : Cell), s.cells[a]? = some x → x.live = true →
    (x.cls, a) ∈ s.coll
  /-- … a collector only holds live cells of its own class, hence a live cell is in exactly
      one collector … -/
  collector_sound : ∀ (c a : Nat), (c, a) ∈ s.coll →
    ∃ x : Cell, s.cells[a]? = some x ∧ x.live = true ∧ x.cls = c
  /-- … exactly once -/
  collector_nodup : s.coll.Nodup
  /-- as soon as a collector is non-empty, `_deleteAllObjects` is registered with `mexAtExit` -/
  atexit_registered : s.coll ≠ [] → s.atExit = true
  /-- no cell is released twice: `delete` was applied to an address once iff it is dead -/
  released_once : ∀ (a : Nat) (x : Cell), s.cells[a]? = some x →
    x.released = if x.live then 0 else 1
  /-- use count = live cells pointing to the object + external owners -/
  strong_count : ∀ (o : Nat) (y : Obj), s.objs[o]? = some y →
    y.strong = s.cells.countP (pointsTo o) + y.ext
  /-- an object is alive exactly while its use count is positive … -/
  alive_iff : ∀ (o : Nat) (y : Obj), s.objs[o]? = some y → (y.alive = true ↔ 0 < y.strong)
  /-- … and its destructor has run exactly once when it is not (never twice) -/
  destroyed_once : ∀ (o : Nat) (y : Obj), s.objs[o]? = some y →
    y.destroyed = if y.alive then 0 else 1
  /-- a valid MATLAB handle holds one live cell per inheritance level of its classdef, of the
      level's class, at distinct addresses, all pointing to the same object -/
  handle_levels : ∀ (h : Nat) (hd : Handle), s.handles[h]? = some hd → HValid hd →
    HandleOK tbl s hd
  /-- two different valid handles never share a cell -/
  handle_exclusive : ∀ (h1 h2 : Nat) (hd1 hd2 : Handle) (p1 p2 : Nat × Nat),
    s.handles[h1]? = some hd1 → s.handles[h2]? = some hd2 → HValid hd1 → HValid hd2 →
    p1 ∈ hd1.ptrs → p2 ∈ hd2.ptrs → p1.2 = p2.2 → h1 = h2
  /-- every live cell is held by some valid handle (nothing dangles in a collector) -/
  cell_owned : ∀ (a : Nat) (x : Cell), s.cells[a]? = some x → x.live = true →
    ∃ (h : Nat) (hd : Handle) (c : Nat), s.handles[h]? = some hd ∧ HValid hd ∧ (c, a) ∈ hd.ptrs

theorem GwInv.toInv {tbl : ClassTable} {s : State} (g : GwInv tbl s) : Inv tbl s NoneSet NoneSet where
  cellObj := g.cell_obj
  collNodup := g.collector_nodup
  collSound := g.collector_sound
  collComplete := fun a x h1 h2 => Or.inl (g.live_in_own_collector a x h1 h2)
  atExitOK := g.atexit_registered
  relOK := g.released_once
  strongOK := g.strong_count
  aliveOK := fun o y h => ⟨g.alive_iff o y h, g.destroyed_once o y h⟩
  handleOK := g.handle_levels
  ownUnique := g.handle_exclusive
  ownBuild := fun _ _ _ _ _ _ hf => hf
  ownComplete := fun a x h1 h2 => Or.inr (g.cell_owned a x h1 h2)

theorem GwInv.ofInv {tbl : ClassTable} {s : State} (i : Inv tbl s NoneSet NoneSet) : GwInv tbl s where
  cell_obj := i.cellObj
  live_in_own_collector := fun a x h1 h2 => (i.collComplete a x h1 h2).elim id False.elim
  collector_sound := i.collSound
  collector_nodup := i.collNodup
  atexit_registered := i.atExitOK
  released_once := i.relOK
  strong_count := i.strongOK
  alive_iff := fun o y h => (i.aliveOK o y h).1
  destroyed_once := fun o y h => (i.aliveOK o y h).2
  handle_levels := i.handleOK
  handle_exclusive := i.ownUnique
  cell_owned := fun a x h1 h2 => (i.ownComplete a x h1 h2).elim False.elim id

/-- Handle `hd` refers to object `o` through one of its `ptr_` properties. -/
def HandleRefers (s : State) (hd : Handle) (o : Nat) : Prop :=
  ∃ (c a : Nat) (x : Cell), (c, a) ∈ hd.ptrs ∧ s.cells[a]? = some x ∧ x.obj = o

/-! ## Theorems -/

/-- The invariant holds before the first gateway call. -/
theorem C11_inv_init (tbl : ClassTable) : GwInv tbl init :=
  GwInv.ofInv (inv_init tbl)

/-- Every operation a session can issue on usable handles preserves the invariant. -/
theorem C11_inv_step {tbl : ClassTable} (hwf : WF tbl) {s : State} (op : Op)
    (g : GwInv tbl s) (hv : opValid true tbl s op = true) : GwInv tbl (step tbl s op) :=
  GwInv.ofInv (inv_step hwf op g.toInv hv)

/-
  Full statement (FALSE for the code generated today, see `C11_history_counterexample`):

    theorem C11_history {tbl} (hwf : WF tbl) (h : List Op) :
        MatlabSession tbl h → GwInv tbl (run tbl h)

  `MatlabSession` only requires what MATLAB guarantees (operations refer to handles that exist
  and have not been deleted).  If the module is unloaded while handles are alive, MATLAB later
  destroys those handles and their `delete` methods call `<C>_deconstructor`, which executes
  `delete self` although the cell is no longer in the collector (`_deleteAllObjects` already
  released it): a double free.  The guard `ValidSession` excludes exactly this.
-/

/-- Any history, of any length, over any class table and any inheritance depth, that does not
    touch a handle that survived an unload keeps the invariant. -/
theorem C11_history_partial {tbl : ClassTable} (hwf : WF tbl) (h : List Op)
    (hv : ValidSession tbl h) : GwInv tbl (run tbl h) :=
  GwInv.ofInv (inv_runFrom hwf h init (inv_init tbl) hv)

/-- Witness table: one class without base. -/
def cexTable : ClassTable := [{ name := "A" }]
/-- `a = A(); clear mex; clear a` -/
def cexHistory : List Op := [Op.construct 0, Op.unload, Op.delete 0]

/-- The full statement fails: a history MATLAB can issue after which a cell has been released
    twice. -/
theorem C11_history_counterexample :
    WF cexTable ∧ MatlabSession cexTable cexHistory ∧ ¬ ValidSession cexTable cexHistory ∧
      ¬ GwInv cexTable (run cexTable cexHistory) := by
  refine ⟨WF_of_wfB (by decide), by decide, by decide, ?_⟩
  intro g
  have h := g.released_once 0 { obj := 0, cls := 0, live := false, released := 2 } (by decide)
  exact absurd h (by decide)

/-- After `delete h` every cell of `h` (one per inheritance level) is dead and was released
    exactly once; before, each was live and never released. -/
theorem C11_delete_once {tbl : ClassTable} {s : State} (h : Nat) (hd : Handle)
    (g : GwInv tbl s) (he : s.handles[h]? = some hd) (hv : HValid hd) :
    GwInv tbl (step tbl s (Op.delete h)) ∧
    ∀ (c a : Nat), (c, a) ∈ hd.ptrs →
      (∃ x : Cell, s.cells[a]? = some x ∧ x.live = true ∧ x.released = 0) ∧
      (∃ x' : Cell, (step tbl s (Op.delete h)).cells[a]? = some x' ∧
        x'.live = false ∧ x'.released = 1) := by
  obtain ⟨i', hh'⟩ := inv_mDelete h hd g.toInv he hv
  refine ⟨GwInv.ofInv i', ?_⟩
  intro c a hm
  obtain ⟨_, _, o, hcells⟩ := g.handle_levels h hd he hv
  obtain ⟨x, hx, hl, _, _⟩ := hcells c a hm
  have hrel := g.released_once a x hx
  rw [hl] at hrel
  refine ⟨⟨x, hx, hl, hrel⟩, ?_⟩
  have hlt : a < (mDelete s h).cells.length := by
    rw [mDelete_cells_length]; exact getElem?_lt hx
  refine ⟨(mDelete s h).cells[a], List.getElem?_eq_getElem hlt, ?_⟩
  have hx' : (mDelete s h).cells[a]? = some (mDelete s h).cells[a] := List.getElem?_eq_getElem hlt
  have hdead : (mDelete s h).cells[a].live = false := by
    cases hq : (mDelete s h).cells[a].live with
    | false => rfl
    | true =>
      exfalso
      rcases i'.ownComplete a _ hx' hq with hf | ⟨h2, hd2, c2, e1, e2, e3⟩
      · exact hf
      · rw [hh'] at e1
        simp only [List.getElem?_set] at e1
        split at e1
        · rename_i heq; subst heq
          split at e1
          · cases e1; cases e2.1
          · cases e1
        · rename_i hne
          exact hne (g.handle_exclusive h h2 hd hd2 (c, a) (c2, a) he e1 hv e2 hm e3 rfl)
  refine ⟨hdead, ?_⟩
  have := i'.relOK a _ hx'
  rw [hdead] at this
  exact this

/-- After the module is unloaded no cell is live, all collectors are empty, and every object
    that has no owner outside the gateway has been destroyed (exactly once). -/
theorem C11_unload_clean {tbl : ClassTable} {s : State} (g : GwInv tbl s) :
    GwInv tbl (step tbl s Op.unload) ∧
    (step tbl s Op.unload).coll = [] ∧
    (∀ (a : Nat) (x : Cell), (step tbl s Op.unload).cells[a]? = some x → x.live = false) ∧
    (∀ (o : Nat) (y : Obj), (step tbl s Op.unload).objs[o]? = some y → y.ext = 0 →
      y.alive = false ∧ y.destroyed = 1) := by
  obtain ⟨i', hc, _⟩ := inv_unload g.toInv
  have hnl := noLive_of_coll_nil i' hc
  refine ⟨GwInv.ofInv i', hc, hnl, ?_⟩
  intro o y hy hext
  have hs := i'.strongOK o y hy
  have hz : (unload s).cells.countP (pointsTo o) = 0 := by
    rw [List.countP_eq_zero]
    intro x hx
    obtain ⟨a, ha⟩ := List.getElem?_of_mem hx
    simp [pointsTo, hnl a x ha]
  have ha := i'.aliveOK o y hy
  have hstrong : y.strong = 0 := by rw [hs, hz, hext]
  have hal : y.alive = false := by
    cases hq : y.alive with
    | false => rfl
    | true => have := ha.1.1 hq; omega
  exact ⟨hal, by rw [ha.2, hal]; rfl⟩

/-- End of session: whatever valid history preceded it, unloading the module leaves no live cell,
    empty collectors, and only objects that the library itself still owns. -/
theorem C11_session_end_clean {tbl : ClassTable} (hwf : WF tbl) (h : List Op)
    (hv : ValidSession tbl h) :
    (run tbl (h ++ [Op.unload])).coll = [] ∧
    (∀ (a : Nat) (x : Cell), (run tbl (h ++ [Op.unload])).cells[a]? = some x → x.live = false) ∧
    (∀ (o : Nat) (y : Obj), (run tbl (h ++ [Op.unload])).objs[o]? = some y → y.ext = 0 →
      y.alive = false ∧ y.destroyed = 1) := by
  have e : run tbl (h ++ [Op.unload]) = step tbl (run tbl h) Op.unload := by
    simp [run, runFrom, List.foldl_append]
  rw [e]
  exact (C11_unload_clean (C11_history_partial hwf h hv)).2

/-- No leak: an object that no valid handle refers to and that has no external owner has been
    destroyed (exactly once). -/
theorem C11_no_leak {tbl : ClassTable} {s : State} (g : GwInv tbl s) (o : Nat) (y : Obj)
    (hy : s.objs[o]? = some y) (hext : y.ext = 0)
    (hno : ∀ (h : Nat) (hd : Handle), s.handles[h]? = some hd → HValid hd →
      ¬ HandleRefers s hd o) :
    y.alive = false ∧ y.destroyed = 1 := by
  have hz : s.cells.countP (pointsTo o) = 0 := by
    rw [List.countP_eq_zero]
    intro x hx hp
    obtain ⟨a, ha⟩ := List.getElem?_of_mem hx
    simp only [pointsTo, Bool.and_eq_true, beq_iff_eq] at hp
    obtain ⟨h, hd, c, e1, e2, e3⟩ := g.cell_owned a x ha hp.1
    exact hno h hd e1 e2 ⟨c, a, x, e3, ha, hp.2⟩
  have hs := g.strong_count o y hy
  have hstrong : y.strong = 0 := by rw [hs, hz, hext]
  have hal : y.alive = false := by
    cases hq : y.alive with
    | false => rfl
    | true => have := (g.alive_iff o y hy).1 hq; omega
  exact ⟨hal, by rw [g.destroyed_once o y hy, hal]; rfl⟩

/-- Conversely nothing is destroyed early: an object some valid handle refers to is alive and
    its use count is at least the number of inheritance levels of that handle's class. -/
theorem C11_no_early_destroy {tbl : ClassTable} {s : State} (g : GwInv tbl s) (h : Nat)
    (hd : Handle) (he : s.handles[h]? = some hd) (hv : HValid hd) (c a : Nat)
    (hm : (c, a) ∈ hd.ptrs) :
    ∃ (x : Cell) (y : Obj), s.cells[a]? = some x ∧ x.live = true ∧ x.cls = c ∧
      s.objs[x.obj]? = some y ∧ y.alive = true := by
  obtain ⟨_, _, o, hcells⟩ := g.handle_levels h hd he hv
  obtain ⟨x, hx, hl, hc, _⟩ := hcells c a hm
  have holt := g.cell_obj a x hx
  refine ⟨x, s.objs[x.obj], hx, hl, hc, List.getElem?_eq_getElem holt, ?_⟩
  have hy := List.getElem?_eq_getElem holt
  have hs := g.strong_count x.obj _ hy
  have hpos : 0 < s.cells.countP (pointsTo x.obj) :=
    countP_pos_of_getElem? hx (by simp [pointsTo, hl])
  exact (g.alive_iff x.obj _ hy).2 (by omega)

/-! ## Non-vacuity -/

/-- `Base` (virtual) and `Derived : Base` (virtual), and an unrelated `Other`. -/
def exTable : ClassTable :=
  [{ name := "Base", isVirtual := true }, { name := "Derived", base := some 0, isVirtual := true },
   { name := "Other" }]

/-- `d = Derived(); b = d.makeBase(); o = Other(); keep(d); clear b; d2 = fetch(); clear d;
    clear mex` -/
def exHistory : List Op :=
  [ Op.construct 1,                                            -- handle 0, object 0 : Derived
    Op.call [Micro.use 0 1, Micro.alloc 1, Micro.ret 1 0, Micro.drop 1],
                                                               -- handle 1 : Base → new Derived object 1
    Op.construct 2,                                            -- handle 2, object 2 : Other
    Op.call [Micro.use 0 0, Micro.hold 0],                     -- library keeps object 0
    Op.delete 1,                                               -- base-typed handle deleted: object 1 dies
    Op.call [Micro.ret 0 0],                                   -- handle 3 : Base → object 0
    Op.delete 0,                                               -- derived handle deleted, object 0 survives
    Op.unload ]

example : WF exTable := WF_of_wfB (by decide)
example : ValidSession exTable exHistory := by decide
example : GwInv exTable (run exTable exHistory) :=
  C11_history_partial (WF_of_wfB (by decide)) exHistory (by decide)
/-- the derived handle had one cell per level (Derived, Base) -/
example : ((run exTable (exHistory.take 1)).handles[0]?).map (·.ptrs) = some [(1, 0), (0, 1)] := by
  decide
/-- after the history: no live cell; object 1 destroyed once; object 0 kept alive by the library,
    object 2 destroyed by the unload -/
example : liveCells (run exTable exHistory) = 0 ∧
    ((run exTable exHistory).objs.map fun y => (y.alive, y.destroyed, y.strong)) =
      [(true, 0, 1), (false, 1, 0), (false, 1, 0)] := by decide


end WrapModel.Gateway
