/-
  C02 — template instantiation is exact, capture-free substitution.
  Property theorems only.  Model: `Inst.instType` (what the code does); spec: `Spec.substType`.

  FULL STATEMENT (false of the code as it is, see the counterexamples below):
    ∀ t, instType tns insts cpp icls t = .ok t' → tyToCpp t' = tyToCpp (substType tns insts this t)
-/
import WrapModel.Model.Inst
import WrapModel.Spec.Subst

namespace WrapModel.Props.C02
open WrapModel WrapModel.Inst WrapModel.Spec

theorem bind_ok {ε α β : Type} {a : Except ε α} {f : α → Except ε β} {r : β} :
    (a >>= f) = .ok r ↔ ∃ x, a = .ok x ∧ f x = .ok r := by
  cases a <;> simp [bind, Except.bind]

/-- argument names and default-value texts are left untouched, whatever the type-level function -/
theorem C02_args_names_defaults (F : TyInst) (tns : List String) (is : List Typename) (cpp : Option Typename)
    (as as' : List Arg) (h : instArgs F tns is cpp as = .ok as') :
    as'.map (·.name) = as.map (·.name) ∧ as'.map (·.default) = as.map (·.default) := by
  induction as generalizing as' with
  | nil => simp [instArgs] at h; subst h; simp
  | cons a r ih =>
    unfold instArgs at h
    simp only [bind_ok, pure, Except.pure] at h
    obtain ⟨t, _, rest, hr, h⟩ := h
    simp only [Except.ok.injEq] at h
    subst h
    have := ih rest hr
    simp [this.1, this.2]

/-- the specification never touches qualifiers (const, `*`, `@`, `&`) -/
theorem C02_spec_quals (tns : List String) (is : List Typename) (this : Option Typename) (t : CType) :
    (substType tns is this t).quals = t.quals := by
  cases t with
  | simple tn q b =>
    obtain ⟨nss, n, ins⟩ := tn
    cases nss <;> cases ins <;> simp only [substType] <;> (try split) <;> (try split) <;> (try split) <;> simp [CType.quals]
  | templ nss n ps q => simp [substType, CType.quals]

/-- the specification leaves a type that mentions neither a parameter nor `This` as its scope head / whole name alone -/
theorem C02_spec_identity_simple (tns : List String) (is : List Typename) (this : Option Typename)
    (nss : List String) (n : String) (q : Quals) (b : Bool)
    (hn : lookupParam tns is n = none) (hT : n ≠ "This")
    (hh : ∀ h, nss.head? = some h → lookupParam tns is h = none ∧ h ≠ "This") :
    substType tns is this (.simple ⟨nss, n, []⟩ q b) = .simple ⟨nss, n, []⟩ q b := by
  cases nss with
  | nil => simp [substType, hn, hT]
  | cons h rest =>
    have := hh h rfl
    simp [substType, substScope, this.1, this.2]

/-! ### counterexamples: the full statement is false of the code as it is -/

def cppOf (r : Except Err CType) : String := match r with | .ok t => tyToCpp t | .error _ => "<error>"

def pose3 : Typename := ⟨["gtsam"], "Pose3", []⟩
def tyT : CType := .simple ⟨[], "T", []⟩ .plain false
def vecOf (t : CType) : CType := .templ ["std"] "vector" [t] .plain

/-- a parameter two levels deep inside template arguments is not substituted -/
theorem C02_counterexample_deep :
    cppOf (instType ["T"] [pose3] none none (vecOf (vecOf tyT))) = "std::vector<std::vector<T>>"
    ∧ tyToCpp (substType ["T"] [pose3] none (vecOf (vecOf tyT))) = "std::vector<std::vector<gtsam::Pose3>>" := by
  decide

/-- scoped names are rewritten by substring replacement: `T::Type` becomes `Pose3::Pose3ype` -/
theorem C02_counterexample_substring :
    cppOf (instType ["T"] [pose3] none none (.simple ⟨["T"], "Type", []⟩ .plain false)) = "gtsam::Pose3::Pose3ype"
    ∧ tyToCpp (substType ["T"] [pose3] none (.simple ⟨["T"], "Type", []⟩ .plain false)) = "gtsam::Pose3::Type" := by
  decide

/-- a qualified name whose last component merely equals a parameter is rewritten -/
theorem C02_counterexample_qualified :
    cppOf (instType ["T"] [pose3] none none (.simple ⟨["ns"], "T", []⟩ .plain false)) = "gtsam::ns::Pose3"
    ∧ tyToCpp (substType ["T"] [pose3] none (.simple ⟨["ns"], "T", []⟩ .plain false)) = "ns::T" := by
  decide

/-- `This` inside template arguments is not replaced by the instantiated class -/
theorem C02_counterexample_this_nested :
    cppOf (instType [] [] (some ⟨["gtsam"], "Foo", []⟩) none (vecOf (.simple ⟨[], "This", []⟩ .plain false))) = "std::vector<This>"
    ∧ tyToCpp (substType [] [] (some ⟨["gtsam"], "Foo", []⟩) (vecOf (.simple ⟨[], "This", []⟩ .plain false))) = "std::vector<gtsam::Foo>" := by
  decide

/-- non-vacuity / agreement on the common cases: exact parameter, first-level argument, `This` -/
example :
    cppOf (instType ["T"] [pose3] none none (.simple ⟨[], "T", []⟩ ⟨true, .ref⟩ false)) = "const gtsam::Pose3&"
    ∧ tyToCpp (substType ["T"] [pose3] none (.simple ⟨[], "T", []⟩ ⟨true, .ref⟩ false)) = "const gtsam::Pose3&"
    ∧ cppOf (instType ["T"] [pose3] none none (vecOf tyT)) = "std::vector<gtsam::Pose3>"
    ∧ tyToCpp (substType ["T"] [pose3] none (vecOf tyT)) = "std::vector<gtsam::Pose3>" := by
  decide

end WrapModel.Props.C02
