/-
  C02 — template instantiation is exact, capture-free substitution.
  Property theorems only.  Model: `Inst.instType` (what the code does); spec: `Spec.substType`.

  FULL STATEMENT (false of the code as it is, see the counterexamples below):
    ∀ t, instType tns insts cpp icls t = .ok t' → tyToCpp t' = tyToCpp (substType tns insts this t)
-/
import WrapModel.Model.Inst
import WrapModel.Spec.Subst
import WrapModel.Lemmas.C02Lemmas

namespace WrapModel.Props.C02
open WrapModel WrapModel.Inst WrapModel.Spec WrapModel.Str WrapModel.C02L

theorem bind_ok {ε α β : Type} {a : Except ε α} {f : α → Except ε β} {r : β} :
    (a >>= f) = .ok r ↔ ∃ x, a = .ok x ∧ f x = .ok r := by
  cases a <;> simp [bind, Except.bind]

/-- argument names and default-value texts are left untouched, whatever the type-level function -/
theorem C02_args_names_defaults (F : TyInst) (tns : List String) (is : List Typename) (cpp : Option Typename)
    (as as' : List Arg) (h : instArgs F tns is cpp as = .ok as') :
    as'.map (·.name) = as.map (·.name) ∧ as'.map (·.default) = as.map (·.default) := by
  induction as generalizing as' with
  | nil => simp [instArgs] at h; subst h; simp
  | cons a r ih =>
    unfold instArgs at h
    simp only [bind_ok, pure, Except.pure] at h
    obtain ⟨t, _, rest, hr, h⟩ := h
    simp only [Except.ok.injEq] at h
    subst h
    have := ih rest hr
    simp [this.1, this.2]

/-- the specification never touches qualifiers (const, `*`, `@`, `&`) -/
theorem C02_spec_quals (tns : List String) (is : List Typename) (this : Option Typename) (t : CType) :
    (substType tns is this t).quals = t.quals := by
  cases t with
  | simple tn q b =>
    obtain ⟨nss, n, ins⟩ := tn
    cases nss <;> cases ins <;> simp only [substType] <;> (try split) <;> (try split) <;> (try split) <;> simp [CType.quals]
  | templ nss n ps q => simp [substType, CType.quals]

/-- the specification leaves a type that mentions neither a parameter nor `This` as its scope head / whole name alone -/
theorem C02_spec_identity_simple (tns : List String) (is : List Typename) (this : Option Typename)
    (nss : List String) (n : String) (q : Quals) (b : Bool)
    (hn : lookupParam tns is n = none) (hT : n ≠ "This")
    (hh : ∀ h, nss.head? = some h → lookupParam tns is h = none ∧ h ≠ "This") :
    substType tns is this (.simple ⟨nss, n, []⟩ q b) = .simple ⟨nss, n, []⟩ q b := by
  cases nss with
  | nil => simp [substType, hn, hT]
  | cons h rest =>
    have := hh h rfl
    simp [substType, substScope, this.1, this.2]

/-! ### counterexamples: the full statement is false of the code as it is -/

def cppOf (r : Except Err CType) : String := match r with | .ok t => tyToCpp t | .error _ => "<error>"

def pose3 : Typename := ⟨["gtsam"], "Pose3", []⟩
def tyT : CType := .simple ⟨[], "T", []⟩ .plain false
def vecOf (t : CType) : CType := .templ ["std"] "vector" [t] .plain

/-- a parameter two levels deep inside template arguments is not substituted -/
theorem C02_counterexample_deep :
    cppOf (instType ["T"] [pose3] none none (vecOf (vecOf tyT))) = "std::vector<std::vector<T>>"
    ∧ tyToCpp (substType ["T"] [pose3] none (vecOf (vecOf tyT))) = "std::vector<std::vector<gtsam::Pose3>>" := by
  decide

/-- scoped names are rewritten by substring replacement: `T::Type` becomes `Pose3::Pose3ype` -/
theorem C02_counterexample_substring :
    cppOf (instType ["T"] [pose3] none none (.simple ⟨["T"], "Type", []⟩ .plain false)) = "gtsam::Pose3::Pose3ype"
    ∧ tyToCpp (substType ["T"] [pose3] none (.simple ⟨["T"], "Type", []⟩ .plain false)) = "gtsam::Pose3::Type" := by
  decide

/-- a qualified name whose last component merely equals a parameter is rewritten -/
theorem C02_counterexample_qualified :
    cppOf (instType ["T"] [pose3] none none (.simple ⟨["ns"], "T", []⟩ .plain false)) = "gtsam::ns::Pose3"
    ∧ tyToCpp (substType ["T"] [pose3] none (.simple ⟨["ns"], "T", []⟩ .plain false)) = "ns::T" := by
  decide

/-- `This` inside template arguments is not replaced by the instantiated class -/
theorem C02_counterexample_this_nested :
    cppOf (instType [] [] (some ⟨["gtsam"], "Foo", []⟩) none (vecOf (.simple ⟨[], "This", []⟩ .plain false))) = "std::vector<This>"
    ∧ tyToCpp (substType [] [] (some ⟨["gtsam"], "Foo", []⟩) (vecOf (.simple ⟨[], "This", []⟩ .plain false))) = "std::vector<gtsam::Foo>" := by
  decide

/-- non-vacuity / agreement on the common cases: exact parameter, first-level argument, `This` -/
example :
    cppOf (instType ["T"] [pose3] none none (.simple ⟨[], "T", []⟩ ⟨true, .ref⟩ false)) = "const gtsam::Pose3&"
    ∧ tyToCpp (substType ["T"] [pose3] none (.simple ⟨[], "T", []⟩ ⟨true, .ref⟩ false)) = "const gtsam::Pose3&"
    ∧ cppOf (instType ["T"] [pose3] none none (vecOf tyT)) = "std::vector<gtsam::Pose3>"
    ∧ tyToCpp (substType ["T"] [pose3] none (vecOf tyT)) = "std::vector<gtsam::Pose3>" := by
  decide


/-! ### agreement inside the guard: the code computes the capture-free substitution -/

/-- **Unqualified simple names** (`T`, `This`, `Pose3`, with any qualifiers): the code computes exactly the
    capture-free substitution.  Guards: the name is a plain identifier; a non-parameter other than `This` does not
    contain the letters `This` (the code's test is a substring test); `This` has a class to denote. -/
theorem C02_unqualified_exact (tns : List String) (insts : List Typename) (cpp icls : Option Typename)
    (n : String) (q : Quals) (b : Bool)
    (hlen : insts.length = tns.length) (hn : noColon n = true)
    (hthis : n = "This" → n ∉ tns → (thisOf icls cpp).isSome = true)
    (hsub : n ≠ "This" → n ∉ tns → pyIn "This" n = false) :
    instType tns insts cpp icls (.simple ⟨[], n, []⟩ q b)
      = .ok (substType tns insts (thisOf icls cpp) (.simple ⟨[], n, []⟩ q b)) := by
  have hsc : isScopedTemplate tns n = none := isScopedTemplate_unscoped tns n (pyIn_sep_noColon n hn)
  cases hi : indexOf? n tns with
  | some k =>
    have hk : k < insts.length := by rw [hlen]; exact indexOf?_lt hi
    have hget : insts[k]? = some insts[k] := by simp [hk]
    simp [instType, CType.typename, tnToCpp_plain, hsc, hi, hget, substType, lookupParam, pure, Except.pure, bind, Except.bind]
  | none =>
    have hnot : n ∉ tns := indexOf?_none_iff.1 hi
    by_cases hT : n = "This"
    · subst hT
      have := hthis rfl hnot
      cases icls with
      | some c => simp [instType, CType.typename, tnToCpp_plain, hsc, hi, substType, lookupParam, thisOf, pure, Except.pure, bind, Except.bind]
      | none =>
        cases cpp with
        | some c => simp [instType, CType.typename, tnToCpp_plain, hsc, hi, substType, lookupParam, thisOf, pure, Except.pure, bind, Except.bind]
        | none => simp [thisOf] at this
    · have hne : (n == "This") = false := by simpa using hT
      simp [instType, CType.typename, tnToCpp_plain, hsc, hi, substType, lookupParam, hne, hsub hT hnot, pure, Except.pure, bind, Except.bind]



/-- **Qualified names that mention no parameter** (`gtsam::Pose3`, `a::b::C`): left alone, as the specification says.
    Guards: every `::`-separated word is a plain identifier that is not a parameter (the code looks for parameters
    among *all* words, not only the head) and does not contain the letters `This`. -/
theorem C02_qualified_other_exact (tns : List String) (insts : List Typename) (cpp icls : Option Typename)
    (h : String) (rest : List String) (n : String) (q : Quals) (b : Bool)
    (hp : ∀ t ∈ tns, noColon t = true)
    (hw : ∀ w ∈ h :: (rest ++ [n]), noColon w = true ∧ w ∉ tns ∧ pyIn "This" w = false) :
    instType tns insts cpp icls (.simple ⟨h :: rest, n, []⟩ q b)
      = .ok (substType tns insts (thisOf icls cpp) (.simple ⟨h :: rest, n, []⟩ q b)) := by
  obtain ⟨y, r, hyr⟩ : ∃ y r, rest ++ [n] = y :: r := by
    cases rest with
    | nil => exact ⟨n, [], rfl⟩
    | cons a t => exact ⟨a, t ++ [n], rfl⟩
  have hstr : tnToCpp ⟨h :: rest, n, []⟩ = joinWith "::" (h :: y :: r) := by
    rw [tnToCpp_qualified]; simp [hyr]
  have hsplit : pySplit (joinWith "::" (h :: y :: r)) "::" = h :: y :: r :=
    pySplit_join h (y :: r) (by intro w hw'; rw [← hyr] at hw'; exact (hw w hw').1)
  have hsc : isScopedTemplate tns (joinWith "::" (h :: y :: r)) = none := by
    apply isScopedTemplate_quiet
    intro t ht hmem
    rw [hsplit, ← hyr] at hmem
    exact (hw t hmem).2.1 ht
  have hidx : indexOf? (joinWith "::" (h :: y :: r)) tns = none := by
    apply indexOf?_none_iff.2
    intro hmem
    have := pyIn_sep_noColon _ (hp _ hmem)
    rw [pyIn_sep_join] at this
    cases this
  have hthis : pyIn "This" (joinWith "::" (h :: y :: r)) = false := by
    rw [pyIn_join "This" (by decide) (by decide)]
    apply List.any_eq_false.2
    intro w hw'
    rw [← hyr] at hw'
    simp [(hw w hw').2.2]
  have hne : (joinWith "::" (h :: y :: r) == "This") = false := by simpa using ne_This_of_pyIn hthis
  have hh := hw h (by simp)
  have hh2 : (h == "This") = false := by simpa using ne_This_of_pyIn hh.2.2
  have hl : lookupParam tns insts h = none := lookupParam_none_of_index (indexOf?_none_iff.2 hh.2.1)
  simp [instType, CType.typename, hstr, hsc, hidx, hne, hthis, substType, substScope, hl, hh2, pure, Except.pure, bind, Except.bind]



/-- **A scoped use of a parameter** (`T::Value`): the code rewrites the *string* `T::Value` with `str.replace`; the
    resulting C++ spelling is the capture-free one.  Guards: plain identifiers, the nested name is not itself a
    parameter, the parameter's spelling does not occur inside the nested name (else: `C02_counterexample_substring`),
    and the instantiation has no template arguments of its own (else they end up behind the nested name). -/
theorem C02_scoped_param_cpp (tns : List String) (insts : List Typename) (cpp icls : Option Typename)
    (T X : String) (q : Quals) (b : Bool) (idx : Nat) (i : Typename)
    (hT : noColon T = true) (hTne : T ≠ "") (hX : noColon X = true)
    (hidx : indexOf? T tns = some idx) (hi : insts[idx]? = some i) (hXp : X ∉ tns)
    (hsub : pyIn T X = false) (hins : i.insts = []) :
    cppOf (instType tns insts cpp icls (.simple ⟨[T], X, []⟩ q b))
      = tyToCpp (substType tns insts (thisOf icls cpp) (.simple ⟨[T], X, []⟩ q b)) := by
  have hstr : tnToCpp ⟨[T], X, []⟩ = joinWith "::" [T, X] := by rw [tnToCpp_qualified]; rfl
  have hsplit : pySplit (joinWith "::" [T, X]) "::" = [T, X] :=
    pySplit_join T [X] (by intro w hw; simp at hw; rcases hw with rfl | rfl <;> assumption)
  have hsc : isScopedTemplate tns (joinWith "::" [T, X]) = some (T, idx) := by
    unfold isScopedTemplate
    have := isScopedTemplate_go_first (joinWith "::" [T, X]) (pySplit (joinWith "::" [T, X]) "::") (pyIn_sep_join T X []) T
      (by rw [hsplit]; simp) tns 0 idx
      (by intro t ht hm; rw [hsplit] at hm; simp at hm; rcases hm with rfl | rfl; rfl; exact absurd ht hXp) hidx
    simpa using this
  have hl : lookupParam tns insts T = some i := by simp [lookupParam, hidx, hi]
  obtain ⟨ins, inm, iis⟩ := i
  simp only at hins; subst hins
  simp only [instType, CType.typename, hstr, hsc, hi, pyReplace_scoped T X inm hT hTne hsub, pure, Except.pure, bind, Except.bind,
    cppOf, tyToCpp, substType, substScope, hl, scopeName, List.isEmpty_nil, ite_true, tnToCpp_qualified]
  rw [joinWith_scoped_tail]
  simp



/-- **`This::X` at top level** of a member type: exact when the class is at global scope and is not an instantiation
    (PARTIAL: the code inserts only the class *name*; for a namespaced class see `C02_counterexample_this_scope_namespaced`). -/
theorem C02_this_scope_partial (tns : List String) (insts : List Typename) (cn X : String) (q : Quals) (b : Bool)
    (hp : ∀ t ∈ tns, noColon t = true) (hX : noColon X = true)
    (hT : "This" ∉ tns) (hXp : X ∉ tns) :
    instType tns insts (some ⟨[], cn, []⟩) none (.simple ⟨["This"], X, []⟩ q b)
      = .ok (substType tns insts (thisOf none (some ⟨[], cn, []⟩)) (.simple ⟨["This"], X, []⟩ q b)) := by
  have hstr : tnToCpp ⟨["This"], X, []⟩ = joinWith "::" ["This", X] := by rw [tnToCpp_qualified]; rfl
  have hsplit : pySplit (joinWith "::" ["This", X]) "::" = ["This", X] :=
    pySplit_join "This" [X] (by intro w hw; simp at hw; rcases hw with rfl | rfl; decide; assumption)
  have hsc : isScopedTemplate tns (joinWith "::" ["This", X]) = none := by
    apply isScopedTemplate_quiet
    intro t ht hm
    rw [hsplit] at hm; simp at hm
    rcases hm with rfl | rfl
    · exact hT ht
    · exact hXp ht
  have hidx : indexOf? (joinWith "::" ["This", X]) tns = none := by
    apply indexOf?_none_iff.2
    intro hmem
    have := pyIn_sep_noColon _ (hp _ hmem)
    rw [pyIn_sep_join] at this
    cases this
  have hin : pyIn "This" (joinWith "::" ["This", X]) = true := by
    rw [pyIn_join "This" (by decide) (by decide)]; simp [pyIn_This_This]
  have hne : (joinWith "::" ["This", X] == "This") = false := by
    have : joinWith "::" ["This", X] ≠ "This" := by
      intro e
      have h1 := pyIn_sep_join "This" X []
      rw [e] at h1
      revert h1; decide
    simpa using this
  have hl : lookupParam tns insts "This" = none := lookupParam_none_of_index (indexOf?_none_iff.2 hT)
  simp [instType, CType.typename, hstr, hsc, hidx, hne, hin, setTypeNamespaces, replaceFirst, substType, substScope, hl, thisOf,
    scopeName, pure, Except.pure, bind, Except.bind]

/-- for a namespaced class the code drops the namespaces (known finding C02-7) -/
theorem C02_counterexample_this_scope_namespaced :
    cppOf (instType [] [] (some ⟨["gtsam"], "Foo", []⟩) none (.simple ⟨["This"], "Params", []⟩ .plain false)) = "Foo::Params"
    ∧ tyToCpp (substType [] [] (some ⟨["gtsam"], "Foo", []⟩) (.simple ⟨["This"], "Params", []⟩ .plain false)) = "gtsam::Foo::Params" := by
  decide

/-- a scoped use of a parameter whose instantiation is itself templated is misspelled (known finding C02-5):
    the guard `i.insts = []` of `C02_scoped_param_cpp` is necessary -/
theorem C02_counterexample_scoped_templated_inst :
    cppOf (instType ["U"] [⟨[], "Test", [⟨[], "char", []⟩]⟩] none none (.simple ⟨["U"], "Type", []⟩ .plain false)) = "Test::Type<char>"
    ∧ tyToCpp (substType ["U"] [⟨[], "Test", [⟨[], "char", []⟩]⟩] none (.simple ⟨["U"], "Type", []⟩ .plain false)) = "Test<char>::Type" := by
  decide

/-- **Templated types** (`std::vector<T>`, `ns::Map<Key, T>`): the code rewrites the first level of arguments by their
    last name and then applies three string tests to the rewritten name.  PARTIAL: inside the guard — every argument
    is a parameter, or a type that mentions no parameter and no `This` at all (a parameter two levels deep is *not*
    substituted: `C02_counterexample_deep`); the string tests stay quiet on the rewritten name — the result is exactly
    the capture-free substitution. -/
theorem C02_templ_first_level_partial (tns : List String) (insts : List Typename) (cpp icls : Option Typename)
    (nss : List String) (n : String) (ps : List CType) (q : Quals)
    (hlen : insts.length = tns.length)
    (hargs : ∀ p ∈ ps, firstLevelOK tns p = true) (hhead : headOK tns nss = true)
    (hq1 : isScopedTemplate tns (tnToCpp ⟨nss, n, typenames (substTypes tns insts (thisOf icls cpp) ps)⟩) = none)
    (hq2 : indexOf? (tnToCpp ⟨nss, n, typenames (substTypes tns insts (thisOf icls cpp) ps)⟩) tns = none)
    (hq3 : pyIn "This" (tnToCpp ⟨nss, n, typenames (substTypes tns insts (thisOf icls cpp) ps)⟩) = false) :
    instType tns insts cpp icls (.templ nss n ps q)
      = .ok (substType tns insts (thisOf icls cpp) (.templ nss n ps q)) := by
  have hne : (tnToCpp ⟨nss, n, typenames (substTypes tns insts (thisOf icls cpp) ps)⟩ == "This") = false := by
    simpa using ne_This_of_pyIn hq3
  simp [instType, rewriteParams_agree tns insts (thisOf icls cpp) hlen ps hargs, CType.typename, hq1, hq2, hq3, hne,
    substType, substScope_headOK tns insts _ _ hhead, pure, Except.pure, bind, Except.bind]



/-- **C02, agreement region (PARTIAL)**: for every type inside the decidable guard `safeTy`, the code's
    `instantiate_type` returns exactly the capture-free substitution of the specification — as a tree, hence in
    every rendering.  Outside the guard the full statement is false (counterexample theorems above). -/
theorem C02_inst_eq_subst_partial (tns : List String) (insts : List Typename) (cpp icls : Option Typename) (t : CType)
    (hp : ∀ t ∈ tns, noColon t = true) (hlen : insts.length = tns.length)
    (h : safeTy tns insts cpp icls t = true) :
    instType tns insts cpp icls t = .ok (substType tns insts (thisOf icls cpp) t) := by
  match t, h with
  | .simple ⟨[], n, []⟩ q b, h =>
    simp only [safeTy, Bool.and_eq_true, Bool.or_eq_true, List.contains_eq_mem, decide_eq_true_eq] at h
    apply C02_unqualified_exact tns insts cpp icls n q b hlen h.1
    · intro hn hnot
      rcases h.2 with hm | hm
      · exact absurd hm hnot
      · simpa [hn] using hm
    · intro hn hnot
      rcases h.2 with hm | hm
      · exact absurd hm hnot
      · have : (n == "This") = false := by simpa using hn
        simpa [this] using hm
  | .simple ⟨a :: rest, n, []⟩ q b, h =>
    simp only [safeTy, List.all_eq_true, Bool.and_eq_true, Bool.not_eq_true', List.contains_eq_mem, decide_eq_false_iff_not] at h
    exact C02_qualified_other_exact tns insts cpp icls a rest n q b hp (fun w hw => ⟨(h w hw).1.1, (h w hw).1.2, (h w hw).2⟩)
  | .simple ⟨_, _, _ :: _⟩ _ _, h => simp [safeTy] at h
  | .templ nss n ps q, h =>
    simp only [safeTy, Bool.and_eq_true, List.all_eq_true, Option.isNone_iff_eq_none, Bool.not_eq_true'] at h
    exact C02_templ_first_level_partial tns insts cpp icls nss n ps q hlen h.1.1 h.1.2 h.2.1.1 h.2.1.2 h.2.2

/-- the same for whole argument lists: names, defaults and every type are those of the specification -/
theorem C02_args_eq_subst_partial (tns : List String) (insts : List Typename) (cpp : Option Typename)
    (hp : ∀ t ∈ tns, noColon t = true) (hlen : insts.length = tns.length) :
    ∀ (as : List Arg), (∀ a ∈ as, safeTy tns insts cpp none a.ctype = true) →
      instArgs instType tns insts cpp as = instArgs specTyInst tns insts cpp as
  | [], _ => rfl
  | a :: as, h => by
    have ih := C02_args_eq_subst_partial tns insts cpp hp hlen as (fun a' ha' => h a' (by simp [ha']))
    have h1 := C02_inst_eq_subst_partial tns insts cpp none a.ctype hp hlen (h a (by simp))
    simp only [instArgs, ih, h1, specTyInst, thisOf]

/-- non-vacuity: concrete types of each kind are inside the guard, and the code's result on them is the substitution -/
example :
    safeTy ["T", "U"] [pose3, ⟨[], "double", []⟩] (some ⟨["gtsam"], "Foo", []⟩) none (.simple ⟨[], "T", []⟩ ⟨true, .ref⟩ false) = true
    ∧ safeTy ["T", "U"] [pose3, ⟨[], "double", []⟩] (some ⟨["gtsam"], "Foo", []⟩) none (.simple ⟨[], "This", []⟩ .plain false) = true
    ∧ safeTy ["T", "U"] [pose3, ⟨[], "double", []⟩] (some ⟨["gtsam"], "Foo", []⟩) none (.simple ⟨["gtsam", "noise"], "Base", []⟩ ⟨false, .shared⟩ false) = true
    ∧ safeTy ["T", "U"] [pose3, ⟨[], "double", []⟩] (some ⟨["gtsam"], "Foo", []⟩) none
        (.templ ["std"] "map" [.simple ⟨[], "U", []⟩ .plain false, .simple ⟨[], "T", []⟩ .plain false, vecOf (.simple ⟨["gtsam"], "Point3", []⟩ .plain false)] .plain) = true
    ∧ safeTy ["T"] [pose3] none none (vecOf (vecOf tyT)) = false
    ∧ safeTy ["T"] [pose3] none none (.simple ⟨["ns"], "T", []⟩ .plain false) = false := by
  decide


end WrapModel.Props.C02
