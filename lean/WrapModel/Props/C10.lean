/-
  C10 — the MATLAB toolbox contains exactly the declared classes, functions, enums.
  Property theorems only (structure of the generated file tree, `Model/Matlab/MFiles.lean`, `Cpp.lean`).
-/
import WrapModel.Model.Matlab.Cpp
import WrapModel.Lemmas.GroupLemmas

namespace WrapModel.Props.C10
open WrapModel WrapModel.Inst WrapModel.Matlab

/-- enumerators are numbered 0 .. n-1 in declared order -/
theorem C10_enum_numbering (e : EnumDecl) :
    (wrapEnum e).1 = e.name ++ ".m" ∧
    wrapEnum.go 0 e.enumerators = (List.range e.enumerators.length).zipWith (fun i x => x ++ "(" ++ toString i ++ ")") e.enumerators := by
  refine ⟨rfl, ?_⟩
  suffices h : ∀ (xs : List String) (k : Nat),
      wrapEnum.go k xs = (List.range' k xs.length).zipWith (fun i x => x ++ "(" ++ toString i ++ ")") xs by
    simpa [List.range_eq_range'] using h e.enumerators 0
  intro xs
  induction xs with
  | nil => intro k; simp [wrapEnum.go]
  | cons x r ih => intro k; simp [wrapEnum.go, ih (k + 1), List.range'_succ]

/-- the package folder of a namespace path is `+a/+b/…` -/
theorem C10_package_path (ns : List String) :
    packagePath ("" :: ns) = ((String.join (ns.map fun x => "+" ++ x ++ "/")).dropEnd 1).toString := rfl

/-- the file tree keeps one entry per path (later writes replace earlier ones): paths are pairwise distinct -/
theorem C10_file_tree_paths_nodup (writes : List (String × String)) : ((fileTree writes).map (·.1)).Nodup := by
  unfold fileTree
  suffices h : ∀ (ws acc : List (String × String)), (acc.map (·.1)).Nodup → ((fileTree.go acc ws).map (·.1)).Nodup from
    h writes [] (by simp)
  intro ws
  induction ws with
  | nil => intro acc h; simpa [fileTree.go] using h
  | cons w r ih =>
    intro acc h
    obtain ⟨p, t⟩ := w
    unfold fileTree.go
    split
    · apply ih
      have : (acc.map fun x => if x.1 == p then (x.1, t) else (x.1, x.2)).map (·.1) = acc.map (·.1) := by
        simp only [List.map_map]; apply List.map_congr_left; intro x _; simp only [Function.comp]; split <;> rfl
      rw [this]; exact h
    · next hnot =>
      apply ih
      simp only [List.map_append, List.map_cons, List.map_nil]
      refine List.nodup_append.2 ⟨h, by simp, ?_⟩
      intro a ha b hb
      simp only [List.mem_singleton] at hb
      subst hb
      intro heq
      subst heq
      obtain ⟨x, hx, hxa⟩ := List.mem_map.1 ha
      exact hnot (List.any_eq_true.2 ⟨x, hx, by simp [hxa]⟩)

theorem fileTree_go_paths (q : String) : ∀ (ws acc : List (String × String)),
    q ∈ (fileTree.go acc ws).map (·.1) ↔ (q ∈ acc.map (·.1) ∨ q ∈ ws.map (·.1)) := by
  intro ws
  induction ws with
  | nil => intro acc; simp [fileTree.go]
  | cons w r ih =>
    intro acc
    obtain ⟨p, t⟩ := w
    unfold fileTree.go
    split
    · next hany =>
      rw [ih]
      have : (acc.map fun x => if x.1 == p then (x.1, t) else (x.1, x.2)).map (·.1) = acc.map (·.1) := by
        simp only [List.map_map]; apply List.map_congr_left; intro x _; simp only [Function.comp]; split <;> rfl
      rw [this]
      simp only [List.map_cons, List.mem_cons]
      constructor
      · rintro (h | h)
        · exact Or.inl h
        · exact Or.inr (Or.inr h)
      · rintro (h | h | h)
        · exact Or.inl h
        · obtain ⟨x, hx, hxp⟩ := List.any_eq_true.1 hany
          subst h
          exact Or.inl (List.mem_map.2 ⟨x, hx, by simpa using hxp⟩)
        · exact Or.inr h
    · rw [ih]
      simp only [List.map_append, List.map_cons, List.map_nil, List.mem_append, List.mem_cons]
      simp only [List.not_mem_nil, or_false]
      constructor
      · rintro ((h | h) | h)
        · exact Or.inl h
        · exact Or.inr (Or.inl h)
        · exact Or.inr (Or.inr h)
      · rintro (h | h | h)
        · exact Or.inl (Or.inl h)
        · exact Or.inl (Or.inr h)
        · exact Or.inr h

/-- **the toolbox holds exactly the paths that were written**: no file is lost by the replacement of an earlier write
    and none is invented — for every sequence of writes -/
theorem C10_file_tree_paths_exact (writes : List (String × String)) (q : String) :
    q ∈ (fileTree writes).map (·.1) ↔ q ∈ writes.map (·.1) := by
  unfold fileTree
  rw [fileTree_go_paths]
  simp
/-- non-vacuity: a path written twice appears once, the other one is kept -/
example : (fileTree [("+a/f.m", "1"), ("g.m", "2"), ("+a/f.m", "3")]).map (·.1) = ["+a/f.m", "g.m"] := by decide

/-- content of path `q` in an association list (first entry) -/
def contentOf (q : String) : List (String × String) → Option String
  | [] => none
  | (a, u) :: r => if a = q then some u else contentOf q r

theorem contentOf_update (q p t : String) (acc : List (String × String)) :
    contentOf q (acc.map fun (a, u) => if a == p then (a, t) else (a, u)) =
      if p = q then (contentOf q acc).map (fun _ => t) else contentOf q acc := by
  induction acc with
  | nil => simp [contentOf]
  | cons x r ih =>
    obtain ⟨a, u⟩ := x
    simp only [List.map_cons, beq_iff_eq]
    by_cases hap : a = p <;> by_cases haq : a = q <;> by_cases hpq : p = q <;>
      simp_all [contentOf]

theorem contentOf_append (q : String) (a b : List (String × String)) :
    contentOf q (a ++ b) = (contentOf q a).or (contentOf q b) := by
  induction a with
  | nil => simp [contentOf]
  | cons x r ih =>
    obtain ⟨c, u⟩ := x
    by_cases h : c = q <;> simp [contentOf, h, ih]

theorem contentOf_none_of_not_any (p : String) (acc : List (String × String)) (h : ¬ acc.any (·.1 == p) = true) :
    contentOf p acc = none := by
  induction acc with
  | nil => rfl
  | cons x r ih =>
    obtain ⟨c, u⟩ := x
    simp only [List.any_cons, Bool.or_eq_true, not_or, beq_iff_eq] at h
    simp [contentOf, h.1, ih (by simpa using h.2)]

theorem contentOf_some_of_any (p : String) (acc : List (String × String)) (h : acc.any (·.1 == p) = true) :
    ∃ v, contentOf p acc = some v := by
  induction acc with
  | nil => simp at h
  | cons x r ih =>
    obtain ⟨c, u⟩ := x
    by_cases hc : c = p
    · exact ⟨u, by simp [contentOf, hc]⟩
    · simp only [List.any_cons, Bool.or_eq_true, beq_iff_eq, hc, false_or] at h
      obtain ⟨v, hv⟩ := ih h
      exact ⟨v, by simp [contentOf, hc, hv]⟩

theorem fileTree_go_content (q : String) : ∀ (ws acc : List (String × String)),
    contentOf q (fileTree.go acc ws) = (contentOf q ws.reverse).or (contentOf q acc) := by
  intro ws
  induction ws with
  | nil => intro acc; simp [fileTree.go, contentOf]
  | cons w r ih =>
    intro acc
    obtain ⟨p, t⟩ := w
    unfold fileTree.go
    rw [List.reverse_cons, contentOf_append]
    split
    · next hany =>
      rw [ih, contentOf_update]
      cases hr : contentOf q r.reverse with
      | some v => simp
      | none =>
        by_cases hpq : p = q
        · subst hpq
          obtain ⟨v, hv⟩ := contentOf_some_of_any p acc hany
          simp [hv, contentOf]
        · simp [hpq, contentOf]
    · next hnot =>
      rw [ih, contentOf_append]
      cases hr : contentOf q r.reverse with
      | some v => simp
      | none =>
        by_cases hpq : p = q
        · subst hpq
          simp [contentOf_none_of_not_any p acc hnot, contentOf]
        · simp [hpq, contentOf]

/-- **the last write wins**: the content of every path in the toolbox is the text of the LAST write to it -/
theorem C10_file_tree_last_write_wins (writes : List (String × String)) (q : String) :
    contentOf q (fileTree writes) = contentOf q writes.reverse := by
  unfold fileTree
  rw [fileTree_go_content]
  simp [contentOf]
/-- non-vacuity: `+a/f.m` written twice keeps the second text, at its first position -/
example : fileTree [("+a/f.m", "1"), ("g.m", "2"), ("+a/f.m", "3")] = [("+a/f.m", "3"), ("g.m", "2")] := by decide

/-- exactly one MEX source is produced, named `<module>_wrapper.cpp` -/
theorem C10_one_mex_source (cfg : MCfg) (im : List IDecl) (files : List (String × String))
    (h : wrapModule cfg im = .ok files) : (files.filter (fun f => f.1 == cfg.wrapper ++ ".cpp")).length ≤ 1 := by
  unfold wrapModule at h
  simp only [bind, Except.bind] at h
  split at h
  · simp at h
  · split at h
    · simp at h
    · simp only [pure, Except.pure, Except.ok.injEq] at h
      subst h
      have hn := C10_file_tree_paths_nodup (List.flatMap flatten (‹Unit × St›.2.content ++ [Content.file (cfg.wrapper ++ ".cpp") ‹String›]))
      generalize fileTree _ = ft at hn ⊢
      induction ft with
      | nil => simp
      | cons f r ih =>
        simp only [List.map_cons, List.nodup_cons] at hn
        simp only [List.filter_cons]
        split
        · next heq =>
          have hf : f.1 = cfg.wrapper ++ ".cpp" := by simpa using heq
          have : r.filter (fun f => f.1 == cfg.wrapper ++ ".cpp") = [] := by
            rw [List.filter_eq_nil_iff]
            intro g hg hge
            have : g.1 = cfg.wrapper ++ ".cpp" := by simpa using hge
            exact hn.1 (List.mem_map.2 ⟨g, hg, by rw [this, hf]⟩)
          simp [this]
        · exact ih hn.2

/-- ONE file per free function name, ONE method block per method name, holding every overload.  `_group_methods`
    (used for free functions in declaration order, for methods and static methods after sorting by name) returns one
    group per distinct name, in first-occurrence order; the group of a name holds the default-expanded overloads of ALL
    declarations of that name — whether or not they are declared next to each other — in declaration order; and it
    succeeds only if every declaration's defaults are trailing. -/
theorem C10_overloads_grouped_by_name {α : Type} (name : α → String) (args : α → List Arg) (ms : List α)
    (gs : List (String × List (Ovl α))) (h : groupBy name args ms = .ok gs) :
    gs.map (·.1) = (ms.map name).eraseDups ∧ (gs.map (·.1)).Nodup ∧
    (∀ m ∈ ms, expandDefaults m (args m) = .ok (ovlsOf args m)) ∧
    ∀ n ∈ ms.map name, gs.lookup n = some ((ms.filter fun m => name m == n).flatMap (ovlsOf args)) :=
  groupBy_spec name args ms gs h

/-- non-vacuity: `f`, `g`, `f` — two groups, the second `f` joins the first -/
example : (groupBy (α := String × Nat) (·.1) (fun _ => []) [("f", 1), ("g", 2), ("f", 3)]).toOption.map
      (fun gs => gs.map fun g => (g.1, g.2.map (·.base.2))) = some [("f", [1, 3]), ("g", [2])] := by decide

/-- non-vacuity -/
example : (wrapEnum ⟨.enum, "Kind", ["Dog", "Cat"]⟩).2 = "classdef Kind < uint32\n    enumeration\n        Dog(0)\n        Cat(1)\n    end\nend\n" := by decide

end WrapModel.Props.C10
