/-
  C05 — MATLAB call-site ids and the MEX dispatch table always agree.
  Property theorems only.  The id allocator and the re-walk of `mex_function` / `generate_wrapper` are the pure
  state machine `Model/Matlab/Ids.lean`, which the MATLAB emitter model (`MFiles.lean`, `Cpp.lean`) is built on:
  every `.m` call site is issued by `IdState.alloc` / `IdState.allocVirtual`, the `case` table and the routine
  definitions are printed from `Ids.caseTable`.
-/
import WrapModel.Lemmas.IdsLemmas
import WrapModel.Model.Matlab.Cpp

namespace WrapModel.Props.C05
open WrapModel.Matlab.Ids

/-- MAIN THEOREM.  For every allocation history (any number and order of plain and virtual allocations — classes,
    constructors, destructors, methods, properties, statics, serialization, functions), the dispatch table that
    `mex_function` computes by re-walking `0 .. n-1` is exactly the list of call sites the `.m` files were given:
    same ids, in order, each dispatched to the routine (or up-cast) of the very payload it was allocated for. -/
theorem C05_dispatch_table_is_call_sites (ops : List (Op α)) :
    let st := run {} ops
    (caseTable st.entries st.next (st.next + 1) 0 none).map (fun x => (x.1, x.2.1, x.2.2.payload)) = sites 0 ops := by
  have h := run_eq ({} : IdState α) ops
  simp only at h
  simp only [h, List.nil_append]
  exact caseTable_sites ops 0 _ (by omega)

/-- ids are unique and contiguous from zero: the cases are exactly `0, 1, …, n-1`, each once -/
theorem C05_ids_contiguous (ops : List (Op α)) :
    let st := run {} ops
    (caseTable st.entries st.next (st.next + 1) 0 none).map (·.1) = List.range st.next := by
  have h := C05_dispatch_table_is_call_sites ops
  have h2 := congrArg (List.map (·.1)) h
  simp only [List.map_map] at h2
  have hr := run_eq ({} : IdState α) ops
  simp only at hr
  simp only [hr] at h2 ⊢
  have : ((fun x : Nat × Role × α => x.1) ∘ fun x : Nat × Role × IdEntry α => (x.1, x.2.1, x.2.2.payload)) = (·.1) := rfl
  rw [this] at h2
  rw [h2, sites_ids]
  simp [List.range_eq_range']

/-- every routine is defined once: no two map entries carry the same name suffix -/
theorem C05_routine_names_distinct (ops : List (Op α)) : ((run {} ops).entries.map (·.shown)).Nodup := by
  have h := run_eq ({} : IdState α) ops
  simp only at h
  simp only [h, List.nil_append]
  exact shown_nodup ops 0

/-- a plain allocation hands the `.m` file the id under which its routine is dispatched;
    a virtual-class allocation hands out `k` (collector registration) and `k + 1` (up-cast of the same class) -/
theorem C05_alloc_ids (s : IdState α) (a : α) :
    (s.alloc a).2 = s.next ∧ (s.alloc a).1.next = s.next + 1 ∧
    (s.allocVirtual a).2 = s.next ∧ (s.allocVirtual a).1.next = s.next + 2 := ⟨rfl, rfl, rfl, rfl⟩

/-- the tie between the emitter model and the state machine above: every id the MATLAB emitter (`Model/Matlab/MFiles.lean`) prints into
    a `.m` file is the one `IdState.alloc` hands out on the emitter's current id state, and the emitter's state advances by exactly that
    allocation (nothing else of the state changes) — so the history of the emitter's id state is an allocation history in the sense of
    `C05_dispatch_table_is_call_sites` -/
theorem C05_emitter_allocates_through_the_state_machine (ns : String) (target : WrapModel.Matlab.Target) (kind : String)
    (extra : WrapModel.Matlab.Extra) (fname : Option String) (s : WrapModel.Matlab.St) :
    (WrapModel.Matlab.allocId ns target kind extra fname).run s =
      .ok ((s.ids.alloc (WrapModel.Matlab.mkPayload ns target kind extra fname)).2,
           { s with ids := (s.ids.alloc (WrapModel.Matlab.mkPayload ns target kind extra fname)).1 }) ∧
    (WrapModel.Matlab.allocVirtualId ns target kind extra).run s =
      .ok ((s.ids.allocVirtual (WrapModel.Matlab.mkPayload ns target kind extra none)).2,
           { s with ids := (s.ids.allocVirtual (WrapModel.Matlab.mkPayload ns target kind extra none)).1 }) := ⟨rfl, rfl⟩

/-- non-vacuity: a non-virtual class with one method, then a virtual class with one constructor -/
example :
    sites 0 [Op.plain "A_collector", .plain "A_ctor", .plain "A_f", .virt "B_collector", .plain "B_ctor"] =
      [(0, .routine, "A_collector"), (1, .routine, "A_ctor"), (2, .routine, "A_f"),
       (3, .routine, "B_collector"), (4, .upcast, "B_collector"), (5, .routine, "B_ctor")] := by decide

theorem total_append (n : Nat) (ops ops' : List (Op α)) : total n (ops ++ ops') = total (total n ops) ops' := by
  induction ops generalizing n with
  | nil => rfl
  | cons o r ih => cases o <;> simp [total, ih]

theorem sites_append (n : Nat) (ops ops' : List (Op α)) :
    sites n (ops ++ ops') = sites n ops ++ sites (total n ops) ops' := by
  induction ops generalizing n with
  | nil => rfl
  | cons o r ih => cases o <;> simp [sites, total, ih]

/-- **earlier call sites are never disturbed by later declarations.**  For every history `ops` and every continuation
    `ops'` (further classes, functions, files): the dispatch table of the longer history begins with the dispatch table
    of `ops` — same ids, same roles, same payloads — and the new cases start at the first free id. -/
theorem C05_history_prefix_stable (ops ops' : List (Op α)) :
    let st := run {} ops
    let st' := run {} (ops ++ ops')
    (caseTable st'.entries st'.next (st'.next + 1) 0 none).map (fun x => (x.1, x.2.1, x.2.2.payload))
      = (caseTable st.entries st.next (st.next + 1) 0 none).map (fun x => (x.1, x.2.1, x.2.2.payload))
        ++ sites st.next ops' := by
  intro st st'
  have h1 := C05_dispatch_table_is_call_sites ops
  have h2 := C05_dispatch_table_is_call_sites (ops ++ ops')
  simp only at h1 h2
  have hn : (run ({} : IdState α) ops).next = total 0 ops := by
    have := run_eq ({} : IdState α) ops
    simp only [this]
  show List.map _ (caseTable (run {} (ops ++ ops')).entries _ _ 0 none) = List.map _ (caseTable (run {} ops).entries _ _ 0 none) ++ sites (run {} ops).next ops'
  rw [h2, h1, sites_append, hn]

/-- non-vacuity: a plain routine and a virtual class, then one more routine: it gets id 3 and the first three cases stay -/
example : sites 0 ([Op.plain "a", Op.virt "B"] ++ [Op.plain "c"]) = sites 0 [Op.plain "a", Op.virt "B"] ++ [(3, Role.routine, "c")] := by decide

end WrapModel.Props.C05
