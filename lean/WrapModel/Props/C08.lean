/-
  C08 — exactly the requested instantiations exist, in order, with stable names.
  Property theorems only.  Model: `Inst.product`, `Inst.instLeaf`, `Inst.instTypedef`, `Inst.instName`.
-/
import WrapModel.Model.Inst
import Mathlib.Data.List.Forall2
import Mathlib.Data.List.Nodup

namespace WrapModel.Props.C08
open WrapModel WrapModel.Inst

/-- `itertools.product` yields exactly the Cartesian product: a tuple is produced iff it picks one
    element of every list, position by position -/
theorem C08_product_mem (ls : List (List α)) (r : List α) :
    r ∈ product ls ↔ List.Forall₂ (fun x l => x ∈ l) r ls := by
  induction ls generalizing r with
  | nil => simp [product]
  | cons xs rest ih =>
    simp only [product, List.mem_flatMap, List.mem_map]
    constructor
    · rintro ⟨x, hx, t, ht, rfl⟩
      exact List.Forall₂.cons hx ((ih t).1 ht)
    · intro h
      cases h with
      | cons hx ht => exact ⟨_, hx, _, (ih _).2 ht, rfl⟩

/-- the number of instantiations is the product of the list lengths -/
theorem C08_product_length (ls : List (List α)) :
    (product ls).length = (ls.map List.length).foldr (· * ·) 1 := by
  induction ls with
  | nil => simp [product]
  | cons xs rest ih =>
    simp only [product, List.map_cons, List.foldr_cons]
    rw [← ih]
    induction xs with
    | nil => simp
    | cons x xs ihx => simp [List.flatMap_cons, ihx, Nat.add_mul]; omega

/-- lexicographic order, first parameter varying slowest: all tuples starting with the first element
    of the first list come first (in the order of the remaining lists), then the others -/
theorem C08_product_order (a : α) (as : List α) (rest : List (List α)) :
    product ((a :: as) :: rest) = (product rest).map (a :: ·) ++ product (as :: rest) := by
  simp [product]

/-- a template one of whose parameters has no instantiation list yields nothing -/
theorem C08_no_list_yields_nothing (ls : List (List α)) (h : [] ∈ ls) : product ls = [] := by
  induction ls with
  | nil => simp at h
  | cons xs rest ih =>
    simp only [product]
    rcases List.mem_cons.1 h with h | h
    · subst h; simp
    · simp [ih h]

/-- every tuple occurs exactly once when the lists have no repetitions -/
theorem C08_product_nodup (ls : List (List α)) (h : ∀ l ∈ ls, l.Nodup) : (product ls).Nodup := by
  induction ls with
  | nil => simp [product]
  | cons xs rest ih =>
    have hx : xs.Nodup := h xs (by simp)
    have hr : (product rest).Nodup := ih (fun l hl => h l (by simp [hl]))
    simp only [product]
    induction xs with
    | nil => simp
    | cons x xs ihx =>
      have hx' := List.nodup_cons.1 hx
      simp only [List.flatMap_cons]
      refine List.nodup_append.2 ⟨?_, ihx (fun l hl => ?_) hx'.2, ?_⟩
      · exact (List.nodup_map_iff (fun _ _ h => by simpa using h)).2 hr
      · rcases List.mem_cons.1 hl with rfl | hl
        · exact hx'.2
        · exact h l (by simp [hl])
      · intro t ht u hu
        simp only [List.mem_map] at ht
        simp only [List.mem_flatMap, List.mem_map] at hu
        obtain ⟨t', _, rfl⟩ := ht
        obtain ⟨y, hy, u', _, rfl⟩ := hu
        intro heq
        have : x = y := by simpa using congrArg List.head? heq
        subst this
        exact hx'.1 hy

/-- a templated class yields one instantiation per tuple of the product, in product order -/
theorem C08_class_instantiations (F : TyInst) (c : ClassDecl) (ps : Template) (p es : List String)
    (h : c.tmpl = some ps) :
    instLeaf F (.cls c) p es =
      mapM' (fun is => do let ic ← instClass F c p is "" es; pure (IDecl.cls ic)) (product (ps.map (·.insts))) := by
  simp [instLeaf, h]

/-- a class without template passes through as exactly one instantiation (with no arguments) -/
theorem C08_plain_class_once (F : TyInst) (c : ClassDecl) (p es : List String) (h : c.tmpl = none) :
    instLeaf F (.cls c) p es = (do let ic ← instClass F c p [] "" es; pure [IDecl.cls ic]) := by
  simp [instLeaf, h]

/-- forward declarations, includes, enums and variables pass through unchanged, exactly once -/
theorem C08_passthrough (F : TyInst) (p es : List String) :
    (∀ v tn par, instLeaf F (.fwd v tn par) p es = .ok [IDecl.fwd v tn par]) ∧
    (∀ h, instLeaf F (.incl h) p es = .ok [IDecl.incl h]) ∧
    (∀ e, instLeaf F (.enum e) p es = .ok [IDecl.enum e]) ∧
    (∀ v, instLeaf F (.var v) p es = .ok [IDecl.var v]) := by
  refine ⟨?_, ?_, ?_, ?_⟩ <;> intros <;> rfl

theorem bind_ok {ε α β : Type} {a : Except ε α} {f : α → Except ε β} {r : β} :
    (a >>= f) = .ok r ↔ ∃ x, a = .ok x ∧ f x = .ok r := by
  cases a <;> simp [bind, Except.bind]

/-- the instantiated class is named by the typedef when one is given, else by `instantiate_name` -/
theorem C08_class_name (F : TyInst) (c : ClassDecl) (p : List String) (is : List Typename) (nn : String)
    (es : List String) (ic : IClass) (h : instClass F c p is nn es = .ok ic) :
    ic.name = (if nn.isEmpty then instName c.name is else nn) ∧ ic.origName = c.name ∧ ic.insts = is ∧ ic.nsPath = p := by
  unfold instClass at h
  by_cases hc : (c.tmpl.isSome && (tmplNames c.tmpl).length != is.length) = true
  · simp [hc, throw, throwThe, MonadExceptOf.throw, bind, Except.bind] at h
  · rw [if_neg hc] at h
    simp only [bind_ok, pure, Except.pure] at h
    obtain ⟨_, _, _, _, _, _, _, _, _, _, _, _, h⟩ := h
    simp only [Except.ok.injEq] at h
    subst h
    simp

/-- a typedef yields exactly one further instantiation, carrying the typedef's name -/
theorem C08_typedef_one (F : TyInst) (root : List MDecl) (tn : Typename) (nn : String) (out : List IDecl)
    (hn : nn.isEmpty = false) (h : instTypedef F root tn nn = .ok out) :
    ∃ d, out = [d] ∧
      (match d with
       | .cls c => c.name = nn ∧ c.insts = tn.insts
       | .func f => (f.hasTmpl = true → f.name = nn) ∧ f.insts = tn.insts
       | .decl fd => fd.name = nn ∧ fd.insts = tn.insts
       | _ => False) := by
  unfold instTypedef at h
  simp only [bind_ok] at h
  obtain ⟨f, _, h⟩ := h
  cases f with
  | cls c p es =>
    simp only [bind_ok, pure, Except.pure] at h
    obtain ⟨ic, hc, h⟩ := h
    injection h with h
    subst h
    have := C08_class_name F c p tn.insts nn es ic hc
    exact ⟨_, rfl, by simp [this.1, hn, this.2.2.1]⟩
  | func t r n as p =>
    simp only [bind_ok, pure, Except.pure] at h
    obtain ⟨fn, hc, h⟩ := h
    injection h with h
    subst h
    refine ⟨_, rfl, ?_⟩
    unfold instFunc at hc
    cases t with
    | none => simp [pure, Except.pure] at hc; subst hc; simp
    | some ps =>
      simp only [bind_ok, pure, Except.pure] at hc
      obtain ⟨_, _, _, _, hc⟩ := hc
      injection hc with hc
      subst hc
      simp [hn]
  | fwd v ftn p =>
    simp [pure, Except.pure] at h
    subst h
    have hn' : nn ≠ "" := by intro h; subst h; simp at hn
    exact ⟨_, rfl, by simp [hn']⟩
  | ifunc f =>
    simp [pure, Except.pure] at h
    subst h
    exact ⟨_, rfl, by simp⟩
  | instantiated => simp [throw, throwThe, MonadExceptOf.throw] at h

/-- non-vacuity: a 2 × 3 product, in the order the property demands -/
example : product [[1, 2], [10, 20, 30]] = [[1, 10], [1, 20], [1, 30], [2, 10], [2, 20], [2, 30]] := by decide

end WrapModel.Props.C08
