/-
  C07 — input is either fully understood or loudly rejected, never half-used.
  Property theorems only: totality, lexical accounting of every accepted text (for every parser program over the
  request interface, hence for the module parser), and concrete loud rejections.
-/
import WrapModel.Model.Parse
import WrapModel.Lemmas.Accounting
import WrapModel.Lemmas.DeclSound
import WrapModel.Lemmas.AgreeLemmas

namespace WrapModel.Props.C07
open WrapModel WrapModel.Parse WrapModel.Tok

/-- the parser is a total function: every input yields a tree or an error (no divergence) — by construction all
    recursion is on fuel; this states the interface -/
theorem C07_total (s : String) : (∃ m, parseModule s = .ok m) ∨ (∃ e, parseModule s = .error e) := by
  cases h : parseModule s with
  | ok m => exact Or.inl ⟨m, rfl⟩
  | error e => exact Or.inr ⟨e, rfl⟩

/-- **C07, lexical accounting — every parser program.**  Whatever a parser written against the request interface does,
    when it succeeds it has moved from `s` to `s'` through successful requests only: each step skipped layout (what
    `skipGap` skips: whitespace and complete comments) and then consumed exactly the text of the token that was asked for
    (`Consumed`).  No other character is ever passed over. -/
theorem C07_accounting_any_parser (p : P α) (s : Lex.Src) (a : α) (s' : Lex.Src) (h : p.run s = .ok (a, s')) :
    Accounted s s' :=
  run_accounted p s a s' h

/-- **C07, lexical accounting — the entry point.**  If `parseModule text` returns a tree, the whole text — up to its very
    end — is a sequence of layout gaps and of tokens, each requested by the grammar at its position; the last request is
    end-of-input, whose `Consumed` clause says that only layout was left. -/
theorem C07_accepted_text_accounted (text : String) (m : Module) (h : parseModule text = .ok m) :
    Accounted text.toList [] := by
  unfold parseModule at h
  simp only at h
  split at h
  · rename_i m' rest hrun
    have := pmodule_ends _ _ _ _ hrun
    subst this
    exact run_accounted _ _ _ _ hrun
  · cases h

/-- the module parser stops only at the end of the input -/
theorem C07_module_ends_at_eof (n : Nat) (s : Lex.Src) (m : Module) (s' : Lex.Src) (h : (pmodule n).run s = .ok (m, s')) :
    s' = [] :=
  pmodule_ends n s m s' h

/-! ### soundness: what was accepted is what the tree says (the converse of C01) -/

/-- **C07, soundness on lexemes — types.**  Whatever canonical lexeme list the type reader accepts (any fuel, any
    continuation), the lexemes it consumed are, token for token, the canonical printing `Spec.tyLex` of the type it
    returned: no token was read and dropped, none was invented. -/
theorem C07_type_sound (n : Nat) (ls rest : List Lexeme) (r : TypeRes) (hc : CanonL ls)
    (h : runL (ptype n) ls = .ok r rest) :
    ∃ consumed, ls = consumed ++ rest ∧ consumed.map lexTok = (Spec.tyLex r.ty).map lexTok := by
  obtain ⟨tr, ht⟩ := runT_of_runL_ok h
  obtain ⟨c, hls, hcm, _⟩ := consumed_tokens _ _ _ _ _ hc ht
  exact ⟨c, hls, by rw [hcm]; exact (ptype_sound n _ _ _ _ hc ht).1⟩

/-- **C07, soundness on lexemes — whole modules.**  If the module reader accepts a canonical lexeme list (words are
    words, punctuation is punctuation; atoms only for what only atoms can be) and returns the tree `m`, then the list
    IS — token for token — the canonical printing of `m` (`Spec.lexemes`): every token of the input is accounted for
    in the tree.  Together with `C01_module_roundtrip_lexemes` (printing then reading gives the tree back) this makes
    reader and printer mutually inverse on the dialect. -/
theorem C07_accepted_lexemes_are_the_tree (n : Nat) (ls rest : List Lexeme) (m : Module) (hc : CanonL ls)
    (h : runL (pmodule n) ls = .ok m rest) :
    rest = [] ∧ ls.map lexTok = (Spec.lexemes m).map lexTok := by
  obtain ⟨tr, ht⟩ := runT_of_runL_ok h
  obtain ⟨c, hls, hcm, _⟩ := consumed_tokens _ _ _ _ _ hc ht
  obtain ⟨hm, hr⟩ := pmodule_sound n _ _ _ _ hc ht
  subst hr
  refine ⟨rfl, ?_⟩
  rw [hls, List.append_nil, hcm, hm]

/-- **C07, soundness on text.**  Let `text` be ANY spelling (arbitrary white space and comments between the tokens) of
    a canonical lexeme list on which the lexeme-level run does not get stuck (the domain of C12).  If the parser
    accepts the text and returns `m`, the lexemes the text spells are exactly the canonical printing of `m`. -/
theorem C07_accepted_text_is_the_tree (n : Nat) (ls : List Lexeme) (s : Lex.Src) (m : Module) (r : Lex.Src)
    (hs : Spells ls s) (hc : CanonL ls) (hns : runL (pmodule n) ls ≠ .stuck)
    (h : (pmodule n).run s = .ok (m, r)) :
    ls.map lexTok = (Spec.lexemes m).map lexTok := by
  obtain ⟨hok, herr⟩ := lift (pmodule n) hs
  cases hr : runL (pmodule n) ls with
  | ok m' rest =>
    obtain ⟨s', hrun, _⟩ := hok m' rest hr
    rw [hrun] at h
    simp only [Except.ok.injEq, Prod.mk.injEq] at h
    obtain ⟨rfl, _⟩ := h
    exact (C07_accepted_lexemes_are_the_tree n ls rest m' hc hr).2
  | err e => rw [herr e hr] at h; cases h
  | stuck => exact absurd hr hns

/-- nothing is dropped: two accepted canonical lexeme lists with the same tree are the same token sequence (the tree
    determines every token of the input) -/
theorem C07_tree_determines_tokens (n n' : Nat) (ls ls' r r' : List Lexeme) (m : Module) (hc : CanonL ls) (hc' : CanonL ls')
    (h : runL (pmodule n) ls = .ok m r) (h' : runL (pmodule n') ls' = .ok m r') :
    ls.map lexTok = ls'.map lexTok := by
  rw [(C07_accepted_lexemes_are_the_tree n ls r m hc h).2, (C07_accepted_lexemes_are_the_tree n' ls' r' m hc' h').2]

/-- non-vacuity: a concrete canonical lexeme list that is accepted, and the conclusion evaluated on it -/
example :
    (match runL (pmodule 40) [.word "class", .word "A", .sym "{", .word "A", .sym "(", .word "int", .word "x", .sym ")", .sym ";",
        .sym "}", .sym ";"] with
      | .ok m [] => ([Lexeme.word "class", .word "A", .sym "{", .word "A", .sym "(", .word "int", .word "x", .sym ")", .sym ";",
          .sym "}", .sym ";"].map lexTok == (Spec.lexemes m).map lexTok)
      | _ => false) = true := by decide

def errIs (r : Except Err Module) (e : Err) : Bool :=
  match r with
  | .error e' => e' == e
  | .ok _ => false

/-- validation failures are loud: a class whose constructor is not named like the class is an error, never a
    silently altered tree -/
theorem C07_ctor_name_checked : errIs (parseModule "class A { B(); };") .validation = true := by decide

/-- an operator overload with two arguments is rejected -/
theorem C07_operator_arity_checked : errIs (parseModule "class A { A operator+(const A& x, const A& y) const; };") .validation = true := by decide

/-- text after the last declaration that is not a declaration is rejected (`stringEnd`) -/
theorem C07_trailing_garbage_rejected : errIs (parseModule "class A {}; }") .parse = true := by decide

/-- a truncated file is rejected -/
theorem C07_truncated_rejected : errIs (parseModule "namespace a { class A { A(); ") .parse = true := by decide

/-- an unterminated block comment is not a comment: the text is rejected, not swallowed -/
theorem C07_unterminated_comment_rejected : errIs (parseModule "class A {}; /* class B {};") .parse = true := by decide

end WrapModel.Props.C07
