/-
  C07 — input is either fully understood or loudly rejected, never half-used.
  Property theorems only (termination / loud failure of the model parser; the token-accounting statement is the
  soundness direction of the parser proof, see DESIGN.md §6 C07 — in progress).
-/
import WrapModel.Model.Parse

namespace WrapModel.Props.C07
open WrapModel WrapModel.Parse

/-- the parser is a total function: every input yields a tree or an error (no divergence) — by construction all
    recursion is on fuel; this states the interface -/
theorem C07_total (s : String) : (∃ m, parseModule s = .ok m) ∨ (∃ e, parseModule s = .error e) := by
  cases h : parseModule s with
  | ok m => exact Or.inl ⟨m, rfl⟩
  | error e => exact Or.inr ⟨e, rfl⟩

def errIs (r : Except Err Module) (e : Err) : Bool :=
  match r with
  | .error e' => e' == e
  | .ok _ => false

/-- validation failures are loud: a class whose constructor is not named like the class is an error, never a
    silently altered tree -/
theorem C07_ctor_name_checked : errIs (parseModule "class A { B(); };") .validation = true := by decide

/-- an operator overload with two arguments is rejected -/
theorem C07_operator_arity_checked : errIs (parseModule "class A { A operator+(const A& x, const A& y) const; };") .validation = true := by decide

/-- text after the last declaration that is not a declaration is rejected (`stringEnd`) -/
theorem C07_trailing_garbage_rejected : errIs (parseModule "class A {}; }") .parse = true := by decide

/-- a truncated file is rejected -/
theorem C07_truncated_rejected : errIs (parseModule "namespace a { class A { A(); ") .parse = true := by decide

/-- an unterminated block comment is not a comment: the text is rejected, not swallowed -/
theorem C07_unterminated_comment_rejected : errIs (parseModule "class A {}; /* class B {};") .parse = true := by decide

end WrapModel.Props.C07
