/-
  C07 — input is either fully understood or loudly rejected, never half-used.
  Property theorems only: totality, lexical accounting of every accepted text (for every parser program over the
  request interface, hence for the module parser), and concrete loud rejections.
-/
import WrapModel.Model.Parse
import WrapModel.Lemmas.Accounting

namespace WrapModel.Props.C07
open WrapModel WrapModel.Parse

/-- the parser is a total function: every input yields a tree or an error (no divergence) — by construction all
    recursion is on fuel; this states the interface -/
theorem C07_total (s : String) : (∃ m, parseModule s = .ok m) ∨ (∃ e, parseModule s = .error e) := by
  cases h : parseModule s with
  | ok m => exact Or.inl ⟨m, rfl⟩
  | error e => exact Or.inr ⟨e, rfl⟩

/-- **C07, lexical accounting — every parser program.**  Whatever a parser written against the request interface does,
    when it succeeds it has moved from `s` to `s'` through successful requests only: each step skipped layout (what
    `skipGap` skips: whitespace and complete comments) and then consumed exactly the text of the token that was asked for
    (`Consumed`).  No other character is ever passed over. -/
theorem C07_accounting_any_parser (p : P α) (s : Lex.Src) (a : α) (s' : Lex.Src) (h : p.run s = .ok (a, s')) :
    Accounted s s' :=
  run_accounted p s a s' h

/-- **C07, lexical accounting — the entry point.**  If `parseModule text` returns a tree, the whole text — up to its very
    end — is a sequence of layout gaps and of tokens, each requested by the grammar at its position; the last request is
    end-of-input, whose `Consumed` clause says that only layout was left. -/
theorem C07_accepted_text_accounted (text : String) (m : Module) (h : parseModule text = .ok m) :
    Accounted text.toList [] := by
  unfold parseModule at h
  simp only at h
  split at h
  · rename_i m' rest hrun
    have := pmodule_ends _ _ _ _ hrun
    subst this
    exact run_accounted _ _ _ _ hrun
  · cases h

/-- the module parser stops only at the end of the input -/
theorem C07_module_ends_at_eof (n : Nat) (s : Lex.Src) (m : Module) (s' : Lex.Src) (h : (pmodule n).run s = .ok (m, s')) :
    s' = [] :=
  pmodule_ends n s m s' h

def errIs (r : Except Err Module) (e : Err) : Bool :=
  match r with
  | .error e' => e' == e
  | .ok _ => false

/-- validation failures are loud: a class whose constructor is not named like the class is an error, never a
    silently altered tree -/
theorem C07_ctor_name_checked : errIs (parseModule "class A { B(); };") .validation = true := by decide

/-- an operator overload with two arguments is rejected -/
theorem C07_operator_arity_checked : errIs (parseModule "class A { A operator+(const A& x, const A& y) const; };") .validation = true := by decide

/-- text after the last declaration that is not a declaration is rejected (`stringEnd`) -/
theorem C07_trailing_garbage_rejected : errIs (parseModule "class A {}; }") .parse = true := by decide

/-- a truncated file is rejected -/
theorem C07_truncated_rejected : errIs (parseModule "namespace a { class A { A(); ") .parse = true := by decide

/-- an unterminated block comment is not a comment: the text is rejected, not swallowed -/
theorem C07_unterminated_comment_rejected : errIs (parseModule "class A {}; /* class B {};") .parse = true := by decide

end WrapModel.Props.C07
