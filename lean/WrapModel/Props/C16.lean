/-
  C16 — multiple interface files and the command-line scripts compose consistently.
  Property theorems only: what `wrap_file` hands to the module template in its two modes (`Model/Pybind.lean`).
-/
import WrapModel.Model.Pybind
import WrapModel.Lemmas.StrLemmas

namespace WrapModel.Props.C16
open WrapModel WrapModel.Inst WrapModel.Pybind WrapModel.Spec WrapModel.Str

/-- the template environment of `wrap_file` -/
def envOf (cfg : Cfg) (moduleName : String) (submodules : Option (List String)) (im : List IDecl) : List (String × String) :=
  let (stmts, incs) := emitNs cfg "" [""] im
  let includes := if cfg.useBoost then incs ++ "#include <boost/serialization/export.hpp>" else incs
  let boost := if cfg.useBoost then boostExport (serializingClasses stmts) else ""
  let (moduleDef, subs, subsInit) := match submodules with
    | some names => ("PYBIND11_MODULE(" ++ moduleName ++ ", m_)",
        names.map (fun s => "void " ++ s ++ "(py::module_ &);"), names.map (fun s => s ++ "(m_);"))
    | none => ("void " ++ moduleName ++ "(py::module_ &m_)", [], [])
  [("module_def", moduleDef), ("module_name", moduleName), ("includes", includes),
   ("wrapped_namespace", printStmts stmts), ("boost_class_export", boost),
   ("submodules", joinWith "\n" subs), ("submodules_init", joinWith "\n" subsInit)]

/-- `wrap_file` is the template filled with that environment -/
theorem C16_wrap_file_env (cfg : Cfg) (tpl moduleName : String) (subs : Option (List String)) (im : List IDecl) :
    wrapInstantiated cfg tpl moduleName subs im = pyFormat (envOf cfg moduleName subs im) (tpl.length + 1) tpl.toList := by
  unfold wrapInstantiated envOf
  cases subs <;> rfl

/-- main file: a `PYBIND11_MODULE`, one forward declaration and one invocation per additional file, in order -/
theorem C16_main (cfg : Cfg) (name : String) (subs : List String) (im : List IDecl) :
    (envOf cfg name (some subs) im).lookup "module_def" = some ("PYBIND11_MODULE(" ++ name ++ ", m_)") ∧
    (envOf cfg name (some subs) im).lookup "submodules" = some (joinWith "\n" (subs.map fun s => "void " ++ s ++ "(py::module_ &);")) ∧
    (envOf cfg name (some subs) im).lookup "submodules_init" = some (joinWith "\n" (subs.map fun s => s ++ "(m_);")) := by
  simp [envOf, List.lookup]

/-- additional file: precisely the definition of its initialiser -/
theorem C16_sub (cfg : Cfg) (stem : String) (im : List IDecl) :
    (envOf cfg stem none im).lookup "module_def" = some ("void " ++ stem ++ "(py::module_ &m_)") ∧
    (envOf cfg stem none im).lookup "submodules" = some "" ∧ (envOf cfg stem none im).lookup "submodules_init" = some "" := by
  simp [envOf, List.lookup, joinWith]

/-- the bindings, includes and export block of a file are the same function of its text in both modes and do not
    depend on the other files of the module -/
theorem C16_same_content (cfg : Cfg) (n1 n2 : String) (subs : List String) (im : List IDecl) :
    (envOf cfg n1 (some subs) im).lookup "wrapped_namespace" = (envOf cfg n2 none im).lookup "wrapped_namespace" ∧
    (envOf cfg n1 (some subs) im).lookup "includes" = (envOf cfg n2 none im).lookup "includes" ∧
    (envOf cfg n1 (some subs) im).lookup "boost_class_export" = (envOf cfg n2 none im).lookup "boost_class_export" := by
  simp [envOf, List.lookup]

/-- command-line option plumbing: `--top_module_namespaces a::b` (with or without a leading `::`) -/
def parseTop (arg : String) : List String :=
  let parts := pySplit arg "::"
  match parts with
  | p :: _ => if p.isEmpty then parts else "" :: parts
  | [] => [""]

theorem C16_cli_top : parseTop "a::b" = ["", "a", "b"] ∧ parseTop "::a::b" = ["", "a", "b"] ∧ parseTop "" = [""] ∧ parseTop "gtsam" = ["", "gtsam"] := by
  decide

/-- whatever the option's text, the list handed to the wrappers starts with the global namespace `""` -/
theorem C16_cli_top_head (arg : String) : (parseTop arg).head? = some "" := by
  unfold parseTop
  generalize pySplit arg "::" = parts
  cases parts with
  | nil => rfl
  | cons p r =>
    by_cases h : p.isEmpty
    · have hp : p = "" := by simpa [String.isEmpty_iff] using h
      simp [hp]
    · simp [h]

/-- every namespace path `n::…` (names without `:`, first one non-empty, any length) gives the same list with and
    without the leading `::` — the unbounded statement of which `C16_cli_top` lists four instances -/
theorem C16_cli_top_general (n : String) (ns : List String) (hne : n ≠ "")
    (h : ∀ y ∈ n :: ns, noColon y = true) :
    parseTop (joinWith "::" (n :: ns)) = "" :: n :: ns ∧
    parseTop (joinWith "::" ("" :: n :: ns)) = "" :: n :: ns := by
  constructor
  · unfold parseTop
    rw [pySplit_join n ns h]
    simp [String.isEmpty_iff, hne]
  · unfold parseTop
    rw [pySplit_join "" (n :: ns) (by
      intro y hy
      rcases List.mem_cons.1 hy with rfl | hy
      · decide
      · exact h y hy)]
    simp

/-- the hypotheses are met by an ordinary path -/
example : ("gtsam" : String) ≠ "" ∧ (∀ y ∈ ["gtsam", "inner"], noColon y = true) ∧
    parseTop (joinWith "::" ["gtsam", "inner"]) = ["", "gtsam", "inner"] := by decide

/-- normalisation is idempotent: handing the normalised list, re-joined, to the option again changes nothing -/
theorem C16_cli_top_idempotent (n : String) (ns : List String) (hne : n ≠ "")
    (h : ∀ y ∈ n :: ns, noColon y = true) :
    parseTop (joinWith "::" (parseTop (joinWith "::" (n :: ns)))) = parseTop (joinWith "::" (n :: ns)) := by
  rw [(C16_cli_top_general n ns hne h).1, (C16_cli_top_general n ns hne h).2]

end WrapModel.Props.C16
