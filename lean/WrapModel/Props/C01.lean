/-
  C01 — interface files parse to a tree that mirrors the source exactly.
  (property theorems only; helper lemmas live in WrapModel/Lemmas)
-/
import WrapModel.Model.Parse
import WrapModel.Model.Dump

namespace WrapModel.Props.C01
open WrapModel

def parsesTo (text : String) (dump : String) : Bool :=
  match Parse.parseModule text with
  | .ok m => Dump.module m == dump
  | .error _ => false

/-- smoke obligation (a test, labelled as such): one concrete file parses to the expected tree -/
theorem C01_smoke :
    parsesTo "namespace n { class A : B { A(const T<int>& x = f(1, 2)); }; }"
      "Ns(\"\",[Ns(\"n\",[Class(None,-,\"A\",PT(T([],\"B\",[])),[Ctor(None,\"A\",[A(X(T([],\"T\",[T([],\"int\",[])]),[S(T([],\"int\",[]),--,b)],c&),\"x\",\"f(1, 2)\")],[\"\",\"n\",\"A\"])],[],[],[],[],[],[],[\"\",\"n\"])],[\"\"])],None)" = true := by
  decide +kernel

end WrapModel.Props.C01
