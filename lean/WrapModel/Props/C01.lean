/-
  C01 — interface files parse to a tree that mirrors the source exactly.
  (property theorems only; helper lemmas live in WrapModel/Lemmas)
-/
import WrapModel.Model.Parse
import WrapModel.Model.Dump
import WrapModel.Lemmas.AgreeLemmas
import WrapModel.Lemmas.TypeRoundTrip
import WrapModel.Lemmas.ModuleRoundTrip
import WrapModel.Lemmas.FuelBound

namespace WrapModel.Props.C01
open WrapModel

def parsesTo (text : String) (dump : String) : Bool :=
  match Parse.parseModule text with
  | .ok m => Dump.module m == dump
  | .error _ => false

/-- smoke obligation (a test, labelled as such): one concrete file parses to the expected tree -/
theorem C01_smoke :
    parsesTo "namespace n { class A : B { A(const T<int>& x = f(1, 2)); }; }"
      "Ns(\"\",[Ns(\"n\",[Class(None,-,\"A\",PT(T([],\"B\",[])),[Ctor(None,\"A\",[A(X(T([],\"T\",[T([],\"int\",[])]),[S(T([],\"int\",[]),--,b)],c&),\"x\",\"f(1, 2)\")],[\"\",\"n\",\"A\"])],[],[],[],[],[],[],[\"\",\"n\"])],[\"\"])],None)" = true := by
  decide +kernel

/-! ### the round trip `parse ∘ render = id`, proved for TYPES (every nesting depth, every layout)

`Spec.tyLex` is the canonical printer of a type into lexemes (the harness generator prints the same way),
`Spec.TyWF` says which trees are in the dialect (names that are not keywords or basic types, `basic` flag consistent,
non-empty template argument lists), `Spec.NoCont rest` says that what follows does not continue the type
(no `::`, `<`, `*`, `@`, `&`), `Tok.Spells ls s` that the characters `s` spell the lexemes `ls` with arbitrary
whitespace and comments in between. -/

open Tok Spec in
/-- **C01 (types, lexeme level).** -/
theorem C01_type_roundtrip_lexemes (t : CType) (hwf : TyWF t) (n : Nat) (hn : tyFuel t ≤ n) (rest : List Lexeme)
    (hrest : t.quals.suffix = .none → NoCont rest) :
    runL (Parse.ptype n) (tyLex t ++ rest) = .ok ⟨t, pairFlag t⟩ rest :=
  ptype_lex n t hn hwf rest hrest

open Tok Spec in
/-- **C01 (types, character level).**  For every well-formed type `t`, every continuation `rest` that does not continue a
    type, and EVERY spelling `s` of the lexemes of `t` followed by `rest` (any whitespace, block and line comments
    between the tokens), the type reader returns exactly `t` and stops in front of a spelling of `rest`. -/
theorem C01_type_roundtrip (t : CType) (hwf : TyWF t) (n : Nat) (hn : tyFuel t ≤ n) (rest : List Lexeme)
    (hrest : t.quals.suffix = .none → NoCont rest) (s : Lex.Src) (hs : Spells (tyLex t ++ rest) s) :
    ∃ s', (Parse.ptype n).run s = .ok (⟨t, pairFlag t⟩, s') ∧ Spells rest s' :=
  (lift (Parse.ptype n) hs).1 _ _ (ptype_lex n t hn hwf rest hrest)

/-- non-vacuity: `const std::vector<gtsam::Pose3*>&` is well-formed, and an argument name may follow it -/
def exType : CType :=
  .templ ["std"] "vector" [.simple ⟨["gtsam"], "Pose3", []⟩ ⟨false, .shared⟩ false] ⟨true, .ref⟩

open Tok Spec in
example : TyWF exType ∧ NoCont [.word "poses", .sym ")"] ∧
    tyLex exType = [.word "const", .word "std", .sym "::", .word "vector", .sym "<", .word "gtsam", .sym "::", .word "Pose3",
      .sym "*", .sym ">", .sym "&"] := by
  refine ⟨?_, ?_, ?_⟩
  · simp (config := {decide := true}) [exType, TyWF, TysWF, FirstOK, startsDunder]
  · rw [noCont_iff]; simp (config := {decide := true}) [ansWord]
  · simp (config := {decide := true}) [exType, tyLex, tysLex, tysTailLex, namesLex, identsLex, constLex, sufLex]

/-! ### the round trip for WHOLE MODULES

`Spec.lexemes m` prints a module (forward declarations, includes, classes with constructors / methods / static methods /
properties / operators / enums / dunder methods, typedefs, functions, enums, variables, nested namespaces; templates with
instantiation lists; arguments with defaults; pair return types) into lexemes; `Spec.DeclsWF m` is the well-formedness of
the dialect (DESIGN.md §3): identifiers are not keywords or basic types where the grammar tests for those, flags are
consistent (`basic`, canonical pair return types), lists the grammar requires to be non-empty are non-empty, constructors
are named like their class, operators have a valid shape. -/

open Tok Spec in
/-- **C01 (lexeme level)**: `parse (lexemes m) = m`, everything consumed, for every well-formed module and any sufficient fuel. -/
theorem C01_module_roundtrip_lexemes (m : Module) (hwf : DeclsWF m) (n : Nat) (hn : declsFuel m ≤ n) :
    runL (Parse.pmodule n) (lexemes m) = .ok m [] :=
  pmodule_lex m hwf n hn

open Tok Spec in
/-- **C01 (character level)**: for every well-formed module `m` and EVERY character string `s` that spells its lexemes —
    any amount of whitespace, `/* … */` and `// …` comments between any two tokens, none inside a token — the parser
    returns exactly `m` (names, order, qualifiers, template arguments at any depth, default values verbatim) and what
    remains is layout only. -/
theorem C01_module_roundtrip (m : Module) (hwf : DeclsWF m) (n : Nat) (hn : declsFuel m ≤ n) (s : Lex.Src)
    (hs : Spells (lexemes m) s) : ∃ rest, (Parse.pmodule n).run s = .ok (m, rest) ∧ Spells [] rest :=
  (lift (Parse.pmodule n) hs).1 _ _ (pmodule_lex m hwf n hn)

open Tok Spec in
/-- **C01, the entry point**: `parseModule text = ok m` for every well-formed module `m` and every text that spells its
    lexemes.  No fuel hypothesis: the fuel `4·|text| + 2` of `parseModule` is proved sufficient (`declsFuel_le_text`). -/
theorem C01_parseModule_roundtrip (m : Module) (hwf : DeclsWF m) (text : String) (hs : Spells (lexemes m) text.toList) :
    Parse.parseModule text = .ok m := by
  have hfuel : declsFuel m ≤ 4 * text.toList.length + 2 := by
    have := declsFuel_le_text m hwf text.toList hs
    omega
  obtain ⟨rest, hrun, _⟩ := C01_module_roundtrip m hwf _ hfuel text.toList hs
  simp [Parse.parseModule, hrun]

open Tok Spec in
/-- two spellings of one well-formed module parse to the same tree (C12 as a corollary of C01) -/
theorem C01_layout_irrelevant (m : Module) (hwf : DeclsWF m) (n : Nat) (hn : declsFuel m ≤ n) (s s' : Lex.Src)
    (hs : Spells (lexemes m) s) (hs' : Spells (lexemes m) s') :
    ((Parse.pmodule n).run s).map Prod.fst = ((Parse.pmodule n).run s').map Prod.fst := by
  obtain ⟨r, h1, _⟩ := C01_module_roundtrip m hwf n hn s hs
  obtain ⟨r', h2, _⟩ := C01_module_roundtrip m hwf n hn s' hs'
  simp [h1, h2, Except.map]

/-! non-vacuity: a concrete module with every kind of declaration is well-formed; its lexemes are what one expects -/

def tyS (nss : List String) (name : String) (q : Quals := .plain) : CType := .simple ⟨nss, name, []⟩ q false
def tyB (name : String) (q : Quals := .plain) : CType := .simple ⟨[], name, []⟩ q true

def exModule : Module :=
  [.incl "a/b.h",
   .ns "gtsam"
    [.fwd true ⟨["gtsam"], "Base", []⟩ none,
     .cls ⟨none, false, "Pose3", some (.templ [] "Base" [tyS [] "Pose3"] .plain),
       [.ctor none "Pose3" [],
        .ctor none "Pose3" [⟨tyS [] "Rot3" ⟨true, .ref⟩, "R", none⟩, ⟨tyS [] "Point3" ⟨true, .ref⟩, "t", some "Point3()"⟩],
        .static none ⟨tyS [] "Pose3", none, false⟩ "Expmap" [⟨tyS [] "Vector", "v", none⟩],
        .method (some [⟨"T", [⟨[], "double", []⟩, ⟨["gtsam"], "Point3", []⟩]⟩])
          ⟨tyB "double", some (tyS [] "Vector"), true⟩ "f"
          [⟨.templ ["std"] "vector" [tyS [] "Pose3" ⟨false, .shared⟩] ⟨true, .ref⟩, "xs", none⟩] true,
        .prop ⟨tyB "unsigned char", "flags", none⟩,
        .enum ⟨.enumClass, "Kind", ["A", "B"]⟩,
        .op ⟨tyS [] "Pose3", none, false⟩ "*" [⟨tyS [] "Pose3" ⟨true, .ref⟩, "o", none⟩],
        .dunder "len" []]⟩,
     .typedef ⟨["std"], "vector", [⟨[], "double", []⟩]⟩ "Vd",
     .func none ⟨tyB "void", none, false⟩ "g" [⟨tyS ["gtsam"] "Pose3" ⟨false, .raw⟩, "p", some "nullptr"⟩],
     .enum ⟨.enum, "Color", ["Red"]⟩,
     .var ⟨tyB "double" ⟨true, .none⟩, "kG", some "-9.81"⟩]]

open Tok Spec in
example : DeclsWF exModule := by
  simp (config := {decide := true}) [exModule, DeclsWF, DeclWF, ClassWF, MembersWF, MemberWF, ParentWF, FwdParentWF, TmplWF,
    TParamsWF, TnsWF, TnWF, ArgsWF, RetWF, EnumWF, TyWF, TysWF, FirstOK, tyS, tyB, tnToTy, tnsToTys, retAsType, startsDunder,
    Parse.toRet, pairFlag, Parse.ctorNamesOk, Parse.validOperator, CType.typename, Quals.plain, CType.isTempl]

open Tok Spec in
example : runL (Parse.pmodule (declsFuel exModule)) (lexemes exModule) = .ok exModule [] :=
  pmodule_lex exModule (by
    simp (config := {decide := true}) [exModule, DeclsWF, DeclWF, ClassWF, MembersWF, MemberWF, ParentWF, FwdParentWF, TmplWF,
      TParamsWF, TnsWF, TnWF, ArgsWF, RetWF, EnumWF, TyWF, TysWF, FirstOK, tyS, tyB, tnToTy, tnsToTys, retAsType, startsDunder,
      Parse.toRet, pairFlag, Parse.ctorNamesOk, Parse.validOperator, CType.typename, Quals.plain, CType.isTempl]) _ (Nat.le_refl _)

end WrapModel.Props.C01
