/-
  C01 — interface files parse to a tree that mirrors the source exactly.
  (property theorems only; helper lemmas live in WrapModel/Lemmas)
-/
import WrapModel.Model.Parse
import WrapModel.Model.Dump
import WrapModel.Lemmas.AgreeLemmas
import WrapModel.Lemmas.TypeRoundTrip

namespace WrapModel.Props.C01
open WrapModel

def parsesTo (text : String) (dump : String) : Bool :=
  match Parse.parseModule text with
  | .ok m => Dump.module m == dump
  | .error _ => false

/-- smoke obligation (a test, labelled as such): one concrete file parses to the expected tree -/
theorem C01_smoke :
    parsesTo "namespace n { class A : B { A(const T<int>& x = f(1, 2)); }; }"
      "Ns(\"\",[Ns(\"n\",[Class(None,-,\"A\",PT(T([],\"B\",[])),[Ctor(None,\"A\",[A(X(T([],\"T\",[T([],\"int\",[])]),[S(T([],\"int\",[]),--,b)],c&),\"x\",\"f(1, 2)\")],[\"\",\"n\",\"A\"])],[],[],[],[],[],[],[\"\",\"n\"])],[\"\"])],None)" = true := by
  decide +kernel

/-! ### the round trip `parse ∘ render = id`, proved for TYPES (every nesting depth, every layout)

`Spec.tyLex` is the canonical printer of a type into lexemes (the harness generator prints the same way),
`Spec.TyWF` says which trees are in the dialect (names that are not keywords or basic types, `basic` flag consistent,
non-empty template argument lists), `Spec.NoCont rest` says that what follows does not continue the type
(no `::`, `<`, `*`, `@`, `&`), `Tok.Spells ls s` that the characters `s` spell the lexemes `ls` with arbitrary
whitespace and comments in between. -/

open Tok Spec in
/-- **C01 (types, lexeme level).** -/
theorem C01_type_roundtrip_lexemes (t : CType) (hwf : TyWF t) (n : Nat) (hn : tyFuel t ≤ n) (rest : List Lexeme)
    (hrest : t.quals.suffix = .none → NoCont rest) :
    runL (Parse.ptype n) (tyLex t ++ rest) = .ok ⟨t, pairFlag t⟩ rest :=
  ptype_lex n t hn hwf rest hrest

open Tok Spec in
/-- **C01 (types, character level).**  For every well-formed type `t`, every continuation `rest` that does not continue a
    type, and EVERY spelling `s` of the lexemes of `t` followed by `rest` (any whitespace, block and line comments
    between the tokens), the type reader returns exactly `t` and stops in front of a spelling of `rest`. -/
theorem C01_type_roundtrip (t : CType) (hwf : TyWF t) (n : Nat) (hn : tyFuel t ≤ n) (rest : List Lexeme)
    (hrest : t.quals.suffix = .none → NoCont rest) (s : Lex.Src) (hs : Spells (tyLex t ++ rest) s) :
    ∃ s', (Parse.ptype n).run s = .ok (⟨t, pairFlag t⟩, s') ∧ Spells rest s' :=
  (lift (Parse.ptype n) hs).1 _ _ (ptype_lex n t hn hwf rest hrest)

/-- non-vacuity: `const std::vector<gtsam::Pose3*>&` is well-formed, and an argument name may follow it -/
def exType : CType :=
  .templ ["std"] "vector" [.simple ⟨["gtsam"], "Pose3", []⟩ ⟨false, .shared⟩ false] ⟨true, .ref⟩

open Tok Spec in
example : TyWF exType ∧ NoCont [.word "poses", .sym ")"] ∧
    tyLex exType = [.word "const", .word "std", .sym "::", .word "vector", .sym "<", .word "gtsam", .sym "::", .word "Pose3",
      .sym "*", .sym ">", .sym "&"] := by
  refine ⟨?_, ?_, ?_⟩
  · simp (config := {decide := true}) [exType, TyWF, TysWF, FirstOK, startsDunder]
  · rw [noCont_iff]; simp (config := {decide := true}) [ansWord]
  · simp (config := {decide := true}) [exType, tyLex, tysLex, tysTailLex, namesLex, identsLex, constLex, sufLex]

end WrapModel.Props.C01
