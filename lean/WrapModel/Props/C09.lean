/-
  C09 — generated pybind11 code compiles against any conforming C++ library.
  Property theorems only: a modelled well-formedness judgement on the emitter's IR (PARTIAL: "is well-formed C++"
  is represented by these facts, the compiler runs of the check validate them on samples).
-/
import WrapModel.Model.Pybind
import WrapModel.Lemmas.ClosedLemmas
import WrapModel.Props.C02

namespace WrapModel.Props.C09
open WrapModel WrapModel.Inst WrapModel.Pybind

/-- wrapper lambda and keyword-argument list always have the same number of entries (methods, static methods) -/
theorem C09_method_arity (cfg : Cfg) (m : IMethod) (cls sfx : String) :
    (methodLambda cfg m cls sfx).params.length = (methodLambda cfg m cls sfx).pyArgs.length := by
  simp [methodLambda, sigOf, pyArgsOf]

/-- … and the names agree position by position -/
theorem C09_method_names (cfg : Cfg) (m : IMethod) (cls sfx : String) :
    (methodLambda cfg m cls sfx).params.map (·.2) = (methodLambda cfg m cls sfx).pyArgs.map (·.name) := by
  simp [methodLambda, sigOf, pyArgsOf]

/-- free functions likewise -/
theorem C09_function_arity (cfg : Cfg) (f : IFunc) (caller : String) :
    (emitFunc cfg f caller).params.length = (emitFunc cfg f caller).pyArgs.length ∧
    (emitFunc cfg f caller).params.map (·.2) = (emitFunc cfg f caller).pyArgs.map (·.name) := by
  simp [emitFunc, sigOf, pyArgsOf]

/-- constructors: one C++ parameter type per keyword argument -/
theorem C09_ctor_arity (k : ICtor) :
    (k.args.map fun a => tyToCpp a.ctype).length = (pyArgsOf k.args).length := by simp [pyArgsOf]

theorem splitLast_append_singleton (xs : List String) (x : String) : typenameOfPath.splitLast (xs ++ [x]) = (xs, x) := by
  induction xs with
  | nil => rfl
  | cons y r ih =>
    cases r with
    | nil => simp [typenameOfPath.splitLast]
    | cons z r' => simp only [List.cons_append] at ih ⊢; simp [typenameOfPath.splitLast, ih]

/-- a class is qualified with exactly its declaring namespace path: the C++ reference of a (non-templated) class
    declared at namespace path `"" :: ns` is `ns…::Name` — no component dropped, duplicated or added -/
theorem C09_class_reference (ns : List String) (orig : String) (insts : List Typename) :
    classCppTypename ("" :: ns) orig false insts = ⟨ns, orig, []⟩ := by
  simp only [classCppTypename, typenameOfPath, Bool.false_eq_true, if_false]
  have := splitLast_append_singleton ("" :: ns) orig
  simp only [List.cons_append] at this
  simp [this]

/-! ### "no unsubstituted template parameter" -/

open WrapModel.Spec WrapModel.C02L in
/-- the clause of C09 about template parameters, for the SPECIFICATION of instantiation: in the type that the capture-free
    substitution yields NO parameter and no `This` occurs any more — neither as a whole unqualified name nor as the head of a
    scope, at any depth of template arguments — for every type expression, provided every parameter has an instantiation,
    `This` denotes a class, and the instantiation arguments (and that class) are themselves parameter-free (`closedInst`; a
    concrete type spelled like a parameter is legal input and is exactly what the hypothesis excludes) -/
theorem C09_no_parameter_left_spec (tns : List String) (insts : List Typename) (th : Option Typename) (t : CType)
    (hins : ∀ i ∈ insts, closedInst tns i = true) (hthis : ∀ c, th = some c → closedInst tns c = true)
    (hlen : tns.length ≤ insts.length) (hth : th.isSome = true) :
    closedTy tns (substType tns insts th t) = true :=
  subst_closed tns insts th hins hthis hlen hth t

open WrapModel.Spec WrapModel.C02L in
/-- … and for the CODE's `instantiate_type`, wherever it is proved to be that substitution (the guard of
    `C02_inst_eq_subst_partial`): what it returns contains no parameter any more -/
theorem C09_no_parameter_left_partial (tns : List String) (insts : List Typename) (cpp icls : Option Typename) (t t' : CType)
    (hp : ∀ t ∈ tns, noColon t = true) (hlen : insts.length = tns.length)
    (hsafe : safeTy tns insts cpp icls t = true)
    (hins : ∀ i ∈ insts, closedInst tns i = true) (hthis : ∀ c, thisOf icls cpp = some c → closedInst tns c = true)
    (hth : (thisOf icls cpp).isSome = true)
    (h : instType tns insts cpp icls t = .ok t') : closedTy tns t' = true := by
  rw [WrapModel.Props.C02.C02_inst_eq_subst_partial tns insts cpp icls t hp hlen hsafe] at h
  cases h
  exact subst_closed tns insts _ hins hthis (by omega) hth t

open WrapModel.Spec WrapModel.C02L in
/-- non-vacuity: `std::map<KEY, std::vector<T>>` with KEY := gtsam::Key, T := double in class `ns::Graph` -/
example : closedTy ["KEY", "T"] (substType ["KEY", "T"] [⟨["gtsam"], "Key", []⟩, ⟨[], "double", []⟩] (some ⟨["ns"], "Graph", []⟩)
    (.templ ["std"] "map" [.simple ⟨[], "KEY", []⟩ Quals.plain false, .templ ["std"] "vector" [.simple ⟨[], "T", []⟩ Quals.plain false] Quals.plain] Quals.plain)) = true := by
  decide

/-- `#include <x>` lines are re-emitted with quotes -/
example : includeLine "gtsam/base/Matrix.h" = "#include \"gtsam/base/Matrix.h\"\n" := by decide

end WrapModel.Props.C09
