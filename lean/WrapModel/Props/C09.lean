/-
  C09 — generated pybind11 code compiles against any conforming C++ library.
  Property theorems only: a modelled well-formedness judgement on the emitter's IR (PARTIAL: "is well-formed C++"
  is represented by these facts, the compiler runs of the check validate them on samples).
-/
import WrapModel.Model.Pybind

namespace WrapModel.Props.C09
open WrapModel WrapModel.Inst WrapModel.Pybind

/-- wrapper lambda and keyword-argument list always have the same number of entries (methods, static methods) -/
theorem C09_method_arity (cfg : Cfg) (m : IMethod) (cls sfx : String) :
    (methodLambda cfg m cls sfx).params.length = (methodLambda cfg m cls sfx).pyArgs.length := by
  simp [methodLambda, sigOf, pyArgsOf]

/-- … and the names agree position by position -/
theorem C09_method_names (cfg : Cfg) (m : IMethod) (cls sfx : String) :
    (methodLambda cfg m cls sfx).params.map (·.2) = (methodLambda cfg m cls sfx).pyArgs.map (·.name) := by
  simp [methodLambda, sigOf, pyArgsOf]

/-- free functions likewise -/
theorem C09_function_arity (cfg : Cfg) (f : IFunc) (caller : String) :
    (emitFunc cfg f caller).params.length = (emitFunc cfg f caller).pyArgs.length ∧
    (emitFunc cfg f caller).params.map (·.2) = (emitFunc cfg f caller).pyArgs.map (·.name) := by
  simp [emitFunc, sigOf, pyArgsOf]

/-- constructors: one C++ parameter type per keyword argument -/
theorem C09_ctor_arity (k : ICtor) :
    (k.args.map fun a => tyToCpp a.ctype).length = (pyArgsOf k.args).length := by simp [pyArgsOf]

theorem splitLast_append_singleton (xs : List String) (x : String) : typenameOfPath.splitLast (xs ++ [x]) = (xs, x) := by
  induction xs with
  | nil => rfl
  | cons y r ih =>
    cases r with
    | nil => simp [typenameOfPath.splitLast]
    | cons z r' => simp only [List.cons_append] at ih ⊢; simp [typenameOfPath.splitLast, ih]

/-- a class is qualified with exactly its declaring namespace path: the C++ reference of a (non-templated) class
    declared at namespace path `"" :: ns` is `ns…::Name` — no component dropped, duplicated or added -/
theorem C09_class_reference (ns : List String) (orig : String) (insts : List Typename) :
    classCppTypename ("" :: ns) orig false insts = ⟨ns, orig, []⟩ := by
  simp only [classCppTypename, typenameOfPath, Bool.false_eq_true, if_false]
  have := splitLast_append_singleton ("" :: ns) orig
  simp only [List.cons_append] at this
  simp [this]

/-- `#include <x>` lines are re-emitted with quotes -/
example : includeLine "gtsam/base/Matrix.h" = "#include \"gtsam/base/Matrix.h\"\n" := by decide

end WrapModel.Props.C09
