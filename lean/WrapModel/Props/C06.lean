/-
  C06 — MATLAB overload guards, default expansion and C++ marshalling line up.
  Property theorems only.  Model: `Matlab.expandArgs` (`_expand_default_arguments`), `Matlab.unwrapArguments`,
  `Matlab.methodCheckStatement`.
-/
import WrapModel.Model.Matlab.Cpp
import Mathlib.Data.List.Induction

namespace WrapModel.Props.C06
open WrapModel WrapModel.Inst WrapModel.Matlab

def noDefault (a : Arg) : Bool := a.default.isNone
def hasDefault (a : Arg) : Bool := a.default.isSome

theorem expandArgs_all_plain (n : Nat) (as : List Arg) (h : as.all noDefault = true) (hn : as.length < n) :
    expandArgs n as = some [as] := by
  cases n with
  | zero => omega
  | succ n =>
    unfold expandArgs
    cases hl : as.getLast? with
    | none => have : as = [] := by simpa using hl
              subst this; rfl
    | some l =>
      have hmem : l ∈ as := List.mem_of_getLast? hl
      have hl' : l.default.isSome = false := by
        have := List.all_eq_true.1 h l hmem
        simpa [noDefault] using this
      have hall : as.all (fun a => a.default.isNone) = true := by simpa [noDefault] using h
      simp [hl', hall]

theorem range_shift (a k : Nat) :
    (a + (k + 1)) :: (List.range (k + 1)).map (fun i => a + k - i) = (List.range (k + 1 + 1)).map (fun i => a + (k + 1) - i) := by
  apply List.ext_getElem
  · simp
  · intro i h1 h2
    cases i with
    | zero => simp
    | succ j => simp; omega

/-- for a callable with n parameters of which the last k have defaults the toolbox offers exactly the k+1
    arities n, n-1, …, n-k (in this order) -/
theorem C06_arities (pre dflts : List Arg) (hp : pre.all noDefault = true) (hd : dflts.all hasDefault = true) (fuel : Nat)
    (hf : (pre ++ dflts).length < fuel) :
    ∃ ls, expandArgs fuel (pre ++ dflts) = some ls ∧
      ls.map List.length = (List.range (dflts.length + 1)).map (fun i => pre.length + dflts.length - i) := by
  induction dflts using List.reverseRecOn generalizing fuel with
  | nil =>
    simp only [List.append_nil] at hf ⊢
    exact ⟨[pre], expandArgs_all_plain fuel pre hp hf, by simp⟩
  | append_singleton ds d ih =>
    cases fuel with
    | zero => omega
    | succ fuel =>
      have hd' : ds.all hasDefault = true ∧ hasDefault d = true := by simpa [List.all_append] using hd
      have hlen : (pre ++ ds).length < fuel := by simp at hf ⊢; omega
      obtain ⟨ls, hls, hlens⟩ := ih hd'.1 fuel hlen
      have hlast : (pre ++ (ds ++ [d])).getLast? = some d := by simp [← List.append_assoc]
      have hdrop : (pre ++ (ds ++ [d])).dropLast = pre ++ ds := by simp [← List.append_assoc]
      have hdd : d.default.isSome = true := by simpa [hasDefault] using hd'.2
      refine ⟨clearLastDefault (pre ++ (ds ++ [d])) :: ls, ?_, ?_⟩
      · unfold expandArgs
        simp [hlast, hdd, hdrop, hls]
      · have hc : (clearLastDefault (pre ++ (ds ++ [d]))).length = pre.length + (ds.length + 1) := by
          have : ∀ l : List Arg, (clearLastDefault l).length = l.length := by
            intro l; induction l with
            | nil => rfl
            | cons a r ih2 => cases r <;> simp_all [clearLastDefault]
          simp [this]
        simp only [List.map_cons, hc, hlens, List.length_append, List.length_singleton]
        exact range_shift pre.length ds.length

/-- arguments with default values must be trailing: a default followed by a parameter without default is rejected
    (the AssertionError of `_expand_default_arguments`) -/
theorem C06_nontrailing_rejected (pre : List Arg) (d l : Arg) (hd : d.default.isSome = true) (hl : l.default.isNone = true) (fuel : Nat) :
    expandArgs (fuel + 1) (pre ++ [d, l]) = none := by
  unfold expandArgs
  have hlast : (pre ++ [d, l]).getLast? = some l := by simp
  have hl' : l.default.isSome = false := by cases h : l.default <;> simp_all
  have hall : (pre ++ [d, l]).all (fun a => a.default.isNone) = false := by
    simp [List.all_append]; intro _; cases h : d.default <;> simp_all
  simp [hlast, hl', hall]

/-- the C++ call parameter list of an overload: one entry per *declared* parameter, in declared order — the
    (dereferenced) argument name for a parameter passed explicitly, the original default expression otherwise -/
theorem C06_call_params (args backup : List Arg) (argId : Nat) (cls : Option IClass) :
    (unwrapArguments args backup argId cls).1 =
      joinWith "," (backup.map fun a =>
        if a.default.isSome && !(args.map (·.name)).contains a.name then a.default.getD ""
        else
          (if !isRef a.ctype && (isSharedPtr a.ctype || isPtr a.ctype || canBePointer a.ctype) && !isEnum a.ctype cls
              && !ignoreNamespace.contains a.ctype.typename.name && a.ctype.quals.suffix != .shared
              && a.ctype.quals.suffix != .raw then "*" else "") ++ a.name) := rfl

/-- the MATLAB guard tests exactly the argument count of the overload -/
theorem C06_guard_count (as : List Arg) :
    methodCheckStatement as = "if length(varargin) == " ++ toString as.length ++ isaChecks as .plain ++ "\n" := rfl

/-- the guard clause of the argument standing at (1-based) position `i` -/
def guardClause (mode : FmtMode) (a : Arg) (i : Nat) : String :=
  " && isa(varargin{" ++ toString i ++ "},'" ++ checkType a.ctype.typename mode ++ "')" ++ sizeChecks a.ctype.typename.name i

theorem join_cons' (x : String) (xs : List String) : String.join (x :: xs) = x ++ String.join xs := by
  simp [String.join_cons]

theorem isaChecks_go (mode : FmtMode) (as : List Arg) (k : Nat) :
    isaChecks.go mode k as = String.join ((as.zipIdx k).map fun p => guardClause mode p.1 p.2) := by
  induction as generalizing k with
  | nil => unfold isaChecks.go; rfl
  | cons a r ih =>
    unfold isaChecks.go
    rw [ih (k + 1), List.zipIdx_cons, List.map_cons, join_cons']
    unfold guardClause
    simp only [String.append_assoc]

/-- the MATLAB-side guard tests the i-th argument's MATLAB type, for every i and nothing else: after the count test it is
    the concatenation, for i = 1 … n in order, of `isa(varargin{i}, '<MATLAB class of the i-th declared parameter>')`
    (plus the `size` tests of Vector / Matrix / Point parameters at the same index) — for every argument list -/
theorem C06_guard_clauses (as : List Arg) :
    methodCheckStatement as = "if length(varargin) == " ++ toString as.length
      ++ String.join ((as.zipIdx 1).map fun p => guardClause .plain p.1 p.2) ++ "\n" := by
  unfold methodCheckStatement isaChecks
  rw [isaChecks_go]

/-- non-vacuity: three parameters, the last two defaulted → arities 3, 2, 1 -/
example :
    let t : CType := .simple ⟨[], "int", []⟩ .plain true
    (expandArgs 4 [⟨t, "a", none⟩, ⟨t, "b", some "1"⟩, ⟨t, "c", some "2"⟩]).map (·.map List.length) = some [3, 2, 1] := by
  decide

end WrapModel.Props.C06
