/-
  C12 — layout and comments never change the result.
  Property theorems only (lexical core; the parser-level statements are in progress, see DESIGN.md §6).
-/
import WrapModel.Model.Lex
import WrapModel.Model.Parse
import WrapModel.Lemmas.AgreeLemmas

namespace WrapModel.Props.C12
open WrapModel.Lex

/-- whitespace in front of a token is skipped, whatever its amount -/
theorem C12_skipWs_append (ws rest : Src) (h : ∀ c ∈ ws, isWs c = true) : skipWs (ws ++ rest) = skipWs rest := by
  induction ws with
  | nil => rfl
  | cons c r ih =>
    have hc : isWs c = true := h c (by simp)
    simp only [List.cons_append, skipWs, hc, if_true]
    exact ih (fun d hd => h d (by simp [hd]))

/-- `skipWs` is idempotent -/
theorem C12_skipWs_idem (s : Src) : skipWs (skipWs s) = skipWs s := by
  induction s with
  | nil => rfl
  | cons c r ih =>
    by_cases hc : isWs c = true
    · simp [skipWs, hc, ih]
    · simp [skipWs, hc]

/-- a block comment may contain any characters (braces, semicolons, quotes, keywords): it is
    consumed up to and including the first `*/` -/
theorem C12_block_comment_body (body rest : Src) (h : blockEnd (body ++ ['*']) = none) :
    blockEnd (body ++ '*' :: '/' :: rest) = some rest := by
  induction body with
  | nil => simp [blockEnd]
  | cons c r ih =>
    simp only [List.cons_append] at h ⊢
    unfold blockEnd at h ⊢
    by_cases hc : (c == '*' && (r ++ ['*']).head? == some '/') = true
    · rw [if_pos hc] at h; simp at h
    · have hc' : (c == '*' && (r ++ '*' :: '/' :: rest).head? == some '/') = false := by
        cases r with
        | nil => simp at hc ⊢
        | cons d r' => simp at hc ⊢; exact hc
      simp only [hc, Bool.false_eq_true, if_false] at h
      simp only [hc', Bool.false_eq_true, if_false]
      exact ih h

/-- a line comment runs to the end of the line whatever else it contains -/
theorem C12_line_comment_body (body rest : Src) (h1 : ∀ c ∈ body, c ≠ '\n') (h2 : ∀ c ∈ body, c ≠ '\\') :
    lineEnd (body ++ '\n' :: rest) = '\n' :: rest := by
  induction body with
  | nil => simp [lineEnd]
  | cons c r ih =>
    have hc1 : c ≠ '\n' := h1 c (by simp)
    have hc2 : c ≠ '\\' := h2 c (by simp)
    simp only [List.cons_append]
    unfold lineEnd
    simp only [beq_iff_eq, hc1, hc2, if_false]
    exact ih (fun d hd => h1 d (by simp [hd])) (fun d hd => h2 d (by simp [hd]))

/-- pyparsing's continuation: a backslash-newline inside a line comment does not end it -/
theorem C12_line_comment_continuation (rest : Src) :
    lineEnd ('\\' :: '\n' :: rest) = lineEnd rest := by
  simp [lineEnd, lineEndBs]

/-- non-vacuity: comment bodies with braces, semicolons, quotes and keywords are skipped -/
example : skipGap "  /* class X { }; \" */ // namespace y {\n\t foo".toList = "foo".toList := by decide

end WrapModel.Props.C12

/-! ### layout invariance of *every* parser program (generic theorem) -/

namespace WrapModel.Props.C12
open WrapModel WrapModel.Lex WrapModel.Tok

/-- C12, generic form.  Take ANY parser program `p` over the token requests, ANY lexeme list `ls`, and ANY two
    character strings that spell `ls` (any amount of whitespace, line breaks and comments — with arbitrary content —
    between adjacent lexemes).  If the lexeme-level run is definite (never stuck on a request that does not fit the
    kind of the next lexeme), both character-level runs end in the same outcome: the same error, or the same value with
    remainders that spell the same remaining lexemes. -/
theorem C12_layout_any_parser (p : P α) {ls : List Lexeme} {s s' : Src} (h : Spells ls s) (h' : Spells ls s') :
    (∀ a ls', runL p ls = .ok a ls' →
        (∃ r, p.run s = .ok (a, r) ∧ Spells ls' r) ∧ (∃ r', p.run s' = .ok (a, r') ∧ Spells ls' r')) ∧
    (∀ e, runL p ls = .err e → p.run s = .error e ∧ p.run s' = .error e) := by
  obtain ⟨ok1, er1⟩ := lift p h
  obtain ⟨ok2, er2⟩ := lift p h'
  exact ⟨fun a ls' hr => ⟨ok1 a ls' hr, ok2 a ls' hr⟩, fun e hr => ⟨er1 e hr, er2 e hr⟩⟩

/-- C12 for the interface parser: two layouts of the same lexemes yield the same parse tree (or the same rejection),
    for every amount of fuel `n` -/
theorem C12_layout (n : Nat) {ls : List Lexeme} {s s' : Src} (h : Spells ls s) (h' : Spells ls s') :
    (∀ m ls', runL (Parse.pmodule n) ls = .ok m ls' →
        (∃ r, (Parse.pmodule n).run s = .ok (m, r)) ∧ (∃ r', (Parse.pmodule n).run s' = .ok (m, r'))) ∧
    (∀ e, runL (Parse.pmodule n) ls = .err e → (Parse.pmodule n).run s = .error e ∧ (Parse.pmodule n).run s' = .error e) := by
  obtain ⟨hok, herr⟩ := C12_layout_any_parser (Parse.pmodule n) h h'
  refine ⟨fun m ls' hr => ?_, herr⟩
  obtain ⟨⟨r, h1, _⟩, ⟨r', h2, _⟩⟩ := hok m ls' hr
  exact ⟨⟨r, h1⟩, ⟨r', h2⟩⟩

/-! non-vacuity: a concrete lexeme list, two concrete spellings (one with comments containing braces, semicolons,
    quotes and keywords), and a definite lexeme-level run -/

def exLexemes : List Lexeme := [.word "class", .word "A", .sym "{", .sym "}", .sym ";"]

def isOkEmptyClass : Outcome Module → Bool
  | .ok [.cls c] [] => c.name == "A" && c.members.isEmpty
  | _ => false

example : isOkEmptyClass (runL (Parse.pmodule 20) exLexemes) = true := by decide

theorem afterWord_of_head {c : Char} {t : Src} (h : isKwChar c = false) : AfterWord (c :: t) := by
  intro c' t' he; cases he; exact h

theorem wordLike_alpha {c : Char} {t : Src} (h1 : isWordStart c = true) (h2 : ∀ d ∈ c :: t, isWordChar d = true) :
    isWordLike (c :: t) := ⟨by simp, Or.inl ⟨c, t, rfl, h1, h2⟩⟩

example : Spells exLexemes "class A{};".toList := by
  have e : "class A{};".toList = [] ++ "class".toList ++ ([' '] ++ "A".toList ++ ([] ++ "{".toList ++ ([] ++ "}".toList ++ ([] ++ ";".toList ++ [])))) := by decide
  rw [e]
  refine Spells.cons [] (.word "class") _ _ Gap.nil (by intro _ _ _ h; cases h) ⟨wordLike_alpha (by decide) (by decide), afterWord_of_head (by decide)⟩ ?_
  refine Spells.cons [' '] (.word "A") _ _ (Gap.ws ' ' [] (by decide) Gap.nil) (by intro _ _ _ h; cases h) ⟨wordLike_alpha (by decide) (by decide), afterWord_of_head (by decide)⟩ ?_
  refine Spells.cons [] (.sym "{") _ _ Gap.nil (by intro _ _ _ h; cases h) ⟨by decide, fun h => absurd h (by decide)⟩ ?_
  refine Spells.cons [] (.sym "}") _ _ Gap.nil (by intro _ _ _ h; cases h) ⟨by decide, fun h => absurd h (by decide)⟩ ?_
  refine Spells.cons [] (.sym ";") _ _ Gap.nil (by intro _ _ _ h; cases h) ⟨by decide, fun h => absurd h (by decide)⟩ ?_
  exact Spells.nil [] Gap.nil

example : Spells exLexemes "class/*};\"*/A //class B {\n{ } ;\n".toList := by
  have e : "class/*};\"*/A //class B {\n{ } ;\n".toList =
      [] ++ "class".toList ++ (('/' :: '*' :: ("};\"".toList ++ '*' :: '/' :: [])) ++ "A".toList ++
        ((' ' :: '/' :: '/' :: ("class B {".toList ++ '\n' :: [])) ++ "{".toList ++ ([' '] ++ "}".toList ++ ([' '] ++ ";".toList ++ ['\n'])))) := by decide
  rw [e]
  refine Spells.cons [] (.word "class") _ _ Gap.nil (by intro _ _ _ h; cases h) ⟨wordLike_alpha (by decide) (by decide), afterWord_of_head (by decide)⟩ ?_
  refine Spells.cons _ (.word "A") _ _ (Gap.block "};\"".toList [] (by decide) Gap.nil) (by intro _ _ _ h; cases h)
    ⟨wordLike_alpha (by decide) (by decide), afterWord_of_head (by decide)⟩ ?_
  refine Spells.cons _ (.sym "{") _ _ (Gap.ws ' ' _ (by decide) (Gap.line "class B {".toList [] (by decide) (by decide) Gap.nil))
    (by intro _ _ _ h; cases h) ⟨by decide, fun h => absurd h (by decide)⟩ ?_
  refine Spells.cons [' '] (.sym "}") _ _ (Gap.ws ' ' [] (by decide) Gap.nil) (by intro _ _ _ h; cases h) ⟨by decide, fun h => absurd h (by decide)⟩ ?_
  refine Spells.cons [' '] (.sym ";") _ _ (Gap.ws ' ' [] (by decide) Gap.nil) (by intro _ _ _ h; cases h) ⟨by decide, fun h => absurd h (by decide)⟩ ?_
  exact Spells.nil ['\n'] (Gap.ws '\n' [] (by decide) Gap.nil)

end WrapModel.Props.C12
