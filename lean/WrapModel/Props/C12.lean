/-
  C12 — layout and comments never change the result.
  Property theorems only (lexical core; the parser-level statements are in progress, see DESIGN.md §6).
-/
import WrapModel.Model.Lex

namespace WrapModel.Props.C12
open WrapModel.Lex

/-- whitespace in front of a token is skipped, whatever its amount -/
theorem C12_skipWs_append (ws rest : Src) (h : ∀ c ∈ ws, isWs c = true) : skipWs (ws ++ rest) = skipWs rest := by
  induction ws with
  | nil => rfl
  | cons c r ih =>
    have hc : isWs c = true := h c (by simp)
    simp only [List.cons_append, skipWs, hc, if_true]
    exact ih (fun d hd => h d (by simp [hd]))

/-- `skipWs` is idempotent -/
theorem C12_skipWs_idem (s : Src) : skipWs (skipWs s) = skipWs s := by
  induction s with
  | nil => rfl
  | cons c r ih =>
    by_cases hc : isWs c = true
    · simp [skipWs, hc, ih]
    · simp [skipWs, hc]

/-- a block comment may contain any characters (braces, semicolons, quotes, keywords): it is
    consumed up to and including the first `*/` -/
theorem C12_block_comment_body (body rest : Src) (h : blockEnd (body ++ ['*']) = none) :
    blockEnd (body ++ '*' :: '/' :: rest) = some rest := by
  induction body with
  | nil => simp [blockEnd]
  | cons c r ih =>
    simp only [List.cons_append] at h ⊢
    unfold blockEnd at h ⊢
    by_cases hc : (c == '*' && (r ++ ['*']).head? == some '/') = true
    · rw [if_pos hc] at h; simp at h
    · have hc' : (c == '*' && (r ++ '*' :: '/' :: rest).head? == some '/') = false := by
        cases r with
        | nil => simp at hc ⊢
        | cons d r' => simp at hc ⊢; exact hc
      simp only [hc, Bool.false_eq_true, if_false] at h
      simp only [hc', Bool.false_eq_true, if_false]
      exact ih h

/-- a line comment runs to the end of the line whatever else it contains -/
theorem C12_line_comment_body (body rest : Src) (h1 : ∀ c ∈ body, c ≠ '\n') (h2 : ∀ c ∈ body, c ≠ '\\') :
    lineEnd (body ++ '\n' :: rest) = '\n' :: rest := by
  induction body with
  | nil => simp [lineEnd]
  | cons c r ih =>
    have hc1 : c ≠ '\n' := h1 c (by simp)
    have hc2 : c ≠ '\\' := h2 c (by simp)
    simp only [List.cons_append]
    unfold lineEnd
    simp only [beq_iff_eq, hc1, hc2, if_false]
    exact ih (fun d hd => h1 d (by simp [hd])) (fun d hd => h2 d (by simp [hd]))

/-- pyparsing's continuation: a backslash-newline inside a line comment does not end it -/
theorem C12_line_comment_continuation (rest : Src) :
    lineEnd ('\\' :: '\n' :: rest) = lineEnd rest := by
  simp [lineEnd, lineEndBs]

/-- non-vacuity: comment bodies with braces, semicolons, quotes and keywords are skipped -/
example : skipGap "  /* class X { }; \" */ // namespace y {\n\t foo".toList = "foo".toList := by decide

end WrapModel.Props.C12
