/-
  Property C18 — "The MATLAB runtime header converts values without loss."

  Only property theorems, non-vacuity examples and counterexample theorems live here; the model is
  `WrapModel/Model/Runtime/Mx.lean`, helper lemmas are in `WrapModel/Lemmas/MxLemmas.lean`.

  Conventions
    * `F : FloatOps` is the record of UNINTERPRETED floating-point conversions; every theorem holds
      for all `F` (none of the round-trip paths performs a floating-point operation).
    * Where the unguarded statement is false of matlab.h as written, the unguarded statement is
      kept in a comment, the theorem is called `…_partial` and carries an explicit decidable
      guard, and a `…_counterexample` theorem exhibits a concrete witness.
    * `FitsInt n` is `n < 2^31`: matlab.h stores every dimension in a C `int`.
-/
import WrapModel.Lemmas.MxLemmas

namespace WrapModel.Mx

/-! ## Scalars: wrap then unwrap is the identity, for ALL values -/

theorem C18_bool_rt (F : FloatOps) (b : Bool) : unwrapBool F (wrapBool b) = .ok b :=
  unwrapBool_wrapBool F b

theorem C18_char_rt (F : FloatOps) (c : CChar) : unwrapChar F (wrapChar c) = .ok c :=
  unwrapChar_wrapChar F c

theorem C18_uchar_rt (F : FloatOps) (c : CUChar) : unwrapUChar F (wrapUChar c) = .ok c :=
  unwrapUChar_wrapUChar F c

theorem C18_int_rt (F : FloatOps) (i : CInt) : unwrapInt F (wrapInt i) = .ok i :=
  unwrapInt_wrapInt F i

theorem C18_size_t_rt (F : FloatOps) (n : CSizeT) : unwrapSizeT F (wrapSizeT n) = .ok n :=
  unwrapSizeT_wrapSizeT F n

/-- every 64-bit pattern (NaN payloads, ±inf, -0.0, denormals …) comes back bit-identical -/
theorem C18_double_rt (F : FloatOps) (d : CDouble) : unwrapDouble F (wrapDouble d) = .ok d :=
  unwrapDouble_wrapDouble F d

example (F : FloatOps) : unwrapInt F (wrapInt (-5)) = .ok (-5) := C18_int_rt F _
example : (wrapInt (-5)).data = [0xfb, 0xff, 0xff, 0xff, 0, 0, 0, 0] := by decide
example : (wrapSizeT 0x0102030405060708).data = [8, 7, 6, 5, 4, 3, 2, 1] := by decide
example : (wrapChar (-128)).classId = .uint64 ∧ (wrapChar (-128)).data = [0x80, 0, 0, 0, 0, 0, 0, 0] := by
  decide

/-! ## Strings -/

/-- the guard of `C18_string_rt`: the string contains no NUL byte -/
abbrev NoNul (s : CString) : Prop := s.all (· != 0) = true

/- Full statement (FALSE of matlab.h as written — `mxCreateString(value.c_str())` stops at the
   first NUL):   ∀ s, unwrapString (wrapString s) = .ok s                                      -/

/-- all strings without an embedded NUL round-trip (C18_string_rt is the `_partial` form) -/
theorem C18_string_rt (s : CString) (h : NoNul s) : unwrapString (wrapString s) = .ok s := by
  rw [unwrapString_wrapString, cstr_of_noNul s h]

/-- what happens for ALL strings: the result is the prefix before the first NUL -/
theorem C18_string_rt_general (s : CString) : unwrapString (wrapString s) = .ok (cstr s) :=
  unwrapString_wrapString s

/-- "a\0b" comes back as "a" -/
theorem C18_string_rt_counterexample :
    ¬ NoNul [0x61#8, 0x00#8, 0x62#8] ∧
    unwrapString (wrapString [0x61#8, 0x00#8, 0x62#8]) = .ok [0x61#8] := by decide

example : NoNul [0x68, 0x69] := by decide
example : (wrapString [0x68, 0x69]).data = [0x68, 0, 0x69, 0] := by decide
example : unwrapString (wrapString []) = .ok [] := by decide

/-! ## Vectors (Point2/Point3 share the code) -/

/- Full statement (FALSE of matlab.h as written — `int m = v.size()`):
     ∀ v, unwrapVector (wrapVector v) = .ok v                                                  -/

/-- all lengths representable in `int`, including 0 -/
theorem C18_vector_rt_partial (v : Vec) (h : FitsInt v.length) :
    unwrapVector (wrapVector v) = .ok v :=
  unwrapVector_wrapVector v h

/-- the wrapped vector is an m×1 double array whose payload is the coefficients in order -/
theorem C18_vector_layout_partial (v : Vec) (h : FitsInt v.length) (i : Nat) (hi : i < v.length) :
    (wrapVector v).classId = .double ∧ (wrapVector v).m = v.length ∧ (wrapVector v).n = 1 ∧
    loadDouble (wrapVector v).data i = v[i] := by
  rw [wrapVector_eq v h]
  exact ⟨rfl, rfl, rfl, loadDouble_encodeD v i hi⟩

/-- a vector with 2^31 coefficients does not survive (`int m` is negative) -/
theorem C18_vector_rt_counterexample :
    ∃ v : Vec, ¬ FitsInt v.length ∧ unwrapVector (wrapVector v) ≠ .ok v :=
  ⟨List.replicate (2 ^ 31) 0#64,
   by rw [List.length_replicate]; decide,
   unwrapVector_wrapVector_huge _ List.length_replicate⟩

theorem C18_point2_rt (v : Vec) (h : v.length = 2) : unwrapPoint2 (wrapPoint2 v) = .ok v := by
  unfold unwrapPoint2 wrapPoint2
  rw [unwrapVector_wrapVector v (by unfold FitsInt; omega)]
  simp [h, bind, Except.bind, pure, Except.pure]

theorem C18_point3_rt (v : Vec) (h : v.length = 3) : unwrapPoint3 (wrapPoint3 v) = .ok v := by
  unfold unwrapPoint3 wrapPoint3
  rw [unwrapVector_wrapVector v (by unfold FitsInt; omega)]
  simp [h, bind, Except.bind, pure, Except.pure]

example : unwrapVector (wrapVector []) = .ok [] := C18_vector_rt_partial [] (by decide)
example : (wrapVector []).m = 0 ∧ (wrapVector []).n = 1 ∧ (wrapVector []).data = [] := by decide
example : (wrapVector [1, 2]).data = [1, 0, 0, 0, 0, 0, 0, 0, 2, 0, 0, 0, 0, 0, 0, 0] := by decide

/-! ## Matrices -/

/- Full statements (FALSE of matlab.h as written — `int m = A.rows(), n = A.cols()`):
     ∀ A, A.WF → unwrapMatrix (wrapMatrix A) = .ok A
     ∀ A i j, i < A.rows → j < A.cols → loadDouble (wrapMatrix A).data (i + j * A.rows) = A(i,j) -/

/-- all shapes representable in `int`, including 0×k and k×0 -/
theorem C18_matrix_rt_partial (A : Mat) (hwf : A.WF) (hr : FitsInt A.rows) (hc : FitsInt A.cols) :
    unwrapMatrix (wrapMatrix A) = .ok A :=
  unwrapMatrix_wrapMatrix A hwf hr hc

/-- MATLAB's column-major convention: the wrapped array is a rows×cols double array and element
    `i + j*rows` of its payload is `A(i,j)`.  (A double transposition, consistent in wrap and
    unwrap, would keep the round trip but break this theorem.) -/
theorem C18_matrix_layout_partial (A : Mat) (hr : FitsInt A.rows) (hc : FitsInt A.cols)
    (i j : Nat) (hi : i < A.rows) (hj : j < A.cols) :
    (wrapMatrix A).classId = .double ∧ (wrapMatrix A).m = A.rows ∧ (wrapMatrix A).n = A.cols ∧
    loadDouble (wrapMatrix A).data (i + j * A.rows) = A.get i j := by
  refine ⟨?_, ?_, ?_, loadDouble_wrapMatrix A hr hc i j hi hj⟩ <;> rw [wrapMatrix_eq A hr hc]

/-- the wrapped payload has exactly rows·cols doubles -/
theorem C18_matrix_wf_partial (A : Mat) (hr : FitsInt A.rows) (hc : FitsInt A.cols) :
    (wrapMatrix A).WF := by
  rw [wrapMatrix_eq A hr hc]
  simp only [MxArray.WF, length_encodeD, length_colMajor, ClassId.elemSize]
  rw [Nat.mul_comm A.rows A.cols, Nat.mul_comm]

/-- a (well-formed, empty) 2^31 × 0 matrix comes back as 0 × 0 -/
theorem C18_matrix_rt_counterexample :
    tallEmptyMat.WF ∧ ¬ FitsInt tallEmptyMat.rows ∧
    unwrapMatrix (wrapMatrix tallEmptyMat) ≠ .ok tallEmptyMat := by decide

example : (⟨2, 3, [1, 2, 3, 4, 5, 6]⟩ : Mat).WF := by decide
example : unwrapMatrix (wrapMatrix ⟨2, 3, [1, 2, 3, 4, 5, 6]⟩) = .ok ⟨2, 3, [1, 2, 3, 4, 5, 6]⟩ := by
  decide
/-- row-major [[1,2,3],[4,5,6]] becomes the column-major payload 1,4,2,5,3,6 -/
example : (wrapMatrix ⟨2, 3, [1, 2, 3, 4, 5, 6]⟩).data =
    encodeD [1, 4, 2, 5, 3, 6] := by decide
example : unwrapMatrix (wrapMatrix ⟨0, 3, []⟩) = .ok ⟨0, 3, []⟩ := by decide
example : unwrapMatrix (wrapMatrix ⟨3, 0, []⟩) = .ok ⟨3, 0, []⟩ := by decide

/-! ## Error paths -/

/- Full statement (FALSE of matlab.h as written — `int m = mxGetM(array), n = mxGetN(array)`):
     ∀ a, ¬(a.m = 1 ∧ a.n = 1) → every scalar unwrap of `a` is an error                        -/

/-- a non-1×1 array (dimensions below 2^32) is rejected by every scalar `unwrap`, with the message
    naming the conversion -/
theorem C18_scalar_errors_partial (F : FloatOps) (a : MxArray)
    (hm : a.m < 2 ^ 32) (hn : a.n < 2 ^ 32) (h : ¬ (a.m = 1 ∧ a.n = 1)) :
    unwrapBool F a = .error ⟨"wrap: not a scalar in ", "unwrap<bool>"⟩ ∧
    unwrapChar F a = .error ⟨"wrap: not a scalar in ", "unwrap<char>"⟩ ∧
    unwrapUChar F a = .error ⟨"wrap: not a scalar in ", "unwrap<unsigned char>"⟩ ∧
    unwrapInt F a = .error ⟨"wrap: not a scalar in ", "unwrap<int>"⟩ ∧
    unwrapSizeT F a = .error ⟨"wrap: not a scalar in ", "unwrap<size_t>"⟩ ∧
    unwrapDouble F a = .error ⟨"wrap: not a scalar in ", "unwrap<double>"⟩ := by
  have hmod := not_scalar_mod hm hn h
  refine ⟨?_, ?_, ?_, ?_, ?_, ?_⟩
  · unfold unwrapBool; rw [checkScalar_error a _ hmod]; rfl
  · unfold unwrapChar; rw [checkScalar_error a _ hmod]; rfl
  · unfold unwrapUChar; rw [checkScalar_error a _ hmod]; rfl
  · unfold unwrapInt; rw [checkScalar_error a _ hmod]; rfl
  · unfold unwrapSizeT; rw [checkScalar_error a _ hmod]; rfl
  · unfold unwrapDouble; rw [checkScalar_error a _ hmod]; rfl

/-- a well-formed (2^32+1)×1 uint64 column is accepted by `unwrap<int>` as if it were a scalar -/
theorem C18_scalar_errors_counterexample (F : FloatOps) :
    (constColumn (2 ^ 32 + 1) 0x07#8).WF ∧ (constColumn (2 ^ 32 + 1) 0x07#8).m ≠ 1 ∧
    unwrapInt F (constColumn (2 ^ 32 + 1) 0x07#8) = .ok 0x07070707#32 :=
  ⟨constColumn_wf _ _, by show 2 ^ 32 + 1 ≠ 1; decide, unwrapInt_hugeColumn F _ rfl⟩

/-- a second, small witness (reproduced on the real header by the correspondence driver with
    `--include-int-overflow`): a well-formed (2^32+1)×(2^32+1) cell array is accepted as a scalar -/
theorem C18_scalar_errors_counterexample_cell (F : FloatOps) :
    let a : MxArray := ⟨.cell, 2 ^ 32 + 1, 2 ^ 32 + 1, false, []⟩
    a.WF ∧ ¬ (a.m = 1 ∧ a.n = 1) ∧ unwrapInt F a = .ok (F.toI32 (F.ofInt 0)) :=
  ⟨by decide, by decide, rfl⟩

/- Full statement (FALSE of matlab.h as written — `int n = mxGetN(array)`):
     ∀ a, a.classId ≠ .double ∨ a.n ≠ 1 → unwrapVector a is an error                           -/

/-- a non-double array, or one with n ≠ 1 (n below 2^32), is rejected by the vector/point unwraps -/
theorem C18_vector_errors_partial (a : MxArray) (hn : a.n < 2 ^ 32)
    (h : a.classId ≠ .double ∨ a.n ≠ 1) :
    unwrapVector a = .error ⟨"wrap:error", "unwrap<vector>: not a vector"⟩ ∧
    unwrapPoint2 a = .error ⟨"wrap:error", "unwrap<vector>: not a vector"⟩ ∧
    unwrapPoint3 a = .error ⟨"wrap:error", "unwrap<vector>: not a vector"⟩ := by
  have h' : a.classId ≠ .double ∨ a.n % 2 ^ 32 ≠ 1 := by
    rw [Nat.mod_eq_of_lt hn]; exact h
  have e := unwrapVector_error a h'
  refine ⟨e, ?_, ?_⟩
  · unfold unwrapPoint2; rw [e]; rfl
  · unfold unwrapPoint3; rw [e]; rfl

/-- a well-formed (empty) 0×(2^32+1) double array is accepted as a vector -/
theorem C18_vector_errors_counterexample :
    wideEmptyMx.WF ∧ wideEmptyMx.n ≠ 1 ∧ unwrapVector wideEmptyMx = .ok [] := by decide

/-- a non-double array is never a matrix (no guard needed) -/
theorem C18_matrix_errors (a : MxArray) (h : a.classId ≠ .double) :
    unwrapMatrix a = .error ⟨"wrap:error", "unwrap<matrix>: not a matrix"⟩ :=
  unwrapMatrix_error a h

/-- a non-char array is never a string (no guard needed) -/
theorem C18_string_errors (a : MxArray) (h : a.classId ≠ .char) :
    unwrapString a = .error ⟨"wrap:error", "unwrap<string>: not a character array"⟩ :=
  unwrapString_error a h

example (F : FloatOps) : unwrapInt F (mxCreateNumericMatrix 1 2 .uint64)
    = .error ⟨"wrap: not a scalar in ", "unwrap<int>"⟩ :=
  (C18_scalar_errors_partial F _ (by decide) (by decide) (by decide)).2.2.2.1
example : unwrapVector (mxCreateDoubleMatrix 1 3)
    = .error ⟨"wrap:error", "unwrap<vector>: not a vector"⟩ := by decide
example : unwrapVector (mxCreateNumericMatrix 3 1 .int64)
    = .error ⟨"wrap:error", "unwrap<vector>: not a vector"⟩ := by decide
example : unwrapMatrix (mxCreateNumericMatrix 2 2 .single)
    = .error ⟨"wrap:error", "unwrap<matrix>: not a matrix"⟩ := by decide
example : unwrapString (mxCreateDoubleMatrix 1 1)
    = .error ⟨"wrap:error", "unwrap<string>: not a character array"⟩ := by decide

/-! ## Object handles: invariants over ALL operation sequences

  `exec HState.init ops` is the state after running the history `ops` (an op that is rejected by
  its guard or fails leaves the state unchanged).  Guards (explicit in `Mx.step`):
  `wrapShared o`/`dropExternal o` need a reference held by the C++ side (`ext o > 0`);
  `unwrapShared h`/`unwrapPtr h`/`release h` need an existing handle object `h` (MATLAB runs
  `delete` once per handle object); `release`/`unwrapPtr` need a handle produced by
  `wrap_shared_ptr`; `fake` may not forge a real 1×1 uint64 property.
-/

/-- the invariant `Inv` (see MxLemmas) holds in every reachable state -/
theorem C18_handle_invariant (ops : List Op) : Inv (exec HState.init ops) :=
  Inv.init.run ops

/-- strong count = live heap cells designating the object + external owners -/
theorem C18_handle_count (ops : List Op) (o : Nat) :
    (exec HState.init ops).count o =
      (exec HState.init ops).cellsTo o + (exec HState.init ops).ext o :=
  (C18_handle_invariant ops).count_eq o

/-- the destructor of an object has not run iff its strong count is positive -/
theorem C18_handle_alive_iff_count (ops : List Op) (o : Nat) :
    (exec HState.init ops).alive o = true ↔ 0 < (exec HState.init ops).count o :=
  (C18_handle_invariant ops).alive_iff o

/-- an object is alive exactly as long as a handle made for it exists (or the C++ side still
    holds a reference of its own) -/
theorem C18_handle_alive_iff_owner (ops : List Op) (o : Nat) :
    (exec HState.init ops).alive o = true ↔
      (∃ p ∈ (exec HState.init ops).handles, p.2.origin = some o) ∨
      0 < (exec HState.init ops).ext o :=
  alive_iff_owner (C18_handle_invariant ops) o

/-- the collector holds exactly the live heap cells -/
theorem C18_handle_collector (ops : List Op) :
    (exec HState.init ops).collector = (exec HState.init ops).cells.map Prod.fst :=
  (C18_handle_invariant ops).collector_eq

/-- a handle obtained from `wrap_shared_ptr` for object `o` unwraps to `o` — immediately and after
    any further history that does not release it — and unwrapping does not change the state -/
theorem C18_handle_same_object (pre : List Op) (o h : Nat) (s1 : HState)
    (hw : wrap_shared_ptr (exec HState.init pre) o = .ok (s1, .handle h))
    (post : List Op) (hpost : Op.release h ∉ post) :
    unwrap_shared_ptr (exec s1 post) h = .ok (exec s1 post, .obj o) := by
  obtain ⟨I1, ho, hmem, hor⟩ := wrap_shared_ptr_handle (C18_handle_invariant pre) o h hw
  exact unwrap_shared_ptr_wrapped (I1.run post) h ho o
    (handles_run I1 post h hpost (h, ho) hmem rfl) hor

/-- …and that object is alive whenever the handle exists -/
theorem C18_handle_keeps_alive (ops : List Op) (p : Nat × HandleObj) (o : Nat)
    (hp : p ∈ (exec HState.init ops).handles) (hor : p.2.origin = some o) :
    (exec HState.init ops).alive o = true :=
  (C18_handle_alive_iff_owner ops o).mpr (Or.inl ⟨p, hp, hor⟩)

/-- with the guard, a handle cannot be released twice: the second `release` is rejected before any
    C++ code runs -/
theorem C18_handle_release_twice_guarded (ops : List Op) (h : Nat) (s' : HState) (r : Res)
    (hr : release (exec HState.init ops) h = .ok (s', r)) :
    release s' h = .error (.guard "nohandle") :=
  release_twice_guarded (C18_handle_invariant ops) h hr

/-- without the guard, calling the generated destructor twice with the same pointer array is a
    double delete -/
theorem C18_handle_double_delete_unguarded (ops : List Op) (a o : Nat) (s1 : HState)
    (hcell : (a, o) ∈ (exec HState.init ops).cells)
    (h1 : destructorCall (exec HState.init ops) (ptrMx a) = .ok s1) :
    destructorCall s1 (ptrMx a) = .error (.ub "delete of a dead shared_ptr*") :=
  destructor_twice_ub (C18_handle_invariant ops) a o hcell h1

/-- the guards suffice: no op of any history executes undefined behaviour -/
theorem C18_handle_no_ub (ops : List Op) (op : Op) (w : String) :
    step (exec HState.init ops) op ≠ .error (.ub w) :=
  step_no_ub (C18_handle_invariant ops) op w

/-! ### `unwrap_ptr` (matlab.h:512-518) does NOT designate the object — known defect -/

/- Full statement (FALSE of matlab.h as written):
     unwrap_ptr<Class>(handle) returns the address of the C++ object the handle was made for.   -/

/-- whatever `unwrap_ptr` returns, it is never a pointer to a C++ object -/
theorem C18_unwrap_ptr_never_object (s s' : HState) (h : Nat) (r : Res) (o : Nat)
    (hu : unwrap_ptr s h = .ok (s', r)) : r ≠ .ptr (.object o) := by
  unfold unwrap_ptr at hu
  cases hl : s.handle? h with
  | none => simp [hl] at hu
  | some ho =>
    simp only [hl] at hu
    split at hu
    · cases hu
    · simp only [Except.ok.injEq, Prod.mk.injEq] at hu
      rw [← hu.2]; intro e; cases e

/-- concrete witness: one object, one handle; `unwrap_shared_ptr` finds object 0, `unwrap_ptr`
    returns the payload of the property array -/
theorem C18_unwrap_ptr_counterexample :
    let s := exec HState.init [.newObject, .wrapShared 0]
    unwrap_shared_ptr s 0 = .ok (s, .obj 0) ∧
    unwrap_ptr s 0 = .ok (s, .ptr (.mxData 0)) ∧
    unwrap_ptr s 0 ≠ .ok (s, .ptr (.object 0)) := by decide

/-- non-vacuity of the handle theorems: a concrete history -/
example :
    let s := exec HState.init [.newObject, .wrapShared 0, .dropExternal 0]
    s.alive 0 = true ∧ s.count 0 = 1 ∧ s.cellsTo 0 = 1 ∧ s.ext 0 = 0 ∧ s.collector.length = 1 := by
  decide
example :
    let s := exec HState.init [.newObject, .wrapShared 0, .dropExternal 0, .release 0]
    s.alive 0 = false ∧ s.count 0 = 0 ∧ s.handles = [] ∧ s.collector = [] := by decide
example : (run HState.init [.newObject, .wrapShared 0, .release 0, .release 0]).2.getLast?
    = some (.error (.guard "nohandle")) := by decide

/-! ## Axioms -/


end WrapModel.Mx
