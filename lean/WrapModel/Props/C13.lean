/-
  C13 — instantiations are independent of each other and of parameter spelling.
  Property theorems only.

  In the model an instantiation is a *pure function* of the declaration and the argument tuple
  (`Inst.instClass F c nsPath insts newName es`): the Python code's `deepcopy`s are what makes the implementation
  agree with that (tie: snapshot of the original declarations + byte-exact instantiated dumps).  What the property
  adds — the tuple's result does not depend on which other tuples are requested, nor on their order — is then a
  statement about `product` and `mapM'`.
-/
import WrapModel.Model.Inst
import WrapModel.Spec.Subst
import Mathlib.Data.List.Perm.Basic

namespace WrapModel.Props.C13
open WrapModel WrapModel.Inst WrapModel.Spec

theorem mapM'_ok_iff {f : α → Except Err β} {xs : List α} {ys : List β} :
    mapM' f xs = .ok ys ↔ List.Forall₂ (fun x y => f x = .ok y) xs ys := by
  induction xs generalizing ys with
  | nil => cases ys <;> simp [mapM', pure, Except.pure]
  | cons x r ih =>
    cases hx : f x with
    | error e =>
      simp [mapM', hx, bind, Except.bind]
      intro h; cases h with | cons h _ => simp [hx] at h
    | ok y =>
      cases hr : mapM' f r with
      | error e =>
        simp only [mapM', hx, hr, bind, Except.bind, pure, Except.pure]
        constructor
        · intro h; cases h
        · intro h; cases h with
          | cons _ h2 => have := ih.2 h2; simp [hr] at this
      | ok ys' =>
        simp only [mapM', hx, hr, bind, Except.bind, pure, Except.pure, Except.ok.injEq]
        constructor
        · rintro rfl; exact List.Forall₂.cons hx (ih.1 hr)
        · intro h; cases h with
          | cons h1 h2 =>
            have := ih.2 h2
            rw [hr] at this
            simp only [Except.ok.injEq] at this
            rw [hx] at h1
            simp only [Except.ok.injEq] at h1
            subst h1; subst this; rfl

/-- the result for one argument tuple does not depend on which other tuples are requested: every instantiation
    produced from the full lists is exactly what the declaration yields for that tuple alone -/
theorem C13_independent (F : TyInst) (c : ClassDecl) (ps : Template) (p es : List String) (out : List IDecl)
    (hc : c.tmpl = some ps) (h : instLeaf F (.cls c) p es = .ok out) :
    List.Forall₂ (fun is d => ∃ ic, instClass F c p is "" es = .ok ic ∧ d = IDecl.cls ic) (product (ps.map (·.insts))) out := by
  simp only [instLeaf, hc] at h
  have := mapM'_ok_iff.1 h
  refine List.Forall₂.imp ?_ this
  intro is d hd
  simp only [bind, Except.bind, pure, Except.pure] at hd
  split at hd
  · simp at hd
  · next ic hic => simp only [Except.ok.injEq] at hd; exact ⟨ic, hic, hd.symm⟩

/-- in particular the tuple's result with singleton lists is the same object -/
theorem C13_singleton (F : TyInst) (c : ClassDecl) (p es : List String) (is : List Typename) :
    product (is.map fun i => [i]) = [is] := by
  induction is with
  | nil => rfl
  | cons i r ih => simp [product, ih]

/-- the specification is insensitive to the spelling of a template parameter: substituting through a renamed
    parameter list gives the same type when the declaration is renamed consistently (simple unqualified occurrence) -/
theorem indexOf?_lt {x : String} {l : List String} {k : Nat} (h : indexOf? x l = some k) : k < l.length := by
  induction l generalizing k with
  | nil => simp [indexOf?] at h
  | cons y r ih =>
    simp only [indexOf?] at h
    split at h
    · simp at h; subst h; simp
    · cases h2 : indexOf? x r with
      | none => simp [h2] at h
      | some j => simp [h2] at h; subst h; have := ih h2; simp; omega

theorem indexOf?_some_of_mem {x : String} {l : List String} (h : x ∈ l) : ∃ k, indexOf? x l = some k := by
  induction l with
  | nil => simp at h
  | cons y r ih =>
    simp only [indexOf?]
    split
    · exact ⟨0, rfl⟩
    · next hne =>
      have : x ∈ r := by
        rcases List.mem_cons.1 h with h | h
        · exact absurd (by simp [h]) hne
        · exact h
      obtain ⟨k, hk⟩ := ih this
      exact ⟨k + 1, by simp [hk]⟩

theorem C13_alpha_exact (tns : List String) (is : List Typename) (this : Option Typename) (old new : String) (q : Quals) (b : Bool)
    (hnew : new ∉ tns) (hold : old ∈ tns) (hnd : tns.Nodup) (hlen : tns.length ≤ is.length) :
    substType (tns.map fun t => if t = old then new else t) is this (.simple ⟨[], new, []⟩ q b)
      = substType tns is this (.simple ⟨[], old, []⟩ q b) := by
  have key : ∀ (l : List String), new ∉ l → indexOf? new (l.map fun t => if t = old then new else t) = indexOf? old l := by
    intro l
    induction l with
    | nil => intro _; rfl
    | cons x r ih =>
      intro hn
      have hx : x ≠ new := fun h => hn (by simp [h])
      have hr : new ∉ r := fun h => hn (by simp [h])
      by_cases hxo : x = old
      · subst hxo; simp [indexOf?]
      · have h1 : (new == x) = false := by simpa using (fun h => hx h.symm)
        have h2 : (old == x) = false := by simpa using (fun h => hxo h.symm)
        simp [indexOf?, hxo, h1, h2, ih hr]
  have hk := key tns hnew
  simp only [substType, lookupParam, hk]
  obtain ⟨k, hidx⟩ := indexOf?_some_of_mem hold
  have hk2 : k < is.length := Nat.lt_of_lt_of_le (indexOf?_lt hidx) hlen
  simp [hidx, List.getElem?_eq_getElem hk2]

theorem flatMap_sublist {α β : Type} {f g : α → List β} (hfg : ∀ a, (f a).Sublist (g a)) {xs xs' : List α}
    (h : xs.Sublist xs') : (xs.flatMap f).Sublist (xs'.flatMap g) := by
  induction h with
  | slnil => simp
  | cons a _ ih =>
    simp only [List.flatMap_cons]
    exact ih.trans (List.sublist_append_right _ _)
  | cons_cons a _ ih =>
    simp only [List.flatMap_cons]
    exact List.Sublist.append (hfg a) ih

theorem product_sublist {α : Type} {ls ls' : List (List α)} (h : List.Forall₂ List.Sublist ls ls') :
    (product ls).Sublist (product ls') := by
  induction h with
  | nil => simp [product]
  | cons hx _ ih =>
    simp only [product]
    exact flatMap_sublist (fun a => ih.map _) hx

theorem mapM'_sublist {α β : Type} {f : α → Except Err β} {xs xs' : List α} (h : xs.Sublist xs') :
    ∀ {ys' : List β}, mapM' f xs' = .ok ys' → ∃ ys, mapM' f xs = .ok ys ∧ ys.Sublist ys' := by
  induction h with
  | slnil => intro ys' h'; exact ⟨[], rfl, by simp⟩
  | cons a _ ih =>
    intro ys' h'
    cases (mapM'_ok_iff.1 h') with
    | cons h1 h2 =>
      obtain ⟨ys, hy, hs⟩ := ih (mapM'_ok_iff.2 h2)
      exact ⟨ys, hy, hs.trans (List.sublist_cons_self _ _)⟩
  | cons_cons a _ ih =>
    intro ys' h'
    cases (mapM'_ok_iff.1 h') with
    | cons h1 h2 =>
      obtain ⟨ys, hy, hs⟩ := ih (mapM'_ok_iff.2 h2)
      exact ⟨_ :: ys, mapM'_ok_iff.2 (List.Forall₂.cons h1 (mapM'_ok_iff.1 hy)), hs.cons_cons _⟩

/-- **requesting fewer instantiations only removes results.**  If every parameter's list is a sub-list of the original
    one (any parameters, any positions removed), the instantiations produced are a sub-sequence of the original ones: the
    survivors are unchanged (each is `f` of its own tuple) and keep their relative order -/
theorem C13_fewer_requests {α β : Type} (f : List α → Except Err β) {ls ls' : List (List α)}
    (h : List.Forall₂ List.Sublist ls ls') {ys' : List β} (h' : mapM' f (product ls') = .ok ys') :
    ∃ ys, mapM' f (product ls) = .ok ys ∧ ys.Sublist ys' :=
  mapM'_sublist (product_sublist h) h'

/-- the same for a class template: `instLeaf` is that `mapM'` over the product of the declared lists -/
theorem C13_fewer_requests_class (F : TyInst) (c : ClassDecl) (ps : Template) (p es : List String) (out' : List IDecl)
    (hc : c.tmpl = some ps) (h : instLeaf F (.cls c) p es = .ok out') (ls : List (List Typename))
    (hl : List.Forall₂ List.Sublist ls (ps.map (·.insts))) :
    ∃ out, mapM' (fun is => do let ic ← instClass F c p is "" es; pure (IDecl.cls ic)) (product ls) = .ok out ∧
      out.Sublist out' := by
  simp only [instLeaf, hc] at h
  exact C13_fewer_requests _ hl h
/-- non-vacuity: dropping `B` from the first parameter's list -/
example : List.Forall₂ List.Sublist [["A"], ["X", "Y"]] [["A", "B"], ["X", "Y"]] ∧
    product [["A"], ["X", "Y"]] = [["A", "X"], ["A", "Y"]] := by
  refine ⟨.cons (by decide) (.cons (List.Sublist.refl _) .nil), by decide⟩

/-- non-vacuity -/
example : product ([⟨[], "A", []⟩, ⟨[], "B", []⟩].map fun i : Typename => [i]) = [[⟨[], "A", []⟩, ⟨[], "B", []⟩]] := by simp [product]

end WrapModel.Props.C13
