/-
C17 — Embedded docstrings are the right text, correctly escaped, change nothing else.

Property theorems about the model of gtwrap/xml_parser/xml_parser.py and of the
escaping expression of pybind_wrapper.py:282 (WrapModel/Model/Xml.lean), with
the C++ literal decoder of WrapModel/Model/CppLit.lean.  Helper lemmas are in
WrapModel/Lemmas/XmlLemmas.lean.  Only theorems, non-vacuity examples and
counterexamples here.

Verdict carried by this file:
* escaping   — TRUE for all Unicode texts since fix 58823a1 (`C17_escape_roundtrip`); for the former
               `repr()`-based expression it was false: exact characterisation `C17_escape_roundtrip_exact`,
               counterexamples machine-checked;
* lookup     — holds for uniquely matching members (`C17_lookup_*`);
* missing    — holds only under a guard; on XML that Doxygen would not write two exception classes escape
               (`C17_missing_counterexample_*`; the third one, `IndexError`, was repaired by fix b652f11);
* state      — `C17_state`: the k-th lookup of an ambiguous key returns the k-th
               overload, and the empty docstring once the overloads are exhausted (fix b652f11).
("change nothing else" is a statement about `_wrap_method`'s output; it is
checked differentially by harness/c17_impl.py, not modelled here.)
-/
import WrapModel.Lemmas.XmlLemmas

namespace WrapModel.Xml
open WrapModel.CppLit

-- `decide` walks the 711-range printable table; the default recursion limit is too small.
set_option maxRecDepth 20000

/-! ## 1. Escaping -/

/-
HISTORY.  Until fix 58823a1 the generator escaped with `repr(text)[1:-1].replace('"', r'\"')` (modelled by `escapeDoc`);
for that expression the full statement

  decodeS (escapeDoc t) = some (utf8 t.toList)        for every text t

is FALSE; its exact domain of validity is characterised below (`C17_escape_roundtrip_exact`, counterexamples
`C17_escape_counterexample_*`).  The fix replaced the expression by the dedicated escaper `cpp_string_literal_body`
(= `cppEscape`), for which the FULL statement is a theorem: `C17_escape_roundtrip` at the end of this section.  The
theorems about `escapeDoc` are kept: they are the proof that the repair was needed and what exactly it repairs.

`repr` renders the non-printable characters of U+0080..U+00FF (C1 controls,
NBSP U+00A0, soft hyphen U+00AD), DEL and the C0 controls as `\xNN`.  In a C++
narrow literal `\xNN` is ONE byte NN — not the UTF-8 encoding of U+00NN when
NN ≥ 0x80 — and the escape greedily swallows following hexadecimal digits.
See `C17_escape_counterexample_*` below.
-/

/-- PARTIAL (general): for every printability predicate `p`, on the texts accepted by the
    decidable guard `okTextL p` the emitted literal body is well-formed C++ and
    decodes to exactly the UTF-8 encoding of the text — whatever quotes,
    backslashes, newlines, tabs, printable or `\u`/`\U`-escaped characters it holds. -/
theorem C17_escape_roundtrip_general (p : Char → Bool) (t : List Char)
    (h : okTextL p t = true) : decode (escapeDocL p t) = some (utf8 t) :=
  decode_escapeDocL_of_ok p t h

/-- EXACT: the guard is not merely sufficient — it characterises the texts on which
    the code is right.  Outside it the literal is ill-formed or decodes to other bytes. -/
theorem C17_escape_roundtrip_exact (p : Char → Bool) (t : List Char) :
    decode (escapeDocL p t) = some (utf8 t) ↔ okTextL p t = true :=
  ⟨ok_of_decode_escapeDocL p t, decode_escapeDocL_of_ok p t⟩

/-- PARTIAL, on strings, for the printable table of the running interpreter. -/
theorem C17_escape_roundtrip_partial (t : String) (h : okText t = true) :
    decodeS (escapeDoc t) = some (utf8 t.toList) := by
  unfold decodeS escapeDoc
  rw [String.toList_ofList]
  exact decode_escapeDocL_of_ok _ _ h

/-- The same as an equivalence on strings. -/
theorem C17_escape_roundtrip_exact_string (t : String) :
    decodeS (escapeDoc t) = some (utf8 t.toList) ↔ okText t = true := by
  unfold decodeS escapeDoc okText
  rw [String.toList_ofList]
  exact C17_escape_roundtrip_exact _ _

/-- A weaker, easily read sufficient condition: no character is rendered as `\xNN`. -/
theorem C17_escape_roundtrip_no_xescape (p : Char → Bool) (t : List Char)
    (h : ∀ c ∈ t, xEscaped p c = false) : decode (escapeDocL p t) = some (utf8 t) := by
  apply decode_escapeDocL_of_ok
  induction t with
  | nil => rfl
  | cons c cs ih =>
    simp only [okTextL, h c (List.mem_cons_self ..), Bool.not_false, Bool.true_or, Bool.true_and]
    exact ih (fun d hd => h d (List.mem_cons_of_mem _ hd))

/-- `utf8` is the UTF-8 encoding Lean itself uses for strings. -/
theorem C17_utf8_is_toUTF8 (t : String) : (utf8 t.toList).toByteArray = t.toUTF8 := by
  have : t.toUTF8 = (String.ofList t.toList).toByteArray := by rw [String.ofList_toList]; rfl
  rw [this, String.toByteArray_ofList]
  rfl

/-- In Latin-1 the generated table marks exactly U+0080..U+00A0 and U+00AD as non-printable,
    so these (with DEL and the C0 controls) are the `\xNN`-escaped characters. -/
theorem C17_table_latin1 : ∀ n : Fin 256, 128 ≤ n.val →
    (Gen.inRanges Gen.printableRanges n.val = false ↔ (n.val ≤ 160 ∨ n.val = 173)) := by
  decide

-- non-vacuity: the guard accepts, and the round trip holds on, texts with quotes,
-- backslashes, newlines, tabs, CR, CJK, astral emoji, U+2028 (escaped as \u2028),
-- U+3000, an unassigned code point (escaped as \u0378)
example : okText "it's \"q\" \\ \n\t\r 中 😀 \u2028 \u3000 \u0378 é" = true := by decide
example : escapeDoc "it's" = "it's" := by decide
example : escapeDoc "say \"hi\"" = "say \\\"hi\\\"" := by decide
example : escapeDoc "both ' and \"" = "both \\' and \\\"" := by decide
example : escapeDoc "\\\"" = "\\\\\\\"" := by decide
example : escapeDoc "a\nb\u2028c" = "a\\nb\\u2028c" := by decide
example : decodeS (escapeDoc "both ' and \" \\ \n 😀\u2028") =
    some (utf8 "both ' and \" \\ \n 😀\u2028".toList) := by decide
-- DEL and C0 controls are fine when no hex digit follows
example : okText "\x7f \x01g" = true := by decide

/-- NBSP: the literal is well-formed but holds the single byte A0 instead of C2 A0. -/
theorem C17_escape_counterexample_nbsp :
    escapeDoc "a\u00a0z" = "a\\xa0z" ∧
    decodeS (escapeDoc "a\u00a0z") = some [0x61, 0xA0, 0x7A] ∧
    utf8 "a\u00a0z".toList = [0x61, 0xC2, 0xA0, 0x7A] := by decide

/-- NBSP followed by a hex digit: `\xa0b` is out of range — the literal is ill-formed. -/
theorem C17_escape_counterexample_nbsp_hex :
    escapeDoc "a\u00a0b" = "a\\xa0b" ∧ decodeS (escapeDoc "a\u00a0b") = none := by decide

/-- A C0 control followed by a hex digit: well-formed, silently the wrong byte. -/
theorem C17_escape_counterexample_ctrl_hex :
    escapeDoc "\x01a" = "\\x01a" ∧ decodeS (escapeDoc "\x01a") = some [0x1A] ∧
    utf8 "\x01a".toList = [0x01, 0x61] := by decide

/-- DEL followed by a hex digit: ill-formed. -/
theorem C17_escape_counterexample_del_hex : decodeS (escapeDoc "\x7fa") = none := by decide

/-- NEL (U+0085, reachable from XML) and the soft hyphen U+00AD. -/
theorem C17_escape_counterexample_c1 :
    decodeS (escapeDoc "\u0085") = some [0x85] ∧ utf8 "\u0085".toList = [0xC2, 0x85] ∧
    decodeS (escapeDoc "\u00ad") = some [0xAD] ∧ utf8 "\u00ad".toList = [0xC2, 0xAD] := by decide

/-- Hence the unguarded statement is false. -/
theorem C17_escape_roundtrip_false :
    ¬ ∀ t : String, decodeS (escapeDoc t) = some (utf8 t.toList) := by
  intro h
  have := h "a\u00a0b"
  rw [C17_escape_counterexample_nbsp_hex.2] at this
  exact absurd this (by simp)

/-- the dedicated escaper `cppEscape` (WrapModel/Model/Xml.lean; `cpp_string_literal_body` in gtwrap/pybind_wrapper.py
    since fix 58823a1) satisfies the FULL statement, for every text over Unicode -/
theorem C17_fix_escape_roundtrip (t : String) :
    decodeS (cppEscape t) = some (utf8 t.toList) := by
  unfold decodeS cppEscape
  rw [String.toList_ofList]
  exact decode_cppEscapeL _

/-- **C17, escaping — FULL STATEMENT.**  The literal the generator emits for a documentation text `t` — whatever
    characters it contains — is `, "` + body + `"`, and a C++ compiler decodes that body to exactly the UTF-8 bytes of `t`. -/
theorem C17_escape_roundtrip (t : String) :
    ∃ body, docstringArg t = ", \"" ++ body ++ "\"" ∧ decodeS body = some (utf8 t.toList) :=
  ⟨cppEscape t, rfl, C17_fix_escape_roundtrip t⟩

example : cppEscape "a\u00a0b \x01a \x7f \"q\" ??/ \\" = "a\u00a0b \\001a \\177 \\\"q\\\" \\?\\?/ \\\\" := by
  decide

/-! ## 2. Lookup -/

/-- The candidates are exactly the elements below `compounddef/sectiondef` of the class
    file that have a `name` child with the requested method name. -/
theorem C17_lookup_candidates {root m : Elem} {meth : String} :
    m ∈ findMembers root meth ↔
      ∃ cd ∈ root.childrenTag "compounddef", ∃ sd ∈ cd.childrenTag "sectiondef",
        m ∈ sd.descendants ∧ m.hasName meth = true :=
  mem_findMembers

/-- Overloads with a different parameter-name list are rejected by the filter, one with the
    requested list is accepted: overloads are told apart by their parameter names. -/
theorem C17_lookup_overloads_told_apart {m m' : Elem} {args args' : List String}
    (hm : NamedParams m args) (hm' : ExactParams m' args') (hne : args' ≠ args) :
    judgeMember m args = .ok (.accept []) ∧ judgeMember m' args = .ok .reject :=
  ⟨judge_named hm, judge_other hm' hne⟩

/-- UNIQUE MATCH (general form).  If the class resolves through the index to a class file,
    and of the members called `meth` exactly one (`m`) is accepted by the filter — with the
    list `ign` of ignored optional parameters — while every other one is rejected, then the
    lookup returns the docstring formatted from `m` alone, prints no warning and leaves the
    memory untouched, whatever the memory was. -/
theorem C17_lookup_unique_general {d : Dir} {st : DocState} {cls meth : String}
    {args : List String} {root m : Elem} {pre post : List Elem} {ign : List (Option String)}
    (hres : Resolves d cls root)
    (hmem : findMembers root meth = pre ++ m :: post)
    (hm : judgeMember m args = .ok (.accept ign))
    (hothers : ∀ x ∈ pre ++ post, judgeMember x args = .ok .reject) :
    extractDocstring d st cls meth args = ⟨formatDocstring m ign, [], st⟩ := by
  have hg := getMemberDefs_resolves hres meth
  rw [hmem] at hg
  apply extract_unique hg
  exact filter_single (fun x hx => hothers x (List.mem_append_left _ hx)) hm
    (fun x hx => hothers x (List.mem_append_right _ hx))

/-- UNIQUE MATCH.  Exactly one member (`m`) has the parameter-name list `args` (with or
    without default values); every other member called `meth` has some other list and no
    defaults.  Then the docstring is the one formatted from `m`, nothing ignored. -/
theorem C17_lookup_unique {d : Dir} {st : DocState} {cls meth : String} {args : List String}
    {root m : Elem} {pre post : List Elem}
    (hres : Resolves d cls root)
    (hmem : findMembers root meth = pre ++ m :: post)
    (hm : NamedParams m args)
    (hothers : ∀ x ∈ pre ++ post, ∃ args', ExactParams x args' ∧ args' ≠ args) :
    extractDocstring d st cls meth args = ⟨formatDocstring m [], [], st⟩ :=
  C17_lookup_unique_general hres hmem (judge_named hm) (fun x hx => by
    obtain ⟨a', h1, h2⟩ := hothers x hx
    exact judge_other h1 h2)

/-- OPTIONAL PARAMETERS.  Looked up with the required names only, a member whose further
    parameters all have default values matches, and the docstring is formatted from it with
    the optional parameters' documentation lines left out (`ign` = their `declname`s). -/
theorem C17_lookup_optional {d : Dir} {st : DocState} {cls meth : String} {args : List String}
    {root m : Elem} {pre post req opt : List Elem}
    (hres : Resolves d cls root)
    (hmem : findMembers root meth = pre ++ m :: post)
    (hm : OptionalParams m args req opt)
    (hothers : ∀ x ∈ pre ++ post, judgeMember x args = .ok .reject) :
    extractDocstring d st cls meth args = ⟨formatDocstring m (opt.map declText), [], st⟩ :=
  C17_lookup_unique_general hres hmem (judge_optional hm) hothers

/-- What "formatted from `m`" is: brief paragraphs, a newline, the detailed paragraphs that
    hold no parameter list (each followed by a space), one `name: description` line per
    documented parameter, `Returns: …`; the whole stripped. -/
theorem C17_lookup_format {m dd : Elem} {ign : List (Option String)} {ps rt : String}
    (hd : m.findDesc "detaileddescription" = some dd)
    (hp : paramPart dd ign = .ok ps) (hr : returnPart dd = .ok rt) :
    formatDocstring m ign = .ok (strip (briefPart m ++ "\n" ++ detailParas dd ++ ps ++ rt)) :=
  format_parts hd hp hr

/-- With only a brief description the docstring is its (stripped) paragraph text. -/
theorem C17_lookup_format_brief {m b : Elem} {ign : List (Option String)}
    (hb : m.findDesc "briefdescription" = some b)
    (hd : m.findDesc "detaileddescription" = none) :
    formatDocstring m ign = .ok (strip (String.join ((b.childrenTag "para").map joinNonBlank))) :=
  format_brief_only hb hd

/-! ### A concrete directory (shape of tests/expected/xml) -/

private def el (tag : String) (children : List Elem) (text : Option String := none)
    (attrs : List (String × String) := []) (tail : Option String := none) : Elem :=
  .mk tag attrs text tail children

private def leaf (tag text : String) : Elem := .mk tag [] (some text) none []

private def param (name : String) (dflt : Bool := false) : Elem :=
  el "param" ([leaf "type" "T", leaf "declname" name] ++ (if dflt then [leaf "defval" "T()"] else []))

private def briefOf (t : String) : Elem := el "briefdescription" [leaf "para" t] (some "\n")

private def memberN (name : String) (ps : List Elem) (brief : Elem) (detailed : Elem) : Elem :=
  el "memberdef" ([leaf "type" "void", leaf "argsstring" "(…)", leaf "name" name] ++ ps ++
    [brief, detailed]) (some "\n  ") [("kind", "function")]

private def memberF := memberN "f"

private def detailedKM : Elem :=
  el "detaileddescription"
    [el "para"
      [el "parameterlist"
        [el "parameteritem"
           [el "parameternamelist" [leaf "parametername" "k"],
            el "parameterdescription" [leaf "para" "the key"]],
         el "parameteritem"
           [el "parameternamelist" [leaf "parametername" "m"],
            el "parameterdescription" [leaf "para" "the model"]]]]]

private def detailedXY : Elem :=
  el "detaileddescription"
    [el "para"
      [el "parameterlist"
        [el "parameteritem"
           [el "parameternamelist" [leaf "parametername" "x"],
            el "parameterdescription" [leaf "para" "the x "]],
         el "parameteritem"
           [el "parameternamelist" [leaf "parametername" "y"],
            el "parameterdescription" [el "para" []]]]
        none [("kind", "param")],
       el "simplesect" [leaf "para" " the sum"] none [("kind", "return")]]
      (some "Adds. ")]

private def classFile : Elem :=
  el "doxygen"
    [el "compounddef"
      [leaf "compoundname" "ns::A",
       el "sectiondef"
        [memberF [param "x"] (briefOf "First. ") (el "detaileddescription" []),
         memberF [param "x"] (briefOf "Second. ") (el "detaileddescription" []),
         memberF [param "x", param "y"] (briefOf "Two args. ") detailedXY,
         memberF [] (el "briefdescription" [] (some "\n")) (el "detaileddescription" [] (some "\n")),
         memberN "g" [param "k", param "m" true] (briefOf "Opt.") detailedKM]]]

private def indexFile : Elem :=
  el "doxygenindex"
    [el "compound" [leaf "name" "ns::A"] none [("refid", "classns_1_1A"), ("kind", "class")],
     el "compound" [leaf "name" "ns::NoRefid"] none [("kind", "class")],
     el "compound" [leaf "name" "ns::Gone"] none [("refid", "gone")]]

private def exDir : Dir := [("index.xml", .tree indexFile), ("classns_1_1A.xml", .tree classFile)]

/-- non-vacuity of `C17_lookup_unique`: `f(x, y)` is found among four overloads, and
    formatted with parameter lines and `Returns:`.  (The text "Adds. " is dropped: the code
    skips every paragraph that holds a `parameterlist`.) -/
theorem C17_lookup_example :
    extractDocstring exDir [] "ns::A" "f" ["x", "y"] =
      ⟨.ok "Two args. \nx: the x\ny: No description provided\nReturns: the sum", [], []⟩ := by
  decide

/-- non-vacuity of `C17_lookup_optional`: `g(k, m = T())` looked up as `g(k)` drops the line
    of the optional parameter `m`; looked up as `g(k, m)` it keeps it. -/
theorem C17_lookup_optional_example :
    (extractDocstring exDir [] "ns::A" "g" ["k"]).res = .ok "Opt.\nk: the key" ∧
    (extractDocstring exDir [] "ns::A" "g" ["k", "m"]).res = .ok "Opt.\nk: the key\nm: the model" := by
  decide

/-- … and the literal that ends up in the generated C++. -/
theorem C17_lookup_example_literal :
    docstringArg "Two args. \nx: the x\ny: No description provided\nReturns: the sum" =
      ", \"Two args. \\nx: the x\\ny: No description provided\\nReturns: the sum\"" := by
  decide

/-! ## 3. Missing documentation -/

/-- The situations in which no candidate member survives — with the guards the code forces. -/
inductive NoCandidate (d : Dir) (cls meth : String) (args : List String) : List Warning → Prop where
  /-- `index.xml` does not exist -/
  | indexMissing : d.get "index.xml" = .missing → NoCandidate d cls meth args [.notFound "index.xml"]
  /-- `index.xml` is not well-formed XML -/
  | indexBad : d.get "index.xml" = .bad → NoCandidate d cls meth args [.parseFail "index.xml"]
  /-- the class is not listed in the index -/
  | classMissing {idx} : d.get "index.xml" = .tree idx → findClassIndex idx cls = none →
      NoCandidate d cls meth args []
  /-- the class file is absent (GUARD: the index entry has a `refid`) -/
  | fileMissing {idx ci r} : d.get "index.xml" = .tree idx → findClassIndex idx cls = some ci →
      ci.attr? "refid" = some r → d.get (r ++ ".xml") = .missing →
      NoCandidate d cls meth args [.notFound (r ++ ".xml")]
  /-- the class file is not well-formed (GUARD: `refid` present) -/
  | fileBad {idx ci r} : d.get "index.xml" = .tree idx → findClassIndex idx cls = some ci →
      ci.attr? "refid" = some r → d.get (r ++ ".xml") = .bad →
      NoCandidate d cls meth args [.parseFail (r ++ ".xml")]
  /-- no member matches (GUARD: every member with that name is judged without exception,
      i.e. has an `argsstring` …) and all are rejected; includes "no member has that name" -/
  | noMember {root} : Resolves d cls root →
      (∀ x ∈ findMembers root meth, judgeMember x args = .ok .reject) →
      NoCandidate d cls meth args []

/-- PARTIAL: a missing index, class, class file or member yields the empty docstring
    (plus the warning `parse_xml` prints), no exception, memory untouched. -/
theorem C17_missing_is_empty_partial {d : Dir} {st : DocState} {cls meth : String}
    {args : List String} {w : List Warning} (h : NoCandidate d cls meth args w) :
    extractDocstring d st cls meth args = ⟨.ok "", w, st⟩ := by
  cases h with
  | indexMissing h1 =>
    exact extract_empty (ign := []) (maybe := []) (by simp [getMemberDefs, parseXml, h1]) rfl
  | indexBad h1 =>
    exact extract_empty (ign := []) (maybe := []) (by simp [getMemberDefs, parseXml, h1]) rfl
  | classMissing h1 h2 =>
    exact extract_empty (ign := []) (maybe := []) (by simp [getMemberDefs, parseXml, h1, h2]) rfl
  | fileMissing h1 h2 h3 h4 =>
    exact extract_empty (ign := []) (maybe := [])
      (by simp [getMemberDefs, parseXml, h1, h2, h3, h4]) rfl
  | fileBad h1 h2 h3 h4 =>
    exact extract_empty (ign := []) (maybe := [])
      (by simp [getMemberDefs, parseXml, h1, h2, h3, h4]) rfl
  | noMember hres hall =>
    exact extract_empty (getMemberDefs_resolves hres meth) (filter_all_reject hall)

/-- PARTIAL: a uniquely matching but undocumented member (empty brief and detailed
    description, as Doxygen writes them) yields the empty docstring. -/
theorem C17_missing_undocumented_is_empty {d : Dir} {st : DocState} {cls meth : String}
    {args : List String} {root m b dd : Elem} {pre post : List Elem}
    (hres : Resolves d cls root) (hmem : findMembers root meth = pre ++ m :: post)
    (hm : NamedParams m args)
    (hothers : ∀ x ∈ pre ++ post, ∃ args', ExactParams x args' ∧ args' ≠ args)
    (hb : m.findDesc "briefdescription" = some b) (hbp : b.childrenTag "para" = [])
    (hd : m.findDesc "detaileddescription" = some dd) (hdc : dd.children = []) :
    extractDocstring d st cls meth args = ⟨.ok "", [], st⟩ := by
  rw [C17_lookup_unique hres hmem hm hothers, format_undocumented hb hbp hd hdc]

-- non-vacuity
example : extractDocstring exDir [] "ns::Nope" "f" [] = ⟨.ok "", [], []⟩ := by decide
example : extractDocstring exDir [] "ns::Gone" "f" [] = ⟨.ok "", [.notFound "gone.xml"], []⟩ := by
  decide
example : extractDocstring [] [] "ns::A" "f" [] = ⟨.ok "", [.notFound "index.xml"], []⟩ := by decide
example : extractDocstring exDir [] "ns::A" "nope" [] = ⟨.ok "", [], []⟩ := by decide
example : extractDocstring exDir [] "ns::A" "f" ["z"] = ⟨.ok "", [], []⟩ := by decide
example : extractDocstring exDir [] "ns::A" "f" [] = ⟨.ok "", [], []⟩ := by decide  -- undocumented f()

/-- COUNTEREXAMPLE to the unguarded claim: an index entry without `refid` → `KeyError`. -/
theorem C17_missing_counterexample_keyerror :
    (extractDocstring exDir [] "ns::NoRefid" "f" []).res = .err "KeyError" := by decide

/-- COUNTEREXAMPLE: a candidate without `<argsstring>` → `AttributeError`
    (the f-string handed to `print_if_verbose` is evaluated even when not verbose). -/
theorem C17_missing_counterexample_attributeerror :
    (extractDocstring
      [("index.xml", .tree indexFile),
       ("classns_1_1A.xml", .tree (el "doxygen" [el "compounddef" [el "sectiondef"
          [el "memberdef" [leaf "name" "f"]]]]))]
      [] "ns::A" "f" []).res = .err "AttributeError" := by decide

/-! ## 4. The memory -/

/-- STATE.  Let the key `cls.meth(args)` be ambiguous: `defs`, the candidates that survive
    the filter, are `n ≥ 2`.  On a parser whose memory has no entry for the key, `k`
    consecutive lookups return the docstrings of `defs[0]`, `defs[1]`, …; from the
    `(n+1)`-th lookup on, the docstring is empty (`nthDoc`), for ever. -/
theorem C17_state {d : Dir} {cls meth : String} {args : List String}
    {maybe defs : List Elem} {w : List Warning} {ign : List (Option String)}
    (hg : getMemberDefs d cls meth = (.ok maybe, w))
    (hf : filterMemberDefs maybe args = .ok (defs, ign)) (h2 : 2 ≤ defs.length)
    (k : Nat) (st : DocState) (hs : st.lookup (functionKey cls meth args) = none) :
    (extractAll d st (List.replicate k (cls, meth, args))).map (·.res) =
      (List.range k).map (nthDoc defs ign) :=
  extractAll_replicate hg hf h2 k st hs

/-- One step: after `j+1` lookups of the key the next one takes overload `j+1` (or nothing),
    and bumps the counter even then. -/
theorem C17_state_step {d : Dir} {st : DocState} {cls meth : String} {args : List String}
    {maybe defs : List Elem} {w : List Warning} {ign : List (Option String)} {j : Nat}
    (hg : getMemberDefs d cls meth = (.ok maybe, w))
    (hf : filterMemberDefs maybe args = .ok (defs, ign)) (h2 : 2 ≤ defs.length)
    (hs : st.lookup (functionKey cls meth args) = some j) :
    extractDocstring d st cls meth args =
      ⟨nthDoc defs ign (j + 1), w, st.set (functionKey cls meth args) (j + 1)⟩ :=
  extract_ambiguous_next hg hf h2 hs

/-- Beyond the last overload the docstring is `""`, not an exception (before fix b652f11 an `IndexError` escaped). -/
theorem C17_state_exhausted (defs : List Elem) (ign : List (Option String)) (j : Nat)
    (h : defs.length ≤ j) : nthDoc defs ign j = .ok "" := by
  simp [nthDoc, List.getElem?_eq_none h]

/-- Lookups of other keys do not disturb the counter. -/
theorem C17_state_other_key (st : DocState) {k k' : String} (v : Nat) (h : k' ≠ k) :
    (st.set k v).lookup k' = st.lookup k' :=
  lookup_set_other st v h

/-- two documented overloads `f(x)`; three lookups of `f(x)` on one parser give "First.", "Second." and then `""`
    (the former counterexample `IndexError`, repaired by fix b652f11) -/
theorem C17_state_exhausted_example :
    (extractAll exDir [] [("ns::A", "f", ["x"]), ("ns::A", "f", ["x"]), ("ns::A", "f", ["x"])]).map
      (·.res) = [.ok "First.", .ok "Second.", .ok ""] := by decide

/-! ## Axioms -/


end WrapModel.Xml
