/-
  C03 — the generated Python module exposes exactly the declared API.
  Property theorems only, about the statement list `emitNs` builds (`Model/Pybind.lean`).
-/
import WrapModel.Model.Pybind

namespace WrapModel.Props.C03
open WrapModel WrapModel.Inst WrapModel.Pybind

/-- nothing outside the chosen top namespace is exposed: a namespace whose path does not extend (or is not a
    prefix of) the top path contributes no statement and no include -/
theorem C03_outside_top_silent (cfg : Cfg) (name : String) (p : List String) (content : List IDecl)
    (h : partialMatch p cfg.top = false) : emitNs cfg name p content = ([], "") := by
  unfold emitNs; simp [h]

/-- above the top namespace only nested namespaces (and includes) are looked at -/
theorem C03_above_top_no_own_bindings (cfg : Cfg) (p : List String) (content : List IDecl)
    (h : ∀ d ∈ content, ∀ n c, d ≠ IDecl.ns n c) : (emitOuter cfg p content).1 = [] := by
  induction content with
  | nil => simp [emitOuter]
  | cons d r ih =>
    have hr := ih (fun d hd => h d (by simp [hd]))
    cases d with
    | ns n c => exact absurd rfl (h _ (by simp) n c)
    | incl hh => simp [emitOuter, hr]
    | fwd v t par => simp [emitOuter, hr]
    | enum e => simp [emitOuter, hr]
    | var v => simp [emitOuter, hr]
    | cls c => simp [emitOuter, hr]
    | func f => simp [emitOuter, hr]
    | decl fd => simp [emitOuter, hr]

/-- a namespace strictly inside the top namespace creates its submodule first: exactly one `def_submodule`
    statement, in the parent's module variable, before anything is placed in it -/
theorem C03_submodule_first (cfg : Cfg) (name : String) (p : List String) (content : List IDecl)
    (hm : partialMatch p cfg.top = true) (hd : cfg.top.length < p.length) :
    ∃ rest, (emitNs cfg name p content).1 =
      PyStmt.submodule (moduleVar cfg p) (moduleVar cfg p.dropLast) name :: rest := by
  unfold emitNs
  have h1 : ¬ p.length < cfg.top.length := by omega
  simp [hm, h1, hd]

/-- the top namespace itself creates no submodule: its declarations go to `m_` -/
theorem C03_top_is_root_module (cfg : Cfg) (p : List String) (h : p.length = cfg.top.length) : moduleVar cfg p = "m_" := by
  have : List.drop cfg.top.length p = [] := by rw [← h]; exact List.drop_length
  simp [moduleVar, joinWith, this]

/-- an ignored class gets no `py::class_` statement and none of its enums is registered: nothing at all -/
theorem C03_ignored_class_not_bound (cfg : Cfg) (c : IClass) (h : cfg.ignore.contains c.toCpp = true) :
    emitClass cfg c = [] := by
  have h' : c.toCpp ∈ cfg.ignore := by simpa using h
  simp [emitClass, h']

/-- a class that is not ignored gets exactly one `py::class_` statement, under its (instantiated) name, in the
    module variable of its namespace; one `init` per constructor overload, one read/write entry per property -/
theorem C03_class_bound_once (cfg : Cfg) (c : IClass) (h : cfg.ignore.contains c.toCpp = false) :
    emitClass cfg c = classStmt cfg c :: classEnums c ∧
    ((classItems cfg c).filter (fun i => match i with | .init .. => true | _ => false)).length ≥ c.ctors.length ∧
    (∀ p ∈ c.props, ClassItem.prop p.ctype.quals.isConst p.name c.toCpp ∈ classItems cfg c) := by
  have h' : ¬ c.toCpp ∈ cfg.ignore := by simpa using h
  refine ⟨by simp [emitClass, h'], ?_, ?_⟩
  · simp only [classItems, List.filter_append, List.length_append]
    have : (List.filter (fun i => match i with | ClassItem.init .. => true | _ => false)
        (c.ctors.map fun k => ClassItem.init (k.args.map fun a => tyToCpp a.ctype) (pyArgsOf k.args))).length = c.ctors.length := by
      induction c.ctors with
      | nil => rfl
      | cons k r ih => simp [List.filter_cons, ih]
    omega
  · intro p hp
    simp only [classItems, List.mem_append, List.mem_map]
    exact Or.inl (Or.inr ⟨p, hp, rfl⟩)

/-- Python keywords get a trailing underscore (with the keyword table of the *code*) -/
theorem C03_keyword_escape (n : String) :
    escapeKeyword Gen.pythonKeywords n = (if Gen.pythonKeywords.contains n then n ++ "_" else n) := rfl

/-- table obligation over the regenerated tables: every keyword of the running interpreter (`keyword.kwlist`) is in the
    code's table, i.e. is escaped.  (Before fix e2cc4ef `async` and `await` were missing; this theorem then stated
    the gap.) -/
theorem C03_keyword_table_complete :
    Gen.kwlist.filter (fun k => !Gen.pythonKeywords.contains k) = [] := by decide

/-- … and conversely every entry of the code's table IS a keyword of the running interpreter: only keywords get the
    trailing underscore, any other declared name (`match`, `type`, `print` as a method, …) is exposed as it is written -/
theorem C03_keyword_table_sound :
    Gen.pythonKeywords.filter (fun k => !Gen.kwlist.contains k) = [] := by decide

/-- table obligation (regenerated table): no keyword followed by `_` is itself in the table -/
theorem keyword_table_closed :
    (Gen.pythonKeywords.all fun k => !Gen.pythonKeywords.contains (k ++ "_")) = true := by decide

/-- **the exposed name is never a Python keyword**, for every declared name: the escaping does what it is for -/
theorem C03_escaped_name_is_no_keyword (n : String) :
    Gen.pythonKeywords.contains (escapeKeyword Gen.pythonKeywords n) = false := by
  rw [C03_keyword_escape]
  by_cases h : Gen.pythonKeywords.contains n = true
  · simp only [h, if_true]
    have := List.all_eq_true.1 keyword_table_closed n (by simpa using h)
    simpa using this
  · simp only [h]
    simpa using h

theorem append_us_inj {a b : String} (h : a ++ "_" = b ++ "_") : a = b := by
  have := congrArg String.toList h
  simp only [String.toList_append] at this
  exact String.toList_inj.1 (List.append_cancel_right this)

/-- **distinct declared names stay distinct** under the escaping, except the one inherent clash of a keyword `k` with a
    sibling that is literally spelled `k_` (e.g. `lambda` and `lambda_`): "under its declared name" loses no binding -/
theorem C03_escape_collisions (a b : String)
    (h : escapeKeyword Gen.pythonKeywords a = escapeKeyword Gen.pythonKeywords b) :
    a = b ∨ (Gen.pythonKeywords.contains a = true ∧ b = a ++ "_") ∨ (Gen.pythonKeywords.contains b = true ∧ a = b ++ "_") := by
  rw [C03_keyword_escape, C03_keyword_escape] at h
  by_cases ha : Gen.pythonKeywords.contains a = true <;> by_cases hb : Gen.pythonKeywords.contains b = true
  · simp only [ha, hb, if_true] at h
    exact Or.inl (append_us_inj h)
  · simp only [ha, hb, if_true] at h
    exact Or.inr (Or.inl ⟨ha, by simpa using h.symm⟩)
  · simp only [ha, hb, if_true] at h
    exact Or.inr (Or.inr ⟨hb, by simpa using h⟩)
  · simp only [ha, hb] at h
    exact Or.inl (by simpa using h)

/-- the exceptional clash exists (so the disjunction cannot be dropped) -/
example : escapeKeyword Gen.pythonKeywords "lambda" = escapeKeyword Gen.pythonKeywords "lambda_" := by decide

/-- non-vacuity of `C03_submodule_first` -/
example : partialMatch ["", "gtsam", "noise"] ["", "gtsam"] = true ∧ ["", "gtsam"].length < ["", "gtsam", "noise"].length := by decide

/-! ### module variables are defined before they are used -/

/-- the module variables a statement places something in -/
def stmtUses : PyStmt → List String
  | .submodule _ pv _ => [pv]
  | .cls _ _ mv _ _ _ => [mv]
  | .fwdCls _ mv _ => [mv]
  | .enum _ mv _ _ inClass => if inClass then [] else [mv]   -- a class-varsOK enum is placed in the class instance
  | .var mv _ _ _ => [mv]
  | .func mv _ => [mv]

def stmtDefines : PyStmt → List String
  | .submodule v _ _ => [v]
  | _ => []

/-- every statement uses only module variables that exist at that point (`defd`: those that exist on entry) -/
def varsOK : List String → List PyStmt → Bool
  | _, [] => true
  | defd, s :: r => (stmtUses s).all (fun v => defd.contains v) && varsOK (stmtDefines s ++ defd) r

def definesOf : List PyStmt → List String
  | [] => []
  | s :: r => definesOf r ++ stmtDefines s

theorem varsOK_mono : ∀ (ss : List PyStmt) (d d' : List String), (∀ v ∈ d, v ∈ d') → varsOK d ss = true → varsOK d' ss = true
  | [], _, _, _, _ => rfl
  | s :: r, d, d', hsub, h => by
    simp only [varsOK, Bool.and_eq_true, List.all_eq_true, List.contains_eq_mem, decide_eq_true_eq] at h ⊢
    refine ⟨fun v hv => hsub v (h.1 v hv), ?_⟩
    apply varsOK_mono r (stmtDefines s ++ d) (stmtDefines s ++ d') _ h.2
    intro v hv
    simp only [List.mem_append] at hv ⊢
    rcases hv with hv | hv
    · exact Or.inl hv
    · exact Or.inr (hsub v hv)

theorem varsOK_append : ∀ (a b : List PyStmt) (d : List String),
    varsOK d a = true → varsOK d b = true → varsOK d (a ++ b) = true
  | [], b, d, _, hb => hb
  | s :: r, b, d, ha, hb => by
    simp only [varsOK, Bool.and_eq_true, List.cons_append] at ha ⊢
    exact ⟨ha.1, varsOK_append r b _ ha.2 (varsOK_mono b d _ (fun v hv => by simp [hv]) hb)⟩

mutual
  /-- every class and typedef'd declaration records the namespace path it stands in -/
  def consistent (p : List String) : IDecl → Bool
    | .cls c => c.nsPath == p
    | .decl fd => fd.nsPath == p
    | .ns n c => consistentL (p ++ [n]) c
    | _ => true
  def consistentL (p : List String) : List IDecl → Bool
    | [] => true
    | d :: r => consistent p d && consistentL p r
end

theorem partialMatch_snoc : ∀ (p top : List String) (n : String), partialMatch p top = true → top.length ≤ p.length →
    partialMatch (p ++ [n]) top = true
  | [], [], _, _, _ => by simp [partialMatch]
  | [], t :: ts, _, _, h => by simp at h
  | a :: p, [], _, _, _ => by simp [partialMatch]
  | a :: p, t :: ts, n, hm, hl => by
    simp only [partialMatch, Bool.and_eq_true] at hm
    simp only [List.cons_append, partialMatch, hm.1, Bool.true_and]
    exact partialMatch_snoc p ts n hm.2 (by simpa using hl)


theorem varsOK_funcs (cfg : Cfg) (mv caller : String) (d : List String) (h : mv ∈ d) : ∀ (content : List IDecl),
    varsOK d (content.filterMap fun x => match x with
      | .func f => some (PyStmt.func mv (emitFunc cfg f caller))
      | _ => none) = true
  | [] => rfl
  | x :: r => by
    have ih := varsOK_funcs cfg mv caller d h r
    cases x <;> simp [List.filterMap_cons, varsOK, stmtUses, stmtDefines, h, ih]

theorem varsOK_emitClass (cfg : Cfg) (c : IClass) (d : List String) (h : moduleVar cfg c.nsPath ∈ d) :
    varsOK d (emitClass cfg c) = true := by
  unfold emitClass
  split
  · rfl
  · simp only [varsOK, classStmt, stmtUses, stmtDefines, List.all_cons, List.all_nil, Bool.and_true, List.nil_append,
      List.contains_eq_mem, h, decide_true, Bool.true_and]
    unfold classEnums
    induction c.enums with
    | nil => rfl
    | cons e r ih => simp [varsOK, stmtUses, stmtDefines, ih]


theorem dropLast_snoc (p : List String) (n : String) : (p ++ [n]).dropLast = p := by simp

mutual
  theorem varsOK_inner (cfg : Cfg) : ∀ (content : List IDecl) (p : List String) (defd : List String),
      moduleVar cfg p ∈ defd → consistentL p content = true → cfg.top.length ≤ p.length → partialMatch p cfg.top = true →
      varsOK defd (emitInner cfg p (moduleVar cfg p) content).1 = true
    | [], _, _, _, _, _, _ => by simp [emitInner, varsOK]
    | .incl h :: r, p, defd, hmv, hc, hl, hm => by
      simp only [consistentL, Bool.and_eq_true] at hc
      simpa [emitInner] using varsOK_inner cfg r p defd hmv hc.2 hl hm
    | .fwd v t par :: r, p, defd, hmv, hc, hl, hm => by
      simp only [consistentL, Bool.and_eq_true] at hc
      simpa [emitInner] using varsOK_inner cfg r p defd hmv hc.2 hl hm
    | .func f :: r, p, defd, hmv, hc, hl, hm => by
      simp only [consistentL, Bool.and_eq_true] at hc
      simpa [emitInner] using varsOK_inner cfg r p defd hmv hc.2 hl hm
    | .enum e :: r, p, defd, hmv, hc, hl, hm => by
      simp only [consistentL, Bool.and_eq_true] at hc
      have ih := varsOK_inner cfg r p defd hmv hc.2 hl hm
      simp only [emitInner]
      simp [varsOK, stmtUses, stmtDefines, hmv, ih]
    | .var v :: r, p, defd, hmv, hc, hl, hm => by
      simp only [consistentL, Bool.and_eq_true] at hc
      have ih := varsOK_inner cfg r p defd hmv hc.2 hl hm
      simp only [emitInner]
      simp [varsOK, stmtUses, stmtDefines, hmv, ih]
    | .cls c :: r, p, defd, hmv, hc, hl, hm => by
      simp only [consistentL, Bool.and_eq_true] at hc
      have ih := varsOK_inner cfg r p defd hmv hc.2 hl hm
      have hp : c.nsPath = p := by simpa [consistent] using hc.1
      simp only [emitInner]
      exact varsOK_append _ _ _ (varsOK_emitClass cfg c defd (by rw [hp]; exact hmv)) ih
    | .decl fd :: r, p, defd, hmv, hc, hl, hm => by
      simp only [consistentL, Bool.and_eq_true] at hc
      have ih := varsOK_inner cfg r p defd hmv hc.2 hl hm
      have hp : fd.nsPath = p := by simpa [consistent] using hc.1
      simp only [emitInner]
      split
      · simpa using ih
      · simp [varsOK, stmtUses, stmtDefines, hp, hmv, ih]
    | .ns n c :: r, p, defd, hmv, hc, hl, hm => by
      simp only [consistentL, Bool.and_eq_true] at hc
      have ih := varsOK_inner cfg r p defd hmv hc.2 hl hm
      have hcn : consistentL (p ++ [n]) c = true := by simpa [consistent] using hc.1
      have hm' := partialMatch_snoc p cfg.top n hm hl
      have hlen : ¬ (p ++ [n]).length < cfg.top.length := by simp; omega
      have hgt : (p ++ [n]).length > cfg.top.length := by simp; omega
      have hin := varsOK_inner cfg c (p ++ [n]) (moduleVar cfg (p ++ [n]) :: defd) (by simp) hcn (by simp; omega) hm'
      simp only [emitInner]
      apply varsOK_append _ _ _ _ ih
      unfold emitNs
      simp only [hm', Bool.not_true, Bool.false_eq_true, if_false, hlen, hgt, if_true, dropLast_snoc]
      simp only [List.cons_append, List.nil_append, varsOK, stmtUses, stmtDefines, List.all_cons, List.all_nil, Bool.and_true,
        List.contains_eq_mem, hmv, decide_true, Bool.true_and]
      exact varsOK_append _ _ _ hin (varsOK_funcs cfg _ _ _ (by simp) c)
  theorem varsOK_outer (cfg : Cfg) : ∀ (content : List IDecl) (p : List String) (defd : List String),
      "m_" ∈ defd → consistentL p content = true → p.length < cfg.top.length →
      varsOK defd (emitOuter cfg p content).1 = true
    | [], _, _, _, _, _ => by simp [emitOuter, varsOK]
    | .incl h :: r, p, defd, hm_, hc, hl => by
      simp only [consistentL, Bool.and_eq_true] at hc
      simpa [emitOuter] using varsOK_outer cfg r p defd hm_ hc.2 hl
    | .fwd v t par :: r, p, defd, hm_, hc, hl => by
      simp only [consistentL, Bool.and_eq_true] at hc
      simpa [emitOuter] using varsOK_outer cfg r p defd hm_ hc.2 hl
    | .func f :: r, p, defd, hm_, hc, hl => by
      simp only [consistentL, Bool.and_eq_true] at hc
      simpa [emitOuter] using varsOK_outer cfg r p defd hm_ hc.2 hl
    | .enum e :: r, p, defd, hm_, hc, hl => by
      simp only [consistentL, Bool.and_eq_true] at hc
      simpa [emitOuter] using varsOK_outer cfg r p defd hm_ hc.2 hl
    | .var v :: r, p, defd, hm_, hc, hl => by
      simp only [consistentL, Bool.and_eq_true] at hc
      simpa [emitOuter] using varsOK_outer cfg r p defd hm_ hc.2 hl
    | .cls c :: r, p, defd, hm_, hc, hl => by
      simp only [consistentL, Bool.and_eq_true] at hc
      simpa [emitOuter] using varsOK_outer cfg r p defd hm_ hc.2 hl
    | .decl fd :: r, p, defd, hm_, hc, hl => by
      simp only [consistentL, Bool.and_eq_true] at hc
      simpa [emitOuter] using varsOK_outer cfg r p defd hm_ hc.2 hl
    | .ns n c :: r, p, defd, hm_, hc, hl => by
      simp only [consistentL, Bool.and_eq_true] at hc
      have ih := varsOK_outer cfg r p defd hm_ hc.2 hl
      have hcn : consistentL (p ++ [n]) c = true := by simpa [consistent] using hc.1
      simp only [emitOuter]
      apply varsOK_append _ _ _ _ ih
      unfold emitNs
      by_cases hpm : partialMatch (p ++ [n]) cfg.top = true
      · simp only [hpm, Bool.not_true, Bool.false_eq_true, if_false]
        by_cases hlt : (p ++ [n]).length < cfg.top.length
        · simp only [hlt, if_true]
          exact varsOK_outer cfg c (p ++ [n]) defd hm_ hcn hlt
        · have heq : (p ++ [n]).length = cfg.top.length := by simp at hlt ⊢; omega
          have hngt : ¬ (p ++ [n]).length > cfg.top.length := by omega
          have htop := C03_top_is_root_module cfg (p ++ [n]) heq
          have hin := varsOK_inner cfg c (p ++ [n]) defd (by rw [htop]; exact hm_) hcn (by omega) hpm
          simp only [hlt, if_false, hngt, List.nil_append]
          exact varsOK_append _ _ _ hin (varsOK_funcs cfg _ _ _ (by rw [htop]; exact hm_) c)
      · have : partialMatch (p ++ [n]) cfg.top = false := by simpa using hpm
        simp [this, varsOK]
end

/-- **Module variables are defined before anything is placed in them (C03, C09).**  For a module whose classes and
    typedef'd declarations record the namespace path they stand in (`consistentL`), every statement of the generated
    `PYBIND11_MODULE` body places its binding in `m_` or in a sub-module variable that an earlier `def_submodule`
    statement has defined.  (The two known findings — a typedef of a template of a LATER namespace, and the second
    definition of the variable of a re-opened namespace — are exactly: an inconsistent path, and uniqueness, which this
    theorem does not claim.) -/
theorem C03_module_vars_defined_before_use (cfg : Cfg) (im : List IDecl) (hc : consistentL [""] im = true)
    (htop : partialMatch [""] cfg.top = true) (hne : cfg.top ≠ []) :
    varsOK ["m_"] (emitNs cfg "" [""] im).1 = true := by
  unfold emitNs
  simp only [htop, Bool.not_true, Bool.false_eq_true, if_false]
  by_cases hlt : [""].length < cfg.top.length
  · simp only [hlt, if_true]
    exact varsOK_outer cfg im [""] ["m_"] (by simp) hc hlt
  · have heq : [""].length = cfg.top.length := by
      cases htl : cfg.top with
      | nil => exact absurd htl hne
      | cons a r => rw [htl] at hlt; simp at hlt ⊢; omega
    have hngt : ¬ [""].length > cfg.top.length := by omega
    have ht := C03_top_is_root_module cfg [""] heq
    have hin := varsOK_inner cfg im [""] ["m_"] (by rw [ht]; simp) hc (by omega) htop
    simp only [hlt, if_false, hngt, List.nil_append]
    exact varsOK_append _ _ _ hin (varsOK_funcs cfg _ _ _ (by rw [ht]; simp) im)


/-- non-vacuity: a module with a class in a nested namespace below the top namespace satisfies the hypotheses; and the
    shape of the known finding (a class that records ANOTHER namespace than the one it stands in, as a typedef of a
    template of a later namespace does) is rejected by `consistentL` and indeed uses a variable before its definition -/
example :
    let cfg : Cfg := { moduleName := "m", top := ["", "gtsam"], useBoost := false, ignore := [] }
    let cls (path : List String) : IClass :=
      { name := "A", origName := "A", hasTmpl := false, insts := [], isVirtual := false, nsPath := path, parentClass := none,
        ctors := [], statics := [], props := [], ops := [], enums := [], methods := [], dunders := [] }
    let good : List IDecl := [.ns "gtsam" [.ns "noise" [.cls (cls ["", "gtsam", "noise"])], .cls (cls ["", "gtsam"])]]
    let bad : List IDecl := [.ns "gtsam" [.ns "a" [.cls (cls ["", "gtsam", "b"])], .ns "b" []]]
    consistentL [""] good = true ∧ partialMatch [""] cfg.top = true ∧ varsOK ["m_"] (emitNs cfg "" [""] good).1 = true
      ∧ consistentL [""] bad = false ∧ varsOK ["m_"] (emitNs cfg "" [""] bad).1 = false := by
  simp (config := {decide := true}) [consistentL, consistent, partialMatch, emitNs, emitOuter, emitInner, emitClass, classStmt, classEnums,
    varsOK, stmtUses, stmtDefines, moduleVar, joinWith, IClass.toCpp]


end WrapModel.Props.C03
