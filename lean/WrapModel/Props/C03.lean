/-
  C03 — the generated Python module exposes exactly the declared API.
  Property theorems only, about the statement list `emitNs` builds (`Model/Pybind.lean`).
-/
import WrapModel.Model.Pybind

namespace WrapModel.Props.C03
open WrapModel WrapModel.Inst WrapModel.Pybind

/-- nothing outside the chosen top namespace is exposed: a namespace whose path does not extend (or is not a
    prefix of) the top path contributes no statement and no include -/
theorem C03_outside_top_silent (cfg : Cfg) (name : String) (p : List String) (content : List IDecl)
    (h : partialMatch p cfg.top = false) : emitNs cfg name p content = ([], "") := by
  unfold emitNs; simp [h]

/-- above the top namespace only nested namespaces (and includes) are looked at -/
theorem C03_above_top_no_own_bindings (cfg : Cfg) (p : List String) (content : List IDecl)
    (h : ∀ d ∈ content, ∀ n c, d ≠ IDecl.ns n c) : (emitOuter cfg p content).1 = [] := by
  induction content with
  | nil => simp [emitOuter]
  | cons d r ih =>
    have hr := ih (fun d hd => h d (by simp [hd]))
    cases d with
    | ns n c => exact absurd rfl (h _ (by simp) n c)
    | incl hh => simp [emitOuter, hr]
    | fwd v t par => simp [emitOuter, hr]
    | enum e => simp [emitOuter, hr]
    | var v => simp [emitOuter, hr]
    | cls c => simp [emitOuter, hr]
    | func f => simp [emitOuter, hr]
    | decl fd => simp [emitOuter, hr]

/-- a namespace strictly inside the top namespace creates its submodule first: exactly one `def_submodule`
    statement, in the parent's module variable, before anything is placed in it -/
theorem C03_submodule_first (cfg : Cfg) (name : String) (p : List String) (content : List IDecl)
    (hm : partialMatch p cfg.top = true) (hd : cfg.top.length < p.length) :
    ∃ rest, (emitNs cfg name p content).1 =
      PyStmt.submodule (moduleVar cfg p) (moduleVar cfg p.dropLast) name :: rest := by
  unfold emitNs
  have h1 : ¬ p.length < cfg.top.length := by omega
  simp [hm, h1, hd]

/-- the top namespace itself creates no submodule: its declarations go to `m_` -/
theorem C03_top_is_root_module (cfg : Cfg) (p : List String) (h : p.length = cfg.top.length) : moduleVar cfg p = "m_" := by
  have : List.drop cfg.top.length p = [] := by rw [← h]; exact List.drop_length
  simp [moduleVar, joinWith, this]

/-- an ignored class gets no `py::class_` statement and none of its enums is registered: nothing at all -/
theorem C03_ignored_class_not_bound (cfg : Cfg) (c : IClass) (h : cfg.ignore.contains c.toCpp = true) :
    emitClass cfg c = [] := by
  have h' : c.toCpp ∈ cfg.ignore := by simpa using h
  simp [emitClass, h']

/-- a class that is not ignored gets exactly one `py::class_` statement, under its (instantiated) name, in the
    module variable of its namespace; one `init` per constructor overload, one read/write entry per property -/
theorem C03_class_bound_once (cfg : Cfg) (c : IClass) (h : cfg.ignore.contains c.toCpp = false) :
    emitClass cfg c = classStmt cfg c :: classEnums c ∧
    ((classItems cfg c).filter (fun i => match i with | .init .. => true | _ => false)).length ≥ c.ctors.length ∧
    (∀ p ∈ c.props, ClassItem.prop p.ctype.quals.isConst p.name c.toCpp ∈ classItems cfg c) := by
  have h' : ¬ c.toCpp ∈ cfg.ignore := by simpa using h
  refine ⟨by simp [emitClass, h'], ?_, ?_⟩
  · simp only [classItems, List.filter_append, List.length_append]
    have : (List.filter (fun i => match i with | ClassItem.init .. => true | _ => false)
        (c.ctors.map fun k => ClassItem.init (k.args.map fun a => tyToCpp a.ctype) (pyArgsOf k.args))).length = c.ctors.length := by
      induction c.ctors with
      | nil => rfl
      | cons k r ih => simp [List.filter_cons, ih]
    omega
  · intro p hp
    simp only [classItems, List.mem_append, List.mem_map]
    exact Or.inl (Or.inr ⟨p, hp, rfl⟩)

/-- Python keywords get a trailing underscore (with the keyword table of the *code*) -/
theorem C03_keyword_escape (n : String) :
    escapeKeyword Gen.pythonKeywords n = (if Gen.pythonKeywords.contains n then n ++ "_" else n) := rfl

/-- table obligation over the regenerated tables: every keyword of the running interpreter (`keyword.kwlist`) is in the
    code's table, i.e. is escaped.  (Before fix e2cc4ef `async` and `await` were missing; this theorem then stated
    the gap.) -/
theorem C03_keyword_table_complete :
    Gen.kwlist.filter (fun k => !Gen.pythonKeywords.contains k) = [] := by decide

/-- non-vacuity of `C03_submodule_first` -/
example : partialMatch ["", "gtsam", "noise"] ["", "gtsam"] = true ∧ ["", "gtsam"].length < ["", "gtsam", "noise"].length := by decide

end WrapModel.Props.C03
