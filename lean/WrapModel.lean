-- root of the `WrapModel` library: model, specs, lemmas, property theorems
import WrapModel.Gen.Tables
import WrapModel.Model.Syntax
import WrapModel.Model.Lex
import WrapModel.Model.P
import WrapModel.Model.Parse
import WrapModel.Model.Dump
import WrapModel.Model.Hex
import WrapModel.Model.Inst
import WrapModel.Model.IDump
import WrapModel.Model.Pybind
import WrapModel.Model.Matlab.Cpp
import WrapModel.Model.Driver
import WrapModel.Props.C01
