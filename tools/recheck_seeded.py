#!/venv/bin/python
"""tools/recheck_seeded.py [ids…] — re-run the current checks against every kept seeded change.

For each /verif/seeded/<id>/: `git -C /repo apply patch.diff`, run the checks recorded for it (its own property plus
any other check recorded earlier), `git -C /repo checkout -- .`; the outcome replaces `verif.checks` in meta.json
(`verif.first_run`, the outcome before the checks were strengthened, is kept).  /repo must be clean; nothing else may
run checks meanwhile.  Prints one line per change and a summary; exit 1 if some change is caught by no check."""
import glob
import json
import os
import subprocess
import sys

VERIF = os.path.dirname(os.path.dirname(os.path.abspath(__file__)))


def sh(cmd, cwd=None, timeout=3600):
    r = subprocess.run(cmd, shell=True, cwd=cwd, capture_output=True, text=True, timeout=timeout)
    return r.returncode, r.stdout + r.stderr


def main():
    want = set(sys.argv[1:])
    rc, o = sh("git -C /repo status --porcelain")
    if o.strip():
        sys.exit("/repo is not clean:\n" + o)
    missed = []
    for d in sorted(glob.glob(os.path.join(VERIF, "seeded", "*-?"))):
        mid = os.path.basename(d)
        if want and mid not in want:
            continue
        mp = os.path.join(d, "meta.json")
        meta = json.load(open(mp))
        v = meta.setdefault("verif", {})
        checks = sorted(set([meta["property"]] + list((v.get("checks") or {}).keys())))
        rc, o = sh("git -C /repo apply %s" % os.path.join(d, "patch.diff"))
        if rc != 0:
            print(mid, "PATCH DOES NOT APPLY", o[:200])
            continue
        results = {}
        try:
            for c in checks:
                rc, o = sh("./check %s" % c, VERIF)
                viol = [l for l in o.splitlines() if l.startswith("VIOLATION")]
                summ = [l for l in o.splitlines() if " ok " in l or " FAIL " in l]
                results[c] = dict(exit=rc, violation=viol, summary=summ[-1] if summ else o[-300:])
        finally:
            sh("git -C /repo checkout -- .")
        v["checks"] = results
        json.dump(meta, open(mp, "w"), indent=1)
        caught = [c for c, r in results.items() if r["exit"] == 1]
        with_input = [c for c in caught if not any("no-failing-input-found" in l for l in results[c]["violation"])]
        print("%-6s caught_by=%s with_failing_input=%s other=%s" % (
            mid, ",".join(caught) or "-", ",".join(with_input) or "-",
            ",".join("%s:%d" % (c, r["exit"]) for c, r in results.items() if r["exit"] != 1) or "-"), flush=True)
        if not caught:
            missed.append(mid)
    print("missed:", missed or "none")
    sys.exit(1 if missed else 0)


if __name__ == "__main__":
    main()
