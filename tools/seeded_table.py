#!/venv/bin/python
"""tools/seeded_table.py — markdown table of the kept seeded changes and what catches them (from seeded/*/meta.json)."""
import glob
import json
import os

VERIF = os.path.dirname(os.path.dirname(os.path.abspath(__file__)))
NOTES = json.load(open(os.path.join(VERIF, "seeded", "STRENGTHENING.json")))
print("| id | change (one line) | caught by (exit 1) | with failing input | before strengthening |")
print("|----|-------------------|--------------------|--------------------|----------------------|")
for d in sorted(glob.glob(os.path.join(VERIF, "seeded", "*-?"))):
    m = json.load(open(os.path.join(d, "meta.json")))
    v = m.get("verif", {})
    ch = v.get("checks", {})
    caught = [c for c, r in ch.items() if r.get("exit") == 1]
    with_input = [c for c in caught if not any("no-failing-input-found" in l for l in ch[c].get("violation", []))]
    summ = m.get("summary", "").strip().replace("|", "/").replace("\n", " ")
    if len(summ) > 150:
        summ = summ[:147] + "…"
    fr = v.get("first_run") or ""
    if isinstance(fr, dict):
        own = fr.get(m["property"], {})
        if own.get("exit") == 1 and not any("no-failing-input-found" in l for l in own.get("violation", [])):
            fr = "caught with failing input"
        elif own.get("exit") == 1:
            fr = "flagged but no-failing-input-found"
        else:
            fr = "missed (exit %s)" % own.get("exit")
        note = v.get("strengthening") or NOTES.get(os.path.basename(d))
        if note:
            fr += ": " + note
    print("| %s | %s | %s | %s | %s |" % (os.path.basename(d), summ, ", ".join(caught) or "**none**", ", ".join(with_input) or "—",
                                        fr.replace("|", "/")[:200]))
