#!/venv/bin/python
"""tools/seeded_table.py — markdown table of the kept seeded changes and what catches them (from seeded/*/meta.json)."""
import glob
import json
import os

VERIF = os.path.dirname(os.path.dirname(os.path.abspath(__file__)))
print("| id | change (one line) | caught by (exit 1) | with failing input | before strengthening |")
print("|----|-------------------|--------------------|--------------------|----------------------|")
for d in sorted(glob.glob(os.path.join(VERIF, "seeded", "*"))):
    m = json.load(open(os.path.join(d, "meta.json")))
    v = m.get("verif", {})
    ch = v.get("checks", {})
    caught = [c for c, r in ch.items() if r.get("exit") == 1]
    with_input = [c for c in caught if not any("no-failing-input-found" in l for l in ch[c].get("violation", []))]
    summ = m.get("summary", "").strip().replace("|", "/").replace("\n", " ")
    if len(summ) > 150:
        summ = summ[:147] + "…"
    print("| %s | %s | %s | %s | %s |" % (os.path.basename(d), summ, ", ".join(caught) or "**none**", ", ".join(with_input) or "—",
                                        (v.get("first_run") or "").replace("|", "/")[:160]))
