#!/venv/bin/python
"""tools/eval_mutant.py <out_dir (…/Cxx_out/A)> <worktree> [check ids…]
Confirms a seeded change (tests pass with it, demo fails with it and passes without), copies it to
/verif/seeded/<id>/, then applies it to /repo, runs the given checks and undoes it; records what happened."""
import json, os, shutil, subprocess, sys

out_dir, wt = sys.argv[1], sys.argv[2]
checks = sys.argv[3:]
meta = json.load(open(os.path.join(out_dir, "meta.json")))
prop = meta["property"]
mid = "%s-%s" % (prop, os.path.basename(out_dir.rstrip("/")))
dst = os.path.join("/verif/seeded", mid)
os.makedirs(dst, exist_ok=True)
for f in ("patch.diff", "demo.py", "meta.json"):
    shutil.copy(os.path.join(out_dir, f), os.path.join(dst, f))
patch = os.path.join(dst, "patch.diff")
demo = os.path.join(dst, "demo.py")


def sh(cmd, cwd=None, timeout=1800):
    r = subprocess.run(cmd, shell=True, cwd=cwd, capture_output=True, text=True, timeout=timeout)
    return r.returncode, (r.stdout + r.stderr)


ran = {}
sh("git checkout -- .", wt)
rc, o = sh("/venv/bin/python %s %s" % (demo, wt), wt); ran["demo_clean_exit"] = rc
rc, o = sh("git apply %s" % patch, wt); ran["apply_ok"] = rc == 0
rc, o = sh("/venv/bin/python -m pytest -q -p no:cacheprovider tests 2>&1 | tail -1", wt); ran["tests_with_patch"] = o.strip()
rc, o = sh("/venv/bin/python %s %s" % (demo, wt), wt); ran["demo_patched_exit"] = rc
sh("git checkout -- .", wt)
confirmed = ran["demo_clean_exit"] == 0 and ran["apply_ok"] and "94 passed" in ran["tests_with_patch"] and ran["demo_patched_exit"] == 1
ran["confirmed"] = confirmed
results = {}
if confirmed:
    rc, o = sh("git -C /repo apply %s" % patch)
    try:
        for c in checks:
            rc, o = sh("./check %s" % c, "/verif")
            lines = [l for l in o.splitlines() if l.startswith(("VIOLATION", "KNOWN-FINDING")) or " ok " in l or " FAIL " in l]
            results[c] = dict(exit=rc, violation=[l for l in lines if l.startswith("VIOLATION")], summary=lines[-1] if lines else o[-300:])
    finally:
        sh("git -C /repo checkout -- .")
meta["verif"] = dict(confirmation=ran, checks=results,
                     what_was_run="tests+demo in a scratch worktree with and without the patch; then `git -C /repo apply`, ./check <ids>, `git -C /repo checkout -- .`")
json.dump(meta, open(os.path.join(dst, "meta.json"), "w"), indent=1)
print(mid, "confirmed" if confirmed else "NOT CONFIRMED " + json.dumps(ran), {c: (r["exit"], r["violation"][:1]) for c, r in results.items()})
