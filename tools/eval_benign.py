#!/venv/bin/python
"""tools/eval_benign.py <out_dir with R*/patch.diff> <checks…> — behaviour-preserving refactorings must raise no alarm.

For each R*/patch.diff: the repository tests are run with the patch in a scratch copy (must pass), then
`git -C /repo apply`, the named checks (quick tier, seeds 0 and 1), `git -C /repo checkout -- .`.  Prints one line per
patch: which checks exited 0 / 1 / 2.  Nothing is written under /verif/seeded (a refactoring is not a seeded change);
the result table goes to stdout as JSON lines for DESIGN.md."""
import glob
import json
import os
import subprocess
import sys

VERIF = os.path.dirname(os.path.dirname(os.path.abspath(__file__)))


def sh(cmd, cwd=None, env=None, timeout=3600):
    r = subprocess.run(cmd, shell=True, cwd=cwd, capture_output=True, text=True, timeout=timeout, env=env)
    return r.returncode, r.stdout + r.stderr


def main():
    out_dir, checks = sys.argv[1], sys.argv[2:]
    rc, o = sh("git -C /repo status --porcelain")
    if o.strip():
        sys.exit("/repo is not clean:\n" + o)
    for d in sorted(glob.glob(os.path.join(out_dir, "R*"))):
        patch = os.path.join(d, "patch.diff")
        if not os.path.exists(patch):
            continue
        rc, o = sh("git -C /repo apply --check %s" % patch)
        if rc != 0:
            print(json.dumps(dict(patch=patch, error="does not apply", detail=o[:300])))
            continue
        sh("git -C /repo apply %s" % patch)
        res = {}
        try:
            rc, o = sh("/venv/bin/python -m pytest -q -p no:cacheprovider tests 2>&1 | tail -1", cwd="/repo")
            res["tests"] = o.strip()[-60:]
            for c in checks:
                for seed in (os.environ.get("BENIGN_SEEDS", "0,1").split(",")):
                    rc, o = sh("./check %s" % c, VERIF, env=dict(os.environ, VERIF_SEED=seed))
                    viol = [l for l in o.splitlines() if l.startswith("VIOLATION")]
                    summ = [l for l in o.splitlines() if " ok " in l or " FAIL " in l]
                    res["%s@%s" % (c, seed)] = dict(exit=rc, violation=viol, summary=(summ[-1] if summ else o[-300:]))
        finally:
            sh("git -C /repo checkout -- .")
            sh("git -C /repo clean -fdq -e gtwrap/matlab_wrapper/matlab_wrapper.tpl tests/actual")
        meta = {}
        try:
            meta = json.load(open(os.path.join(d, "meta.json")))
        except Exception:  # noqa
            pass
        alarms = [k for k, v in res.items() if isinstance(v, dict) and v["exit"] != 0]
        print(json.dumps(dict(patch=patch, summary=meta.get("summary", "")[:200], tests=res.get("tests"), alarms=alarms,
                              detail={k: v for k, v in res.items() if k in alarms})), flush=True)


if __name__ == "__main__":
    main()
